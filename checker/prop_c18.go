package main

import (
	"fmt"
	"go/token"
	"go/types"
	"sort"
	"strings"

	"golang.org/x/tools/go/ssa"
)

func init() {
	register(&propDef{
		id: "C18",
		explanation: "Static clauses of 'the ReAct agent alternates model and tools faithfully and stops' (the property itself is behavioural over model scripts; decided here are the structural facts it rests on): " +
			"(step-limit) config.MaxStep flows into compose.WithMaxRunSteps of the agent graph's compile options (with C01.step-bound this is 'stops with the step-limit error'); " +
			"(topology) the graph built by NewAgent/buildReturnDirectly is START->model, model=>{tools,END}, and tools->model or tools=>{model,direct_return}, direct_return->END — extracted from the Add* calls with constant keys; " +
			"(history) both state pre-handlers append their input to state.Messages (store back of an append rooted in the same field); the model is given a fresh copy when a message modifier is configured; " +
			"(same-runnable) Generate -> runnable.Invoke and Stream -> runnable.Stream on the same field with the same options; " +
			"(capture) no escaping literal in flow/agent/** writes a variable captured from its constructor; the state generator returns a fresh, unaliased object; " +
			"(default-checker) both default stream tool-call checkers answer 'no tool call' only at io.EOF or on a chunk with content, 'tool call' only on a chunk with tool calls — an empty leading chunk decides nothing; (loopvar) the tools node and the agent flows keep no loop variable or its address beyond an iteration (each unknown-tool handler call gets its own call's data); " +
			"(tool-call-merge) streamed tool-call fragments are grouped by ranging over all index groups (C14.map-order).",
		decided:    []string{"step-limit", "topology", "history", "same-runnable", "capture", "default-checker", "loopvar", "tool-call-merge", "return-directly-first", "stream-answers-total"},
		notDecided: []string{"alternation and history CONTENTS over model scripts", "tool-call detection in streamed output by user-supplied checkers", "return-directly selection", "equality of Generate and Stream answers"},
		run:        runC18,
	})
}

func runC18(w *World, r *Report) {
	// ---- return-directly: the FIRST matching call of the message is the one returned
	// a per-chunk converter of a stream runs once for EVERY chunk, lazily, whenever the consumer reads: it must not update
	// the run's state (or anything else that outlives the chunk) — Generate sees the whole result in one call, Stream would
	// see the update after the first chunk
	r.Rule("C18.chunk-converters-pure", "the converters the agent hands to StreamReaderWithConvert (and the state callbacks they run) write no field of an object they were given: per-chunk code only reads the state", 1)
	{
		swc := w.Fn("schema", "StreamReaderWithConvert")
		n := 0
		for _, fn := range w.RepoFuncs("flow") {
			instrs(fn, func(in ssa.Instruction) {
				c, ok := in.(ssa.CallInstruction)
				if !ok {
					return
				}
				sc := staticCallee(c)
				if sc == nil || origin(sc) != swc || len(c.Common().Args) < 2 {
					return
				}
				var lit *ssa.Function
				switch a := c.Common().Args[1].(type) {
				case *ssa.MakeClosure:
					lit, _ = a.Fn.(*ssa.Function)
				case *ssa.Function:
					lit = a
				}
				if lit == nil {
					return
				}
				n++
				bad := ""
				pos := lit.Pos()
				for _, f := range withAnons(lit) {
					for _, fw := range fieldWrites(f) {
						if p := paramRoot(fw.base, 0); p != nil {
							bad = fmt.Sprintf("%s writes %s through its parameter %s", w.fname(f), fw.field.Name(), p.Name())
							pos = fw.in.Pos()
						}
					}
				}
				r.Check(bad == "", "C18.chunk-converters-pure", "per-chunk converter "+w.fname(lit)+" only reads what it is given", pos, "no store through a parameter in the converter or the callbacks it runs", bad+": the converter runs once per chunk — with a tool result of two or more chunks the first chunk's update (e.g. clearing the return-directly mark) changes what the later chunks see, so Stream returns only the first chunk where Generate returns the whole result")
			})
		}
		if n == 0 {
			r.Fail("C18.chunk-converters-pure", "converters handed to StreamReaderWithConvert in flow/", swc.Pos(), "none found")
		}
	}

	r.Rule("C18.tool-streams-merge", "the merge of the per-call tool result streams dispatches consistently for every number of calls (static select table up to its size, reflect select with a case table above it — shared with C01 / C04 / C08): Stream with exactly five tool calls must not hang where Generate answers", 1)
	mergeDispatchCheck(w, r, "C18.tool-streams-merge")

	r.Rule("C18.tools-on-callers-context", "the tools of a step run on the context of the agent call, not on one cancelled when the tools node returns its readers: a streaming tool delivers under Stream what it delivers under Generate (shared with C17.parallel-protocol)", 3)
	toolsCallerCtxCheck(w, r, "C18.tools-on-callers-context")

	r.Rule("C18.return-directly-first", "getReturnDirectlyToolCallID returns the id of the first tool call that is in the return-directly set (return from inside the scan, no loop-carried 'last match')", 1)
	{
		f := w.Fn("flow/agent/react", "getReturnDirectlyToolCallID")
		n, bad := 0, ""
		instrs(f, func(in ssa.Instruction) {
			ret, ok := in.(*ssa.Return)
			if !ok {
				return
			}
			v := returnedValue(ret, 0)
			if s, isC := constString(v); isC && s == "" {
				return
			}
			n++
			if _, isPhi := v.(*ssa.Phi); isPhi {
				bad = "the returned id is a loop-carried variable (the last match wins)"
				return
			}
			// inside the loop: the return's block can reach itself only through the loop? it must lie in a cycle's body
			inLoop := false
			for _, li := range naturalLoops(f) {
				for _, p := range ret.Block().Preds {
					if li.body[p] {
						inLoop = true
					}
				}
			}
			if !inLoop {
				bad = "the match is not returned from inside the scan"
			}
		})
		r.Check(n > 0 && bad == "", "C18.return-directly-first", "getReturnDirectlyToolCallID returns at the first match", f.Pos(), "return toolCall.ID inside the loop", "with two or more return-directly calls in one assistant message the agent returns another call's result than documented ('only the first one will be returned'): "+bad)
	}
	// ---- shared with C17: every streamed tool answer is delivered
	r.Rule("C18.stream-answers-total", "the tools node's stream converter turns every chunk (an empty one included) into a frame carrying the call's ToolMessage", 1)
	toolStreamConverterTotal(w, r, "C18.stream-answers-total")

	newAgent := w.Fn("flow/agent/react", "NewAgent")
	brd := w.Fn("flow/agent/react", "buildReturnDirectly")

	// ---- step-limit
	r.Rule("C18.step-limit", "config.MaxStep -> compose.WithMaxRunSteps -> graph.Compile options", 1)
	fMaxStep := w.Field("flow/agent/react", "AgentConfig", "MaxStep")
	wmrs := w.Fn("compose", "WithMaxRunSteps")
	{
		good := false
		var optVal ssa.Value
		for _, c := range callsTo(newAgent, wmrs) {
			if isLoadOfField(c.Common().Args[0], fMaxStep) {
				optVal = c.(ssa.Value)
			}
		}
		if optVal != nil {
			// flows into the variadic options of the Compile call
			instrs(newAgent, func(in ssa.Instruction) {
				c, ok := in.(ssa.CallInstruction)
				if !ok {
					return
				}
				sc := staticCallee(c)
				if sc == nil || sc.Name() != "Compile" {
					return
				}
				for _, a := range c.Common().Args {
					if usesValue(a, optVal) {
						good = true
					}
				}
			})
		}
		r.Check(good, "C18.step-limit", "NewAgent passes MaxStep to the graph as its step limit", newAgent.Pos(), "WithMaxRunSteps(config.MaxStep) is among the Compile options", "the configured step limit does not reach the graph: the agent loops until the default limit (or forever)")
	}

	// ---- topology
	r.Rule("C18.topology", "agent graph = START->model, model=>{tools,END}, tools->model | tools=>{model,direct},direct->END", 5)
	type edge struct{ from, to string }
	edges := map[edge]bool{}
	branches := map[string][]string{}
	roles := map[string]string{} // node key -> role
	keyOf := func(v ssa.Value) (string, bool) {
		if s, ok := constString(v); ok {
			return s, true
		}
		// local variable initialised with a constant (nodeKeyDirectReturn := "direct_return")
		if u, ok := v.(*ssa.UnOp); ok {
			if cell, ok := u.X.(*ssa.Alloc); ok {
				for _, ref := range *cell.Referrers() {
					if st, ok := ref.(*ssa.Store); ok && st.Addr == ssa.Value(cell) {
						if s, ok := constString(st.Val); ok {
							return s, true
						}
					}
				}
			}
			if fv, ok := u.X.(*ssa.FreeVar); ok {
				_ = fv
			}
		}
		return "", false
	}
	exact := true
	endMapKeys := func(v ssa.Value) []string {
		// map literal: MakeMap followed by MapUpdates with constant keys
		var keys []string
		mm, ok := v.(*ssa.MakeMap)
		if !ok {
			return nil
		}
		for _, ref := range *mm.Referrers() {
			if mu, ok := ref.(*ssa.MapUpdate); ok {
				if k, ok := keyOf(mu.Key); ok {
					keys = append(keys, k)
				} else {
					exact = false
				}
			}
		}
		sort.Strings(keys)
		return keys
	}
	for _, fn := range []*ssa.Function{newAgent, brd} {
		instrs(fn, func(in ssa.Instruction) {
			c, ok := in.(ssa.CallInstruction)
			if !ok {
				return
			}
			sc := staticCallee(c)
			if sc == nil || fnPkg(sc) == nil || w.relPkg(fnPkg(sc).Path()) != "compose" {
				return
			}
			a := c.Common().Args
			switch sc.Name() {
			case "AddChatModelNode", "AddToolsNode", "AddLambdaNode":
				k, ok := keyOf(a[1])
				if !ok {
					exact = false
					return
				}
				role := map[string]string{"AddChatModelNode": "model", "AddToolsNode": "tools", "AddLambdaNode": "direct"}[sc.Name()]
				roles[k] = role
			case "AddEdge":
				f, ok1 := keyOf(a[1])
				t, ok2 := keyOf(a[2])
				if !ok1 || !ok2 {
					exact = false
					return
				}
				edges[edge{f, t}] = true
			case "AddBranch":
				f, ok1 := keyOf(a[1])
				if !ok1 {
					exact = false
					return
				}
				// the branch argument: NewStreamGraphBranch(cond, endNodes)
				if bc, ok := a[2].(*ssa.Call); ok && len(bc.Call.Args) == 2 {
					branches[f] = endMapKeys(bc.Call.Args[1])
				} else {
					exact = false
				}
			}
		})
	}
	if !exact {
		undecidedf("C18.topology: the agent graph is not built from constant keys any more (extraction not exact)")
	}
	roleKey := func(role string) string {
		for k, v := range roles {
			if v == role {
				return k
			}
		}
		return "?" + role
	}
	start, end := constStringOf(w, "compose", "START"), constStringOf(w, "compose", "END")
	model, tools, direct := roleKey("model"), roleKey("tools"), roleKey("direct")
	name := func(k string) string {
		switch k {
		case start:
			return "START"
		case end:
			return "END"
		case model:
			return "model"
		case tools:
			return "tools"
		case direct:
			return "direct"
		}
		return k
	}
	var got []string
	for e := range edges {
		got = append(got, name(e.from)+"->"+name(e.to))
	}
	for f, ts := range branches {
		var ns []string
		for _, t := range ts {
			ns = append(ns, name(t))
		}
		sort.Strings(ns)
		got = append(got, name(f)+"=>{"+strings.Join(ns, ",")+"}")
	}
	sort.Strings(got)
	want := []string{"START->model", "direct->END", "model=>{END,tools}", "tools->model", "tools=>{direct,model}"}
	r.Check(strings.Join(got, " ") == strings.Join(want, " "), "C18.topology", "agent graph shape", newAgent.Pos(), strings.Join(got, " "), "extracted agent graph is "+strings.Join(got, " ")+"; want "+strings.Join(want, " ")+" (model and tools no longer alternate strictly)")
	// which arm: tools->model only when there is no return-directly tool; the direct-return wiring only otherwise
	fTRD := w.Field("flow/agent/react", "AgentConfig", "ToolReturnDirectly")
	// the configured set itself, or the agent's own copy of it (a map filled by ranging over the configured one)
	isTRDSet := func(x ssa.Value) bool {
		if isLoadOfField(x, fTRD) {
			return true
		}
		// through the cell of a captured local
		resolve := func(v ssa.Value) ssa.Value {
			if ld, ok := v.(*ssa.UnOp); ok {
				if al, ok := ld.X.(*ssa.Alloc); ok {
					var only ssa.Value
					n := 0
					for _, ref := range *al.Referrers() {
						if st, ok := ref.(*ssa.Store); ok && st.Addr == ssa.Value(al) {
							n++
							only = st.Val
						}
					}
					if n == 1 {
						return only
					}
				}
			}
			return v
		}
		mk, ok := resolve(x).(*ssa.MakeMap)
		if !ok {
			return false
		}
		copied := false
		var mus []*ssa.MapUpdate
		instrs(newAgent, func(in ssa.Instruction) {
			if mu, ok := in.(*ssa.MapUpdate); ok && resolve(mu.Map) == ssa.Value(mk) {
				mus = append(mus, mu)
			}
		})
		for _, mu := range mus {
			// the key comes from a Next over a Range of the configured set
			if ex, ok := mu.Key.(*ssa.Extract); ok {
				if nx, ok := ex.Tuple.(*ssa.Next); ok {
					if rg, ok := nx.Iter.(*ssa.Range); ok && isLoadOfField(rg.X, fTRD) {
						copied = true
						continue
					}
				}
			}
			return false
		}
		return copied
	}
	isLenTRD := func(v ssa.Value) bool { return isLenOf(v, isTRDSet) }
	{
		var brdCall, edgeCall ssa.Instruction
		instrs(newAgent, func(in ssa.Instruction) {
			if isCallTo(in, brd) {
				brdCall = in
			}
			if c, ok := in.(ssa.CallInstruction); ok {
				if sc := staticCallee(c); sc != nil && sc.Name() == "AddEdge" {
					if f, _ := keyOf(c.Common().Args[1]); f == tools {
						edgeCall = in
					}
				}
			}
		})
		armOK := brdCall != nil && edgeCall != nil &&
			hasGuard(brdCall.Block(), func(g guard) bool {
				op, x, y, ok := asCmp(g.cond)
				return ok && op == token.GTR && g.pol && isLenTRD(x) && isConstN(y, 0)
			}) &&
			(hasGuard(edgeCall.Block(), func(g guard) bool {
				op, x, y, ok := asCmp(g.cond)
				return ok && op == token.GTR && !g.pol && isLenTRD(x) && isConstN(y, 0)
			}))
		r.Check(armOK, "C18.topology", "return-directly wiring is chosen by len(config.ToolReturnDirectly) > 0", newAgent.Pos(), "buildReturnDirectly on the >0 arm, tools->model on the other", "both / neither of the tools successors are wired")
	}
	for _, p := range []struct{ what, k string }{{"model", model}, {"tools", tools}} {
		r.Check(!strings.HasPrefix(p.k, "?"), "C18.topology", p.what+" node present", newAgent.Pos(), "key "+p.k, "no "+p.what+" node is added")
	}
	r.Check(!strings.HasPrefix(direct, "?"), "C18.topology", "direct-return node present", brd.Pos(), "key "+direct, "no direct-return node")

	// ---- history
	r.Rule("C18.history", "state pre-handlers append their input to state.Messages; the modifier gets a fresh copy", 3)
	stT := w.Named("flow/agent/react", "state")
	fMsgs := w.Field("flow/agent/react", "state", "Messages")
	nh := 0
	for _, lit := range newAgent.AnonFuncs {
		// pre-handler literals: signature (ctx, input, *state)
		sig := lit.Signature
		if sig.Params().Len() != 3 || namedOf(sig.Params().At(2).Type()) != stT {
			continue
		}
		nh++
		inParam := lit.Params[1]
		ok := false
		for _, fw := range fieldWrites(lit) {
			if !sameField(fw.field, fMsgs) {
				continue
			}
			if ap, isAp := fw.val.(*ssa.Call); isAp && isBuiltin(ap, "append") && isLoadOfField(ap.Call.Args[0], fMsgs) {
				// appended value derives from the input parameter
				for _, a := range ap.Call.Args[1:] {
					if a == ssa.Value(inParam) || usesValue(a, inParam) {
						ok = true
					}
				}
			}
		}
		r.Check(ok, "C18.history", fmt.Sprintf("pre-handler %s appends its input to the history", w.fname(lit)), lit.Pos(), "state.Messages = append(state.Messages, input...)", "the message handed to this node is not recorded in the history (later model calls do not see it)")
		// … and every store to the history is such an append: the history never BECOMES the slice the handler was
		// handed (later appends of the run would write into spare capacity of the caller's backing array)
		for _, fw := range fieldWrites(lit) {
			if !sameField(fw.field, fMsgs) {
				continue
			}
			adopted := fw.val == ssa.Value(inParam)
			if sl, isSl := fw.val.(*ssa.Slice); isSl && sl.X == ssa.Value(inParam) {
				adopted = true
			}
			r.Check(!adopted, "C18.history", fmt.Sprintf("pre-handler %s: the history is not the caller's slice", w.fname(lit)), fw.in.Pos(), "state.Messages is only ever appended to", "the history adopts the slice the handler was handed (state.Messages = input): the run's later appends write into spare capacity of the caller's backing array — running on conversation[:1] overwrites conversation[1] and [2], a later run on conversation[:3] shows the model run 1's assistant message and tool result instead of the original messages, two overlapping runs on one slice share one history")
		}
		// modifier argument is a fresh copy
		instrs(lit, func(in ssa.Instruction) {
			c, ok := in.(*ssa.Call)
			if !ok || c.Call.IsInvoke() || staticCallee(c) != nil {
				return
			}
			// dynamic call through the captured messageModifier
			if _, isB := c.Call.Value.(*ssa.Builtin); isB || len(c.Call.Args) != 2 {
				return
			}
			if freeVarRoot(c.Call.Value, 0) == nil {
				return
			}
			arg := c.Call.Args[1]
			_, fresh := arg.(*ssa.MakeSlice)
			copied := false
			if fresh {
				instrs(lit, func(i2 ssa.Instruction) {
					if cc, ok := i2.(*ssa.Call); ok && isBuiltin(cc, "copy") && cc.Call.Args[0] == arg && isLoadOfField(cc.Call.Args[1], fMsgs) {
						copied = true
					}
				})
			}
			r.Check(fresh && copied, "C18.history", "message modifier receives a copy of the history", c.Pos(), "make + copy(state.Messages)", "the modifier is handed the agent's own history slice (or a reslice of it): a modifier writing elements in place corrupts the history of later steps")
		})
	}
	if nh < 2 {
		r.Fail("C18.history", "state pre-handlers", newAgent.Pos(), fmt.Sprintf("%d pre-handlers found (want model and tools)", nh))
	}

	// ---- same-runnable
	r.Rule("C18.same-runnable", "Generate -> runnable.Invoke, Stream -> runnable.Stream, same options", 2)
	fRun := w.Field("flow/agent/react", "Agent", "runnable")
	gco := w.Fn("flow/agent", "GetComposeOptions")
	for _, p := range []struct{ m, callee string }{{"Agent.Generate", "Invoke"}, {"Agent.Stream", "Stream"}} {
		f := w.Fn("flow/agent/react", p.m)
		ok := false
		instrs(f, func(in ssa.Instruction) {
			if invokeName(in) == p.callee && isLoadOfField(in.(ssa.CallInstruction).Common().Value, fRun) {
				if len(callsTo(f, gco)) == 1 {
					ok = true
				}
			}
		})
		r.Check(ok, "C18.same-runnable", p.m+" -> runnable."+p.callee, f.Pos(), "same compiled runnable, options from agent.GetComposeOptions", "Generate/Stream do not run the same compiled graph with the caller's options")
	}

	// ---- capture / state-fresh
	r.Rule("C18.capture", "no escaping literal in flow/agent/** writes a constructor variable; state generator fresh", 3)
	cws := captureWrites(w, w.RepoFuncs("flow/agent"), repoSyncCallee(w))
	for _, cw := range cws {
		construct := fmt.Sprintf("%s writes captured %s", w.fname(cw.lit), cw.varName)
		if cw.escaping == nil {
			r.OK("C18.capture", construct, cw.store.Pos(), "synchronous literal")
			continue
		}
		r.Fail("C18.capture", construct, cw.store.Pos(), fmt.Sprintf("variable %q of %s is written by escaping literal %s (%s): shared by all runs of the agent", cw.varName, w.fname(cw.declIn), w.fname(cw.escaping), cw.why))
	}
	ruleStateFresh(w, r, "C18.capture")
	// evidence: constructor context used at run time
	for _, lit := range newAgent.AnonFuncs {
		for _, fv := range lit.FreeVars {
			if fv.Name() == "ctx" {
				r.Info("C18.capture", w.fname(lit)+" reads the constructor's ctx", lit.Pos(), "the branch condition passes NewAgent's ctx (not the per-call ctx) to the tool-call checker: a read, not a write; listed for the record")
			}
		}
	}

	r.Rule("C18.config-frozen", "the agent's behaviour is fixed when it is built: no function literal created by NewAgent (state generator, state handlers, branch conditions — all of which outlive the call) captures the *AgentConfig parameter; what they need was copied into locals, like the model, the tools and the modifier are. And the step limit is a counter, not a size: no make in flow/agent/react takes a length or capacity computed from MaxStep", 2)
	{
		var cfgP *ssa.Parameter
		for _, p := range newAgent.Params {
			if pt, ok := p.Type().(*types.Pointer); ok {
				if n := namedOf(pt.Elem()); n != nil && n.Obj().Name() == "AgentConfig" {
					cfgP = p
				}
			}
		}
		if cfgP == nil {
			undecidedf("C18.config-frozen: NewAgent has no *AgentConfig parameter")
		}
		nlit := 0
		var visit func(fn *ssa.Function)
		visit = func(fn *ssa.Function) {
			instrs(fn, func(in ssa.Instruction) {
				mc, ok := in.(*ssa.MakeClosure)
				if !ok {
					return
				}
				lit := mc.Fn.(*ssa.Function)
				nlit++
				bad := ""
				for i, b := range mc.Bindings {
					v := b
					if al, ok := b.(*ssa.Alloc); ok {
						for _, ref := range *al.Referrers() {
							if st, ok := ref.(*ssa.Store); ok && st.Addr == ssa.Value(al) && st.Val == ssa.Value(cfgP) {
								v = cfgP
							}
						}
					}
					if v == ssa.Value(cfgP) {
						bad = lit.FreeVars[i].Name()
					}
				}
				r.Check(bad == "", "C18.config-frozen", w.fname(lit)+" does not capture the caller's config", lit.Pos(), "free variables are locals copied at construction", "the literal reads the caller's *AgentConfig at run time (captured "+bad+"): re-using the config struct to build a second agent — assign a field, call NewAgent again — silently changes the first one (the return-directly set consulted by the tools node's pre-handler no longer matches the topology that was built from it), and a config value is re-read on every run")
				visit(lit)
			})
		}
		visit(newAgent)
		if nlit < 3 {
			undecidedf("C18.config-frozen: only %d function literals in NewAgent", nlit)
		}
		fMax := w.Field("flow/agent/react", "AgentConfig", "MaxStep")
		nmk := 0
		for _, fn := range w.RepoFuncs("flow/agent/react") {
			instrs(fn, func(in ssa.Instruction) {
				mk, ok := in.(*ssa.MakeSlice)
				if !ok {
					return
				}
				nmk++
				dep := false
				for _, v := range []ssa.Value{mk.Len, mk.Cap} {
					seen := map[ssa.Value]bool{}
					var walk func(v ssa.Value, d int)
					walk = func(v ssa.Value, d int) {
						if v == nil || d > 12 || seen[v] || dep {
							return
						}
						seen[v] = true
						if f, _ := loadedField(v); f != nil && sameField(f, fMax) {
							dep = true
							return
						}
						if ins, ok := v.(ssa.Instruction); ok {
							for _, op := range ins.Operands(nil) {
								if *op != nil {
									walk(*op, d+1)
								}
							}
						}
						if fv, ok := v.(*ssa.FreeVar); ok && strings.Contains(strings.ToLower(fv.Name()), "maxstep") {
							dep = true
						}
					}
					walk(v, 0)
				}
				r.Check(!dep, "C18.config-frozen", fmt.Sprintf("%s: make #%d is not sized by the step limit", w.fname(fn), nmk), mk.Pos(), "length / capacity independent of MaxStep", "the step limit is used as an allocation size, paid on every run before the model is called: MaxStep = math.MaxInt ('no limit') overflows MaxStep+1 and the run panics out of Generate / Stream ('makeslice: cap out of range', outside any node, nothing recovers it), MaxStep = 1<<26 allocates 512 MiB for a one-step conversation")
			})
		}
	}

	r.Rule("C18.handlers-leave-messages-alone", "the state handlers and branch conditions NewAgent installs write nothing through the messages they are handed: the assistant message the model returned is the one that is executed AND the one recorded in the history — rewriting it in place (arguments 'normalised', ids filled in) makes the next model call see a message the model never produced", 2)
	{
		n := 0
		for _, lit := range withAnons(newAgent) {
			if lit == newAgent {
				continue
			}
			names := map[string]bool{}
			for _, p := range lit.Params {
				t := p.Type()
				if sl, ok := t.Underlying().(*types.Slice); ok {
					t = sl.Elem()
				}
				if pt, ok := t.(*types.Pointer); ok {
					if nm := namedOf(pt.Elem()); nm != nil && nm.Obj().Name() == "Message" {
						names[p.Name()] = true
					}
				}
			}
			if len(names) == 0 {
				continue
			}
			n++
			ruleNoMutateParams(w, r, "C18.handlers-leave-messages-alone", lit, names)
		}
		if n < 2 {
			r.Deferred = append(r.Deferred, fmt.Sprintf("C18.handlers-leave-messages-alone: only %d message-taking literals in NewAgent", n))
		}
	}

	shareRule(w, r, "C18.tool-frames-keep-their-call", "the per-call converter of the tools node's stream form writes no variable captured from the call (the call id heads EVERY frame): the return-directly node filters the tools stream frame by frame on the id", 5, "C09", "C09.capture-write")
	shareRule(w, r, "C18.model-stream-closed-once-per-copy", "a copy of the model's stream counts as closed once however often Close is called on it: the source is closed when every copy is closed, not when the checker's copy was closed twice (the tools node / END would read a truncated stream under Stream only)", 1, "C08", "C08.copy-cell")
	shareRule(w, r, "C18.every-call-is-executed", "every tool call of a message is executed, repeated ones included: task i is tool call i and result i is task i's own outcome under Invoke as under Stream (a de-duplication by name and arguments answers a stateful tool's second call with the first one's result, in Generate only)", 1, "C17", "C17.index-preserved")
	shareRule(w, r, "C18.run-time-limit-replaces", "a run-time step limit replaces the compiled one whichever is larger: an agent built with MaxStep 3 and run with WithRuntimeMaxSteps(10) gets ten steps", 1, "C01", "C01.runtime-limit-replaces")
	r.Rule("C18.direct-return-looks-at-every-slot", "the converter behind the return-directly branch looks through the whole frame of tool results for the recorded call id: under Generate the tools node hands over ONE frame with every slot filled, so the loop over the frame is left early only where the id matched", 1)
	{
		brd := w.Fn("flow/agent/react", "buildReturnDirectly")
		n := 0
		for _, lit := range withAnons(brd) {
			for _, li := range naturalLoops(lit) {
				// loops over a []*schema.Message only
				isFrameLoop := false
				for b := range li.body {
					for _, x := range b.Instrs {
						if ia, ok := x.(*ssa.IndexAddr); ok {
							if sl, isSl := ia.X.Type().Underlying().(*types.Slice); isSl && strings.HasSuffix(sl.Elem().String(), "schema.Message") {
								isFrameLoop = true
							}
						}
					}
				}
				if !isFrameLoop {
					continue
				}
				n++
				bad := ""
				for b := range li.body {
					if b == li.header {
						continue
					}
					for _, sc := range b.Succs {
						if li.body[sc] {
							continue
						}
						// an early exit: allowed where the id comparison holds
						matched := false
						for _, g := range append(guardsOf(b), guardsOfEdge(b, sc)...) {
							if op, x, y, okc := asCmp(g.cond); okc && op == token.EQL && g.pol {
								fx, _ := loadedField(x)
								fy, _ := loadedField(y)
								if (fx != nil && fx.Name() == "ToolCallID") || (fy != nil && fy.Name() == "ToolCallID") {
									matched = true
								}
							}
						}
						if !matched {
							bad = fmt.Sprintf("b%d leaves the loop without the id having matched", b.Index)
						}
					}
				}
				r.Check(bad == "", "C18.direct-return-looks-at-every-slot", fmt.Sprintf("%s: loop over the frame", lit.Name()), lit.Pos(), "left early only on a match", bad+": the loop stops at the first filled slot — right for the one-slot frames of ToolsNode.Stream, but under Generate the frame has every slot filled, so with calls [plain, direct] the return-directly result is not found and the run fails 'stream reader is empty, concat fail' at node direct_return while Stream returns it")
			}
		}
		if n == 0 {
			r.Deferred = append(r.Deferred, "C18.direct-return-looks-at-every-slot: no loop over a message frame found in buildReturnDirectly")
		}
	}
	shareRule(w, r, "C18.tool-call-fields-per-call", "id, type and name of a merged tool call are collected per call: none of them is carried from one index group to the next (under Stream the agent's tools node rebuilds the assistant message from its chunks; a carried type fails the merge or is inherited by a call that had none)", 1, "C14", "C14.map-order-carried")

	// ---- the default stream tool-call checker: an empty leading chunk decides nothing
	r.Rule("C18.default-checker", "the default stream checkers answer 'no tool call' only at end of stream or on a chunk with content; 'tool call' only on a chunk with tool calls", 4)
	{
		fTC := w.Field("schema", "Message", "ToolCalls")
		fContent := w.Field("schema", "Message", "Content")
		isEOFv := func(v ssa.Value) bool {
			if mi, ok := v.(*ssa.MakeInterface); ok {
				v = mi.X
			}
			u, ok := v.(*ssa.UnOp)
			if !ok {
				return false
			}
			g, ok := u.X.(*ssa.Global)
			return ok && g.Pkg != nil && g.Pkg.Pkg.Path() == "io" && g.Name() == "EOF"
		}
		lenCmp := func(g guard, f *types.Var) (nonEmpty bool, ok bool) {
			op, x, y, isC := asCmp(g.cond)
			if !isC || !isLenOf(x, func(v ssa.Value) bool { return isLoadOfField(v, f) }) {
				return false, false
			}
			if z, isZ := constInt(y); !isZ || z != 0 {
				return false, false
			}
			if !g.pol {
				op = negateCmp(op)
			}
			switch op {
			case token.GTR, token.NEQ:
				return true, true
			case token.EQL, token.LEQ:
				return false, true
			}
			return false, false
		}
		for _, pk := range []string{"flow/agent/react", "flow/agent/multiagent/host"} {
			fn := w.TryFn(pk, "firstChunkStreamToolCallChecker")
			if fn == nil {
				r.Fail("C18.default-checker", pk+": default checker", token.NoPos, "firstChunkStreamToolCallChecker not found")
				continue
			}
			n := 0
			instrs(fn, func(in ssa.Instruction) {
				ret, ok := in.(*ssa.Return)
				if !ok || in.Block() == fn.Recover {
					return
				}
				if !isNilConst(returnedValue(ret, 1)) {
					return // error return
				}
				n++
				v := returnedValue(ret, 0)
				gs := guardsOf(ret.Block())
				hasTC, eof, content := false, false, false
				for _, g := range gs {
					if ne, ok := lenCmp(g, fTC); ok && ne {
						hasTC = true
					}
					if ne, ok := lenCmp(g, fContent); ok && ne {
						content = true
					}
					if op, x, y, ok := asCmp(g.cond); ok && (isEOFv(x) || isEOFv(y)) && ((op == token.EQL && g.pol) || (op == token.NEQ && !g.pol)) {
						eof = true
					}
				}
				construct := fmt.Sprintf("%s checker: answer #%d", pk, n)
				if b, isC := constBool(v); isC && b {
					r.Check(hasTC, "C18.default-checker", construct, ret.Pos(), "'tool call' under len(msg.ToolCalls) > 0", "answers 'tool call' without having seen one")
					return
				}
				if _, isC := constBool(v); !isC {
					// a computed answer: it may be 'tool call' as well — justified only if it is the tool-call test itself
					selfTC := false
					if op, x, y, ok := asCmp(v); ok && (op == token.GTR || op == token.NEQ) && isConstN(y, 0) && isLenOf(x, func(a ssa.Value) bool { return isLoadOfField(a, fTC) }) {
						selfTC = true
					}
					if !selfTC && !hasTC {
						r.Fail("C18.default-checker", construct, ret.Pos(), "the checker's answer is computed from something other than the chunk's tool calls: it can answer 'tool call' on a chunk without one (the run loops back into the tools node with nothing to call) or miss one")
						return
					}
				}
				r.Check(eof || content, "C18.default-checker", construct, ret.Pos(), "'no tool call' at io.EOF or on a chunk with content",
					"the checker can answer 'no tool call' on a chunk that has neither tool calls nor content (a role-only / keep-alive first chunk): the streamed run goes to END with the tool calls unexecuted while Generate on the same model output runs the tools")
			})
			if n < 2 {
				r.Fail("C18.default-checker", pk+": default checker", fn.Pos(), fmt.Sprintf("only %d non-error answers found", n))
			}
		}
	}

	// ---- per-call data handed to tools / unknown-tool handlers is the call's own (no shared loop variable)
	r.Rule("C18.loopvar", "the tools node and the agent flows keep no loop variable (or its address) beyond an iteration", 1)
	{
		n := 0
		for _, fn := range w.RepoFuncs("compose", "flow/agent") {
			file := w.pos(fn.Pos())
			if !(strings.Contains(file, "tool_node.go") || strings.HasPrefix(file, "flow/agent")) {
				continue
			}
			n++
			for _, c := range loopVarCaptures(fn) {
				r.Fail("C18.loopvar", w.fname(origin(fn))+": "+c, fn.Pos(), "a literal created in a loop captures the loop's variable: every instance sees the last tool call")
			}
			for _, c := range loopVarAddrEscapes(w, fn) {
				r.Fail("C18.loopvar", w.fname(origin(fn))+": "+c, fn.Pos(), "the address of a loop variable outlives the iteration: the tool result recorded for one call is the answer computed for another (the history the next model call sees is wrong, in Generate and Stream alike)")
			}
		}
		if n < 10 {
			undecidedf("C18.loopvar: only %d functions in the tools node / agent flows (floor 10)", n)
		}
		r.OK("C18.loopvar", "tools node and agent flows", w.Fn("compose", "ToolsNode.genToolCallTasks").Pos(), fmt.Sprintf("%d functions inspected", n))
	}

	// ---- tool-call-merge
	r.Rule("C18.chunk-parts-independent", "ConcatMessages collects each part of a chunk (content, tool calls, extra) under a test of that part only: a model chunk that carries text AND a tool-call fragment contributes both, so the assistant message the agent executes and records in Stream mode has every call the model made (shared with C14)", 1)
	{
		cm := w.Fn("schema", "ConcatMessages")
		n, hits := partsGuardedByOtherParts(cm, w.Named("schema", "Message"))
		for _, h := range hits {
			r.Fail("C18.chunk-parts-independent", fmt.Sprintf("ConcatMessages: collecting Message.%s depends on Message.%s", h.field.Name(), strings.Join(h.others, ",")), h.app.Pos(), "the append of this part sits behind a test of another part of the same chunk (else-arm / later switch case): a chunk carrying both loses this one — the head of a tool call (id, name) vanishes and the tools node sees a call with an empty name, or no call at all and the agent ends the turn with the text")
		}
		if len(hits) == 0 {
			r.OK("C18.chunk-parts-independent", fmt.Sprintf("ConcatMessages: %d per-part appends", n), cm.Pos(), "each guarded by tests of its own part only")
		}
		if n < 3 {
			r.Deferred = append(r.Deferred, fmt.Sprintf("C18.chunk-parts-independent: only %d per-part appends found in ConcatMessages", n))
		}
	}

	r.Rule("C18.tool-call-merge", "concatToolCalls ranges over all index groups", 1)
	ctc := w.Fn("schema", "concatToolCalls")
	var gm *ssa.MakeMap
	instrs(ctc, func(in ssa.Instruction) {
		if mm, ok := in.(*ssa.MakeMap); ok {
			gm = mm
		}
	})
	okr := false
	instrs(ctc, func(in ssa.Instruction) {
		if rg, ok := in.(*ssa.Range); ok && gm != nil && rg.X == ssa.Value(gm) {
			okr = true
		}
	})
	r.Check(okr, "C18.tool-call-merge", "streamed tool calls: every index group is merged", ctc.Pos(), "range over the group map", "tool calls with sparse / non-zero-based indexes are dropped when a streamed assistant message is concatenated: Stream runs fewer tools than Generate")
	_ = types.Typ
}
