package main

import (
	"fmt"
	"go/token"
	"go/types"
	"reflect"
	"sort"
	"strings"

	"golang.org/x/tools/go/ssa"
)

func init() {
	register(&propDef{
		id: "C12",
		explanation: "Static clauses of 'checkpoint serialisation round-trips every supported value or fails loudly' (round-trip equality over the value universe is out of static reach; decided are the encoder/decoder agreement and the fail-loudly discipline): " +
			"(codec-agree) the set of wire-struct fields written by the encoder equals the set read by the decoder; " +
			"(kind-siblings) every successful encoder exit has set exactly the discriminator of its arm (Type / StructType / MapKeyType / SliceValueType), the decoder dispatches on the same four; the only 'no value' result (nil, nil) is for a nil interface input; " +
			"(key-codec-symmetric) map keys are json-encoded by the writer and json-decoded by the reader under the same condition (today unconditionally; a conditional treatment must use the same predicate class on both sides); " +
			"(registry-bijective) GenericRegister writes name->type and type->name only when both the name and the type are absent, and nobody else writes the registries; " +
			"(fail-loudly) every registry lookup is comma-ok with an error-returning miss arm; no error result of a recursive / json / sonic call is dropped; " +
			"(fresh-holders) decode targets (reflect.New) used inside a loop are allocated per entry; " +
			"(registered-closure) the framework's own persisted types (checkpoint, channel implementations) only contain leaf types that are registered, basic or interfaces.",
		decided:    []string{"codec-agree", "kind-siblings", "key-codec-symmetric", "registry-bijective", "fail-loudly", "fresh-holders", "registered-closure", "visits-all", "pointer-depth", "reflect-zero", "decoded-value-assignable"},
		notDecided: []string{"deep equality of Unmarshal(Marshal(v)) and v over the recursive value universe (observations: a nil pointer below a non-nil pointer (**T) decodes as a nil outer pointer; interface-typed map keys decode as their JSON types) — no static rule here reports them", "behaviour of sonic/encoding/json", "user types registered at run time"},
		run:        runC12,
	})
}

func runC12(w *World, r *Report) {
	// ---- visits-all: every field, entry and element is encoded / decoded
	r.Rule("C12.visits-all", "the loops of the encoder and the decoder over struct fields, map entries and slice elements are left only when exhausted or with an error", 6)
	ruleLoopsTotal(w, r, "C12.visits-all", []*ssa.Function{
		w.Fn("internal/serialization", "internalMarshal"), w.Fn("internal/serialization", "internalUnmarshal"),
		w.Fn("internal/serialization", "resolvePointerNum"), w.Fn("internal/serialization", "createValueFromType"),
	}, map[string]string{
		"internal/serialization.internalMarshal: loop while (reflect.Type).Kind() == 22": "pointer-peeling loop `for rt.Kind() == reflect.Ptr`: it returns (nil marker) when it meets a nil pointer — nothing is left to encode below a nil pointer",
	}, "part of the value is silently missing after a round trip")

	im := w.Fn("internal/serialization", "internalMarshal")
	iu := w.Fn("internal/serialization", "internalUnmarshal")
	isT := w.Named("internal/serialization", "internalStruct")
	st := isT.Underlying().(*types.Struct)

	// ---- codec-agree
	// ---- every element gets its entry: inside the encoder's loops the write of the encoded element is reached on every
	// iteration (only the loop test, error checks and the exported-field test stand before it) — no "needs no entry"
	// shortcut: a skipped zero value inside an interface-typed field comes back as a nil interface
	r.Rule("C12.every-element-encoded", "internalMarshal: the stores of encoded struct fields / map entries / slice elements are guarded, inside their loop, only by the loop test, err == nil and the exported-field test (field.PkgPath == \"\")", 3)
	{
		im := w.Fn("internal/serialization", "internalMarshal")
		loopCond := guardIsLoopCond(im)
		isPkgPathGuard := func(g guard) bool {
			op, x, y, ok := asCmp(g.cond)
			if !ok || (op != token.EQL && op != token.NEQ) {
				return false
			}
			isPP := func(v ssa.Value) bool {
				f, _ := loadedField(v)
				return f != nil && f.Name() == "PkgPath"
			}
			isEmpty := func(v ssa.Value) bool { cs, ok := constString(v); return ok && cs == "" }
			return (isPP(x) && isEmpty(y)) || (isPP(y) && isEmpty(x))
		}
		// guards that dominate the loop itself (kind dispatch, registry lookups …) are not the iteration's business
		n := 0
		for _, fw := range fieldWrites(im) {
			if fw.kind != "mapupdate" && fw.kind != "elemstore" {
				continue
			}
			if fw.field.Name() != "MapValues" && fw.field.Name() != "SliceValues" {
				continue
			}
			var inner *loopInfo
			for _, li := range naturalLoops(im) {
				li := li
				if li.body[fw.in.Block()] && (inner == nil || len(li.body) < len(inner.body)) {
					inner = &li
				}
			}
			if inner == nil {
				continue
			}
			n++
			var extra []string
			for _, g := range guardsOf(fw.in.Block()) {
				if g.at == nil || !inner.body[g.at.Block()] {
					continue // outside the loop
				}
				if loopCond(g) || guardErrNil(g) || isPkgPathGuard(g) {
					continue
				}
				extra = append(extra, guardText(g))
			}
			// a compound condition (a && b) in front of a `continue` dominates nothing: also ask the path question — can an
			// iteration get back to the loop header without this store, other than through the unexported-field arm?
			skips, wit := iterationSkipsExcept(im, fw.in, func(from, to *ssa.BasicBlock) bool {
				if len(from.Instrs) == 0 {
					return false
				}
				iff, ok := from.Instrs[len(from.Instrs)-1].(*ssa.If)
				if !ok || !isPkgPathGuard(guard{cond: iff.Cond, pol: true, at: iff}) {
					return false
				}
				op, _, _, _ := asCmp(iff.Cond)
				// the arm on which PkgPath != "" (unexported): false successor of ==, true successor of !=
				if op == token.EQL {
					return to == from.Succs[1]
				}
				return to == from.Succs[0]
			})
			if skips {
				extra = append(extra, "some iteration bypasses the store ("+wit+")")
			}
			r.Check(len(extra) == 0, "C12.every-element-encoded", fmt.Sprintf("internalMarshal: store #%d into %s", n, fw.field.Name()), fw.in.Pos(), "reached on every iteration (loop test / err == nil / exported-field test only)", "the element is written only when "+strings.Join(extra, " && ")+": an element the encoder decides to leave out is decoded as the zero value of its HOLDER — for an interface-typed field or element that is a nil interface, not the int 0 / \"\" / typed nil pointer that was stored (deeply different, silently)")
		}
		if n < 3 {
			r.Fail("C12.every-element-encoded", "internalMarshal: element stores", im.Pos(), fmt.Sprintf("%d element stores inside loops found (struct fields, map entries, slice elements expected)", n))
		}
	}

	// ---- the bytes handed to the store belong to the store: what Marshal (and every []byte-returning function of the
	// serialization package) returns does not alias an object that outlives the call — a pooled buffer, a package-level
	// buffer — which the next Marshal would overwrite
	r.Rule("C12.marshal-result-owned", "no []byte returned by a function of internal/serialization derives from a sync.Pool object or a package-level variable", 1)
	{
		n := 0
		for _, fn := range w.RepoFuncs("internal/serialization") {
			res := fn.Signature.Results()
			bi := -1
			for i := 0; i < res.Len(); i++ {
				if sl, ok := res.At(i).Type().Underlying().(*types.Slice); ok {
					if b, ok := sl.Elem().Underlying().(*types.Basic); ok && b.Kind() == types.Byte {
						bi = i
					}
				}
			}
			if bi < 0 || len(fn.Blocks) == 0 {
				continue
			}
			n++
			var longLived []ssa.Value
			instrs(fn, func(in ssa.Instruction) {
				if c, ok := in.(*ssa.Call); ok && calleeFullName(c) == "(*sync.Pool).Get" {
					longLived = append(longLived, c)
				}
				if u, ok := in.(*ssa.UnOp); ok {
					if g, ok := u.X.(*ssa.Global); ok && g.Pkg == fn.Pkg {
						if _, isPtr := u.Type().Underlying().(*types.Pointer); isPtr {
							longLived = append(longLived, u)
						}
						if _, isSl := u.Type().Underlying().(*types.Slice); isSl {
							longLived = append(longLived, u)
						}
					}
				}
			})
			bad := ""
			instrs(fn, func(in ssa.Instruction) {
				ret, ok := in.(*ssa.Return)
				if !ok || bi >= len(ret.Results) {
					return
				}
				for _, ll := range longLived {
					if derivesFrom(returnedValue(ret, bi), ll) {
						bad = valText(ll)
					}
				}
			})
			r.Check(bad == "", "C12.marshal-result-owned", w.fname(origin(fn))+" returns bytes of its own", fn.Pos(), "the returned slice derives from no pooled / package-level object", "the returned []byte derives from "+bad+": a store that keeps the slice it is given holds memory the next call overwrites — resuming checkpoint A after checkpoint B was written restores B's inputs and state (or undecodable bytes), and the serializer reports no error")
		}
		if n == 0 {
			r.Fail("C12.marshal-result-owned", "[]byte-returning functions of internal/serialization", w.Fn("internal/serialization", "Marshal").Pos(), "none found")
		}
	}

	// ---- strings: only valid UTF-8 is representable (JSON encoding replaces invalid bytes by U+FFFD without an error),
	// so every JSON encoding of a basic value or of a map key is preceded by a validity check that fails loudly; and the
	// nil exit of the pointer-peeling loop records the FULL pointer depth of the type (a nil **T must come back as **T)
	r.Rule("C12.representable-or-error", "internalMarshal: each json encoding of a basic value / map key is dominated by a UTF-8 validity check whose failure returns an error; on the nil-pointer exit every remaining pointer level is counted into PointerNum and the level of the nil is recorded", 4)
	{
		im := w.Fn("internal/serialization", "internalMarshal")
		reachesValid := func(f *ssa.Function) bool {
			found := false
			for _, g := range append([]*ssa.Function{f}, staticCalleesOf(w, f)...) {
				instrs(g, func(in ssa.Instruction) {
					if n := calleeFullName(in); n == "unicode/utf8.ValidString" || n == "unicode/utf8.Valid" {
						found = true
					}
				})
			}
			return found
		}
		var checks []ssa.CallInstruction
		instrs(im, func(in ssa.Instruction) {
			c, ok := in.(ssa.CallInstruction)
			if !ok {
				return
			}
			if n := calleeFullName(in); n == "unicode/utf8.ValidString" {
				checks = append(checks, c)
				return
			}
			if sc := staticCallee(c); sc != nil && w.inRepo(sc) && origin(sc) != im && reachesValid(sc) {
				checks = append(checks, c)
			}
		})
		n := 0
		instrs(im, func(in ssa.Instruction) {
			name := calleeFullName(in)
			if name != "encoding/json.Marshal" && !strings.HasSuffix(name, "sonic.MarshalString") && !strings.HasSuffix(name, "sonic.Marshal") {
				return
			}
			n++
			good := false
			for _, ck := range checks {
				if !instrDominates(ck, in) {
					continue
				}
				// the check's failure leaves: the encoding is on the success side of a test on the check's result
				if hasGuard(in.Block(), func(g guard) bool {
					if guardErrNil(g) {
						if e, ok := condOperand(g.cond).(*ssa.Call); ok && ssa.Instruction(e) == ssa.Instruction(ck) {
							return true
						}
						if e, ok := condOperand(g.cond).(*ssa.Extract); ok && e.Tuple == ck.(ssa.Value) {
							return true
						}
					}
					return g.cond == ck.(ssa.Value) && g.pol
				}) {
					good = true
				}
			}
			r.Check(good, "C12.representable-or-error", fmt.Sprintf("internalMarshal: json encoding #%d is preceded by a failing UTF-8 check", n), in.Pos(), "dominated by a validity check whose failure returns an error", "a string (basic value or map key) is JSON-encoded without a validity check: invalid UTF-8 is silently replaced by U+FFFD — the checkpoint is written without error and the resumed run continues with a different value")
		})
		if n < 2 {
			r.Fail("C12.representable-or-error", "internalMarshal: json encodings", im.Pos(), fmt.Sprintf("%d json encodings found (basic value + map key expected)", n))
		}
		// nil exit: the inner loop that strips the remaining pointer levels counts them
		fPN := w.Field("internal/serialization", "internalStruct", "PointerNum")
		okNil, sawNil := false, false
		for _, li := range naturalLoops(im) {
			// a loop nested in the arm guarded by rv.IsNil()
			inNil := false
			for b := range li.body {
				if hasGuard(b, func(g guard) bool {
					c, ok := g.cond.(*ssa.Call)
					return ok && g.pol && calleeFullName(c) == "(reflect.Value).IsNil"
				}) {
					inNil = true
				}
			}
			if !inNil {
				continue
			}
			sawNil = true
			for _, fw := range fieldWrites(im) {
				if sameField(fw.field, fPN) && li.body[fw.in.Block()] {
					okNil = true
				}
			}
		}
		// … and WHERE the nil sits: some field of the wire struct other than PointerNum is given a value computed from the
		// level count on the nil arm (the decoder allocates the non-nil levels above the nil from it)
		levelRecorded := false
		for _, fw := range fieldWrites(im) {
			if sameField(fw.field, fPN) || fw.kind != "store" {
				continue
			}
			underNil := hasGuard(fw.in.Block(), func(g guard) bool {
				c, ok := g.cond.(*ssa.Call)
				return ok && g.pol && calleeFullName(c) == "(reflect.Value).IsNil"
			})
			fs := map[*types.Var]bool{}
			fieldsReadBy(fw.val, 0, fs)
			if underNil && fs[fPN.Origin()] {
				levelRecorded = true
			}
		}
		r.Check(levelRecorded, "C12.representable-or-error", "internalMarshal: the nil exit records at which pointer level the nil sits", im.Pos(), "a wire-struct field is set from the level count on the nil arm", "the wire form only says 'null at depth n': a non-nil **T pointing to a nil *T is read back as a nil **T — the nil moves to the outermost level, silently, in every holder kind")
		r.Check(sawNil && okNil, "C12.representable-or-error", "internalMarshal: the nil exit records the full pointer depth", im.Pos(), "the loop stripping the remaining pointer levels increments PointerNum", "a nil pointer of depth > 1 (a nil **T, or a nil **T field / slice element / map value) is recorded with the depth at which the nil was met: Marshal succeeds, Unmarshal rejects the bytes ('decoded value of type *T is not assignable to **T') and the checkpoint is lost at resume; in an `any` holder the value silently comes back as (*T)(nil)")
	}

	r.Rule("C12.codec-agree", "internalStruct fields written by internalMarshal == fields read by internalUnmarshal; every pointer count is used to rebuild the type", 14)
	written := map[string]bool{}
	for _, fw := range fieldWrites(im) {
		if fw.owner == isT {
			written[fw.field.Name()] = true
		}
	}
	read := map[string]bool{}
	instrs(iu, func(in ssa.Instruction) {
		if fa, ok := in.(*ssa.FieldAddr); ok && namedOf(fa.X.Type()) == isT {
			for _, ref := range *fa.Referrers() {
				if _, isLoad := ref.(*ssa.UnOp); isLoad {
					read[fieldVarOfAddr(fa).Name()] = true
				}
			}
		}
	})
	for i := 0; i < st.NumFields(); i++ {
		n := st.Field(i).Name()
		r.Check(written[n] == read[n] && written[n], "C12.codec-agree", "internalStruct."+n, st.Field(i).Pos(), "written by the encoder and read by the decoder",
			fmt.Sprintf("field %s: written=%v read=%v — the decoder ignores information the encoder records (or expects information that is never written): values come back different", n, written[n], read[n]))
	}

	// the pointer counts are not merely read: each one is what the decoder hands to resolvePointerNum to rebuild the type
	// (PointerNum in the basic-value arm and in the struct arm; the key / value / element counts in the container arms)
	{
		rpn := w.Fn("internal/serialization", "resolvePointerNum")
		uses := map[string]int{}
		for _, c := range callsTo(iu, rpn) {
			if f, _ := loadedField(c.Common().Args[0]); f != nil {
				uses[f.Name()]++
			}
		}
		for _, want := range []struct {
			field string
			n     int
		}{{"PointerNum", 2}, {"MapKeyPointerNum", 1}, {"MapValuePointerNum", 1}, {"SliceValuePointerNum", 1}} {
			r.Check(uses[want.field] >= want.n, "C12.codec-agree", "internalUnmarshal rebuilds the type from "+want.field, iu.Pos(), fmt.Sprintf("%d resolvePointerNum call(s) on the field", uses[want.field]), fmt.Sprintf("the decoder hands %s to resolvePointerNum in %d place(s), %d expected: a pointer count the encoder records is not used to rebuild the type — values come back with fewer pointer levels (an *int as an int), which their holders then reject or silently accept in an interface", want.field, uses[want.field], want.n))
		}
	}

	// ---- kind-siblings
	r.Rule("C12.kind-siblings", "each successful encode sets one discriminator; (nil, nil) only for a nil interface; decoder dispatches on the same discriminators", 4)
	disc := []string{"Type", "StructType", "MapKeyType", "SliceValueType"}
	isDiscStore := func(in ssa.Instruction) bool {
		s, ok := in.(*ssa.Store)
		if !ok {
			return false
		}
		fa, ok := s.Addr.(*ssa.FieldAddr)
		if !ok || namedOf(fa.X.Type()) != isT {
			return false
		}
		n := fieldVarOfAddr(fa).Name()
		for _, d := range disc {
			if d == n {
				return true
			}
		}
		return false
	}
	vParam := im.Params[0]
	nSucc := 0
	instrs(im, func(in ssa.Instruction) {
		ret, ok := in.(*ssa.Return)
		if !ok || !isNilConst(ret.Results[1]) {
			return
		}
		nSucc++
		if isNilConst(ret.Results[0]) {
			g := hasGuard(ret.Block(), func(g guard) bool { return guardIsNil(g, func(v ssa.Value) bool { return v == ssa.Value(vParam) }) })
			r.Check(g, "C12.kind-siblings", "internalMarshal returns 'no value' only for a nil interface", ret.Pos(), "guarded by v == nil", "a typed value (e.g. a nil *T held in an interface-typed slot) is encoded as 'no value': it comes back as an untyped nil, silently")
			return
		}
		skip, wit := pathQuery{fn: im, goal: func(i ssa.Instruction) bool { return i == ssa.Instruction(ret) }, avoid: isDiscStore}.exists()
		r.Check(!skip, "C12.kind-siblings", fmt.Sprintf("internalMarshal success return #%d sets a discriminator", nSucc), ret.Pos(), "one of Type/StructType/MapKeyType/SliceValueType is stored on every path", "a value is encoded without a kind discriminator: the decoder takes the slice fall-through: "+wit)
	})
	// each kind arm of the encoder's switch writes ITS discriminator: struct -> StructType, map -> MapKeyType,
	// slice/array -> SliceValueType; Type (+ json) is for leaves only. A struct encoded as one json document obeys
	// json tags (json:"-", renamed / duplicate names) and silently loses fields the field-by-field form keeps.
	{
		want := map[int64]string{int64(reflect.Struct): "StructType", int64(reflect.Map): "MapKeyType", int64(reflect.Slice): "SliceValueType", int64(reflect.Array): "SliceValueType"}
		kindName := map[int64]string{int64(reflect.Struct): "struct", int64(reflect.Map): "map", int64(reflect.Slice): "slice", int64(reflect.Array): "array"}
		seenArm := map[int64]bool{}
		instrs(im, func(in ssa.Instruction) {
			st, ok := in.(*ssa.Store)
			if !ok || !isDiscStore(in) {
				return
			}
			name := fieldVarOfAddr(st.Addr.(*ssa.FieldAddr)).Name()
			for _, g := range guardsOf(st.Block()) {
				op, x, y, ok := asCmp(g.cond)
				if !ok || op != token.EQL || !g.pol {
					continue
				}
				c, ok := x.(*ssa.Call)
				if !ok || !strings.HasSuffix(calleeFullName(c), ".Kind") {
					continue
				}
				k, ok := constInt(y)
				if !ok {
					continue
				}
				exp, known := want[k]
				if !known {
					continue
				}
				seenArm[k] = true
				r.Check(name == exp, "C12.kind-siblings", fmt.Sprintf("internalMarshal %s arm writes discriminator %s", kindName[k], name), st.Pos(), "the arm's own discriminator", fmt.Sprintf("the %s arm of the encoder marks a value as %s instead of %s: it is stored in another representation than the decoder's %s arm restores (a struct written as one json document drops json:\"-\" / duplicate-name fields without an error)", kindName[k], name, exp, kindName[k]))
			}
		})
		for k, n := range kindName {
			// `case reflect.Slice, reflect.Array` is a disjunction (no single dominating guard): its discriminator is
			// covered by the "every success return sets a discriminator" clause above
			if !seenArm[k] && (k == int64(reflect.Struct) || k == int64(reflect.Map)) {
				r.Fail("C12.kind-siblings", "internalMarshal "+n+" arm writes its discriminator", im.Pos(), "no discriminator store found under Kind() == "+n)
			}
		}
	}
	if nSucc < 5 {
		r.Fail("C12.kind-siblings", "internalMarshal success returns", im.Pos(), fmt.Sprintf("%d success returns (want nil-input, nil-pointer, struct, map, slice, basic)", nSucc))
	}
	{
		// decoder: len(v.X) tests on Type, StructType, MapKeyType in this order of dominance
		var order []string
		instrs(iu, func(in ssa.Instruction) {
			iff, ok := in.(*ssa.If)
			if !ok {
				return
			}
			_, x, y, ok := asCmp(iff.Cond)
			if !ok || !isConstN(y, 0) {
				return
			}
			if c, ok := x.(*ssa.Call); ok && isBuiltin(c, "len") {
				if f, _ := loadedField(c.Call.Args[0]); f != nil {
					order = append(order, f.Name())
				}
			}
		})
		want := "Type,StructType,MapKeyType"
		r.Check(strings.HasPrefix(strings.Join(order, ","), want), "C12.kind-siblings", "internalUnmarshal dispatches on Type, StructType, MapKeyType, then slice", iu.Pos(), strings.Join(order, ","), "decoder dispatch order/fields changed: "+strings.Join(order, ","))
	}

	// ---- fail-loudly
	r.Rule("C12.fail-loudly", "registry lookups are comma-ok with an error arm; no codec error is dropped", 12)
	gm := w.GlobalVar("internal/serialization", "m")
	grm := w.GlobalVar("internal/serialization", "rm")
	isRegistry := func(v ssa.Value) bool {
		u, ok := v.(*ssa.UnOp)
		if !ok {
			return false
		}
		g, ok := u.X.(*ssa.Global)
		return ok && (g.Object() == types.Object(gm) || g.Object() == types.Object(grm))
	}
	for _, fn := range []*ssa.Function{im, iu} {
		nl := 0
		instrs(fn, func(in ssa.Instruction) {
			lk, ok := in.(*ssa.Lookup)
			if !ok || !isRegistry(lk.X) {
				return
			}
			nl++
			construct := fmt.Sprintf("%s registry lookup #%d", fn.Name(), nl)
			if !lk.CommaOk {
				r.Fail("C12.fail-loudly", construct, lk.Pos(), "plain m[key] lookup: an unregistered type yields a nil reflect.Type / empty name instead of an error")
				return
			}
			okv := extractOfValue(lk, 1)
			good := false
			if okv != nil {
				for _, ref := range *okv.Referrers() {
					if iff, ok := ref.(*ssa.If); ok {
						// miss arm: cannot reach a nil-error return
						reach, _ := pathFromBlock(pathQuery{fn: fn, goal: func(i ssa.Instruction) bool {
							ret, ok := i.(*ssa.Return)
							return ok && isNilConst(ret.Results[1])
						}}, iff.Block().Succs[1])
						if !reach {
							good = true
						}
					}
				}
			}
			r.Check(good, "C12.fail-loudly", construct, lk.Pos(), "miss returns an error", "a registry miss does not stop the codec with an error")
		})
		// dropped errors
		instrs(fn, func(in ssa.Instruction) {
			c, ok := in.(*ssa.Call)
			if !ok {
				return
			}
			sig := c.Call.Signature()
			if sig == nil || sig.Results().Len() == 0 {
				return
			}
			last := sig.Results().At(sig.Results().Len() - 1).Type()
			if !types.Identical(last, types.Universe.Lookup("error").Type()) {
				return
			}
			name := calleeFullName(c)
			if !(strings.Contains(name, "internalMarshal") || strings.Contains(name, "internalUnmarshal") || strings.Contains(name, "sonic") || strings.Contains(name, "encoding/json")) {
				return
			}
			var ev ssa.Value
			if sig.Results().Len() == 1 {
				ev = c
			} else if e := extractOf(c, sig.Results().Len()-1); e != nil {
				ev = e
			}
			used := false
			if ev != nil {
				for _, v := range aliasesThroughCells(ev) {
					for _, ref := range *v.Referrers() {
						switch ref.(type) {
						case *ssa.BinOp, *ssa.Return, *ssa.Phi:
							used = true
						}
					}
				}
			}
			short := name
			if i := strings.LastIndex(short, "/"); i >= 0 {
				short = short[i+1:]
			}
			r.Check(used, "C12.fail-loudly", fmt.Sprintf("%s checks the error of %s", fn.Name(), short), c.Pos(), "error tested / returned", "the error of a nested encode/decode step is dropped: a partially decoded value is returned as if it were complete")
		})
	}

	// ---- pointer depth: every pointer level the encoder peels is counted, the nil level included
	r.Rule("C12.pointer-depth", "internalMarshal counts a pointer level before it looks at it: the PointerNum increment dominates every other block of the peeling loop (the typed-nil exit included)", 1)
	pointerDepthCheck(w, r, "C12.pointer-depth")

	// ---- registered struct types keep nothing in unexported fields (the codec walks exported fields only)
	r.Rule("C12.registered-exported", "every struct type the framework registers with the serializer has exported fields only (an unexported field is dropped on the round trip, silently)", 5)
	{
		gr := w.Fn("internal/serialization", "GenericRegister")
		rst := w.TryFn("compose", "RegisterSerializableType")
		seen := map[string]bool{}
		for _, fn := range w.RepoFuncs("") {
			instrs(fn, func(in ssa.Instruction) {
				c, ok := in.(ssa.CallInstruction)
				if !ok {
					return
				}
				f, ok := c.Common().Value.(*ssa.Function)
				if !ok || (origin(f) != gr && (rst == nil || origin(f) != rst)) || len(f.TypeArgs()) != 1 {
					return
				}
				t := f.TypeArgs()[0]
				for {
					p, ok := t.Underlying().(*types.Pointer)
					if !ok {
						break
					}
					t = p.Elem()
				}
				named := namedOf(t)
				if named == nil || seen[named.String()] {
					return
				}
				st, ok := named.Underlying().(*types.Struct)
				if !ok {
					return
				}
				seen[named.String()] = true
				for i := 0; i < st.NumFields(); i++ {
					fld := st.Field(i)
					if _, isFunc := fld.Type().Underlying().(*types.Signature); isFunc && !fld.Exported() {
						r.Info("C12.registered-exported", named.Obj().Name()+"."+fld.Name()+" (func-typed configuration)", fld.Pos(), "no codec can persist a func value; the owner rebuilds it (C05.channel-state checks that load restores every data field onto a rebuilt object)")
						continue
					}
					r.Check(fld.Exported(), "C12.registered-exported", named.Obj().Name()+"."+fld.Name()+" is exported", fld.Pos(), "kept by the codec", "a registered (persisted) struct type has an unexported data field: its content is silently lost on every store round trip")
				}
			})
		}
	}

	// ---- reflect typestate over the codec
	r.Rule("C12.reflect-zero", "no possibly-nil reflect.Type / possibly-zero reflect.Value reaches a panicking method unguarded in the serializer", 0)
	{
		fns := w.RepoFuncs("internal/serialization")
		n := ruleReflectZero(w, r, "C12.reflect-zero", fns, c12ReflectExceptions)
		r.Info("C12.reflect-zero", "scope", im.Pos(), fmt.Sprintf("%d functions of internal/serialization, %d possibly-zero uses", len(fns), n))
	}

	// ---- a decoded value is placed into its holder only after its type was checked against the holder's
	r.Rule("C12.decoded-value-assignable", "internalUnmarshal puts a decoded value into a struct field / map entry / slice only after an AssignableTo test (reflect's Set, SetMapIndex and Append panic on a mismatch, e.g. a slice decoded for an array-typed or *[]T-typed field)", 3)
	{
		assignableGuard := func(b *ssa.BasicBlock) bool {
			return hasGuard(b, func(g guard) bool {
				c, ok := g.cond.(*ssa.Call)
				return ok && g.pol && c.Call.IsInvoke() && c.Call.Method.Name() == "AssignableTo"
			})
		}
		// module helpers whose every success return is behind such a test
		checkedHelper := func(f *ssa.Function) bool {
			if f == nil || f.Blocks == nil {
				return false
			}
			okAll, n := true, 0
			instrs(f, func(in ssa.Instruction) {
				ret, ok := in.(*ssa.Return)
				if !ok || len(ret.Results) < 2 || !isNilConst(ret.Results[len(ret.Results)-1]) {
					return
				}
				n++
				if assignableGuard(ret.Block()) {
					return
				}
				// the zero value of the holder's own type is trivially assignable
				if zc, ok := ret.Results[0].(*ssa.Call); ok && calleeFullName(zc) == "reflect.Zero" {
					if _, isParam := zc.Call.Args[0].(*ssa.Parameter); isParam {
						return
					}
				}
				okAll = false
			})
			return okAll && n > 0
		}
		n := 0
		instrs(iu, func(in ssa.Instruction) {
			c, ok := in.(*ssa.Call)
			if !ok {
				return
			}
			name := calleeFullName(c)
			if !(name == "(reflect.Value).Set" || name == "(reflect.Value).SetMapIndex" || name == "reflect.Append") {
				return
			}
			for _, a := range c.Call.Args[1:] {
				// a slice argument of Append's variadic: look at its stored elements
				vals := []ssa.Value{a}
				if sl, ok := a.(*ssa.Slice); ok {
					if al, ok := sl.X.(*ssa.Alloc); ok {
						for _, ref := range *al.Referrers() {
							if ia, ok := ref.(*ssa.IndexAddr); ok {
								for _, rr := range *ia.Referrers() {
									if st, ok := rr.(*ssa.Store); ok {
										vals = append(vals, st.Val)
									}
								}
							}
						}
					}
				}
				for _, v := range vals {
					switch x := v.(type) {
					case *ssa.Call:
						if calleeFullName(x) != "reflect.ValueOf" {
							continue
						}
						if _, isExtract := x.Call.Args[0].(*ssa.Extract); !isExtract {
							continue
						}
						n++
						r.Check(assignableGuard(c.Block()), "C12.decoded-value-assignable", fmt.Sprintf("internalUnmarshal: decoded value #%d placed with %s", n, name), c.Pos(), "behind an AssignableTo test",
							"a decoded value is handed to "+name+" without its type having been checked against the holder: a value the writer stored in another shape (a slice for an array-typed field, a []T for a *[]T field …) makes Unmarshal panic instead of returning an error")
					case *ssa.Extract:
						if hc, ok := x.Tuple.(*ssa.Call); ok && isReflectValue(x.Type()) {
							n++
							r.Check(checkedHelper(staticCallee(hc)), "C12.decoded-value-assignable", fmt.Sprintf("internalUnmarshal: decoded value #%d placed with %s", n, name), c.Pos(), "produced by a helper that tests AssignableTo before every success return", "the helper producing the placed value does not test assignability on every success return")
						}
					}
				}
			}
		})
		if n < 3 {
			undecidedf("C12.decoded-value-assignable: %d placements of decoded values found (floor 3)", n)
		}
	}

	// ---- map keys: the writer's and the reader's treatment agree
	r.Rule("C12.key-codec-symmetric", "map keys are json-encoded by the writer and json-decoded by the reader under the same condition (today: unconditionally)", 2)
	{
		condClass := func(c ssa.Value) string {
			if e, ok := c.(*ssa.Extract); ok && e.Index == 1 {
				if ta, ok := e.Tuple.(*ssa.TypeAssert); ok {
					return "exact type " + ta.AssertedType.String()
				}
			}
			if _, x, y, ok := asCmp(c); ok {
				for _, side := range [][2]ssa.Value{{x, y}, {y, x}} {
					if call, ok := side[0].(*ssa.Call); ok && strings.HasSuffix(calleeFullName(call), ".Kind") {
						if k, ok := constInt(side[1]); ok {
							return fmt.Sprintf("reflect kind %d", k)
						}
					}
				}
			}
			return "other: " + valText(c)
		}
		// writer: the key under which a map entry is stored
		fMV := w.Field("internal/serialization", "internalStruct", "MapValues")
		var wKey ssa.Value
		var wAt ssa.Instruction
		instrs(im, func(in ssa.Instruction) {
			if mu, ok := in.(*ssa.MapUpdate); ok && isLoadOfField(mu.Map, fMV) {
				wKey, wAt = mu.Key, mu
			}
		})
		if wKey == nil {
			undecidedf("C12.key-codec-symmetric: no write to internalStruct.MapValues in internalMarshal")
		}
		isMarshalKey := func(v ssa.Value) *ssa.Call {
			if e, ok := v.(*ssa.Extract); ok && e.Index == 0 {
				if c, ok := e.Tuple.(*ssa.Call); ok && strings.HasSuffix(calleeFullName(c), "sonic.MarshalString") {
					return c
				}
			}
			return nil
		}
		var wConds []string
		wEncoded := false
		var visit func(v ssa.Value, d int)
		seen := map[ssa.Value]bool{}
		visit = func(v ssa.Value, d int) {
			if d > 6 || seen[v] {
				return
			}
			seen[v] = true
			if c := isMarshalKey(v); c != nil {
				wEncoded = true
				return
			}
			if ph, ok := v.(*ssa.Phi); ok {
				// the conditions that separate the edges: guards of the encode call's block that the join lacks
				joined := map[*ssa.If]bool{}
				for _, g := range guardsOf(ph.Block()) {
					joined[g.at] = true
				}
				for _, e := range ph.Edges {
					if c := isMarshalKey(e); c != nil {
						wEncoded = true
						for _, g := range guardsOf(c.Block()) {
							if !joined[g.at] {
								wConds = append(wConds, condClass(g.cond))
							}
						}
					} else {
						visit(e, d+1)
					}
				}
				if len(wConds) == 0 {
					wConds = append(wConds, "other: unresolved join")
				}
				return
			}
			// a raw (not json-encoded) key on this edge
		}
		visit(wKey, 0)
		// reader: the decode of the stored key
		var rCall *ssa.Call
		instrs(iu, func(in ssa.Instruction) {
			if c, ok := in.(*ssa.Call); ok && strings.HasSuffix(calleeFullName(c), "sonic.UnmarshalString") {
				rCall = c
			}
		})
		var rConds []string
		if rCall != nil {
			for _, g := range guardsOf(rCall.Block()) {
				if guardErrNil(g) || guardErrNonNil(g) {
					continue
				}
				// dispatch on the record's discriminators, registry hits, range header
				if _, x, y, ok := asCmp(g.cond); ok {
					onRecord := false
					for _, side := range []ssa.Value{x, y} {
						if c, ok := side.(*ssa.Call); ok && isBuiltin(c, "len") {
							side = c.Call.Args[0]
						}
						if f, _ := loadedField(side); f != nil {
							onRecord = true
						}
						if p, ok := side.(*ssa.Parameter); ok && namedOf(p.Type()) == isT {
							onRecord = true
						}
					}
					if onRecord {
						continue
					}
				}
				if e, ok := g.cond.(*ssa.Extract); ok {
					if _, isLk := e.Tuple.(*ssa.Lookup); isLk {
						continue
					}
					if _, isNext := e.Tuple.(*ssa.Next); isNext {
						continue
					}
				}
				rConds = append(rConds, condClass(g.cond))
			}
		}
		sort.Strings(wConds)
		sort.Strings(rConds)
		wDesc, rDesc := "always json-encoded", "always json-decoded"
		if !wEncoded {
			wDesc = "never json-encoded"
		}
		if len(wConds) > 0 {
			wDesc = "json-encoded unless/if [" + strings.Join(wConds, "; ") + "]"
		}
		if rCall == nil {
			rDesc = "never json-decoded"
		} else if len(rConds) > 0 {
			rDesc = "json-decoded unless/if [" + strings.Join(rConds, "; ") + "]"
		}
		agree := (wEncoded == (rCall != nil)) && strings.Join(wConds, ";") == strings.Join(rConds, ";")
		for _, c := range append(append([]string{}, wConds...), rConds...) {
			if agree && strings.HasPrefix(c, "other") {
				undecidedf("C12.key-codec-symmetric: writer and reader treat map keys conditionally under a condition the rule cannot classify (%s)", c)
			}
		}
		r.Check(agree, "C12.key-codec-symmetric", "map key: writer "+"vs reader", wAt.Pos(), "writer: "+wDesc+"; reader: "+rDesc,
			"the writer and the reader treat map keys under different conditions — writer: "+wDesc+"; reader: "+rDesc+" — a key of a type on which the two conditions differ comes back as a different key, silently")
		// the decoded key is what is inserted
		if rCall != nil && len(rConds) == 0 {
			okIns := false
			instrs(iu, func(in ssa.Instruction) {
				if c, ok := in.(*ssa.Call); ok && strings.HasSuffix(calleeFullName(c), "reflect.Value).SetMapIndex") && instrDominates(rCall, c) {
					okIns = true
				}
			})
			r.Check(okIns, "C12.key-codec-symmetric", "reader inserts after decoding the key", rCall.Pos(), "every SetMapIndex is dominated by the key decode", "a map entry can be inserted without its key having been decoded")
		}
	}

	// ---- registry is a bijection built insert-only
	r.Rule("C12.registry-bijective", "GenericRegister writes name->type and type->name together, each only when BOTH the name and the type are absent; nobody else writes the registries", 2)
	{
		isGlobalLoad := func(v ssa.Value, gv *types.Var) bool {
			u, ok := v.(*ssa.UnOp)
			if !ok {
				return false
			}
			g, ok := u.X.(*ssa.Global)
			return ok && g.Object() == types.Object(gv)
		}
		missGuard := func(b *ssa.BasicBlock, gv *types.Var) bool {
			return hasGuard(b, func(g guard) bool {
				e, ok := g.cond.(*ssa.Extract)
				if !ok || e.Index != 1 || g.pol {
					return false
				}
				lk, ok := e.Tuple.(*ssa.Lookup)
				return ok && lk.CommaOk && isGlobalLoad(lk.X, gv)
			})
		}
		nw := 0
		for _, fn := range w.RepoFuncs("internal/serialization") {
			instrs(fn, func(in ssa.Instruction) {
				mu, ok := in.(*ssa.MapUpdate)
				if !ok || !(isGlobalLoad(mu.Map, gm) || isGlobalLoad(mu.Map, grm)) {
					return
				}
				which := "name->type"
				if isGlobalLoad(mu.Map, grm) {
					which = "type->name"
				}
				if origin(fn).Name() != "GenericRegister" {
					r.Fail("C12.registry-bijective", "registry "+which+" written in "+w.fname(fn), mu.Pos(), "the type registry is written outside GenericRegister")
					return
				}
				nw++
				// the name is what tells a registered value apart from a container in the encoded form: not empty
				nonEmpty := hasGuard(mu.Block(), func(g guard) bool {
					op, x, y, ok := asCmp(g.cond)
					if !ok {
						return false
					}
					isKey := func(v ssa.Value) bool { p, ok := v.(*ssa.Parameter); return ok && p.Name() == "key" }
					isEmpty := func(v ssa.Value) bool {
						c, ok := v.(*ssa.Const)
						return ok && c.Value != nil && c.Value.ExactString() == `""`
					}
					if !((isKey(x) && isEmpty(y)) || (isKey(y) && isEmpty(x))) {
						// len(key) == 0
						if c, ok := x.(*ssa.Call); ok && isBuiltin(c, "len") && isKey(c.Call.Args[0]) {
							if k, ok := y.(*ssa.Const); ok && k.Value != nil && k.Value.ExactString() == "0" {
								return (op == token.EQL && !g.pol) || (op == token.NEQ && g.pol) || (op == token.GTR && g.pol)
							}
						}
						return false
					}
					return (op == token.EQL && !g.pol) || (op == token.NEQ && g.pol)
				})
				r.Check(nonEmpty, "C12.registry-bijective", "GenericRegister writes "+which+" under a non-empty name", mu.Pos(), "key != \"\" dominates the registry write",
					"a type can be registered under the empty name: the decoder tells a registered value from a container by which of Type / StructType / MapKeyType is non-empty, so a value of that type is written as {MapValues: …} and read back as a nil slice — silently, also inside other values")
				okm, okr := missGuard(mu.Block(), gm), missGuard(mu.Block(), grm)
				r.Check(okm && okr, "C12.registry-bijective", "GenericRegister writes "+which, mu.Pos(), "on the miss arms of comma-ok lookups of both registries",
					fmt.Sprintf("the registry entry is written without establishing that the name is unused (%v) and the type is unregistered (%v): two types can share a name, and a checkpoint written as one type is silently decoded as the other", okm, okr))
			})
		}
		if nw < 2 {
			undecidedf("C12.registry-bijective: %d registry writes in GenericRegister (floor 2)", nw)
		}
	}

	// ---- fresh-holders
	r.Rule("C12.fresh-holders", "reflect.New targets handed to an unmarshal call inside a loop are allocated inside that loop", 1)
	nh := 0
	instrs(iu, func(in ssa.Instruction) {
		c, ok := in.(*ssa.Call)
		if !ok || !strings.Contains(calleeFullName(c), "sonic.Unmarshal") {
			return
		}
		// target argument: X.Interface() of a reflect.New result
		for _, a := range c.Call.Args {
			ic, ok := through(a).(*ssa.Call)
			if !ok || calleeFullName(ic) != "(reflect.Value).Interface" {
				continue
			}
			nw, ok := ic.Call.Args[0].(*ssa.Call)
			if !ok || calleeFullName(nw) != "reflect.New" {
				continue
			}
			nh++
			inLoop := blockReaches(c.Block(), c.Block())
			if !inLoop {
				r.OK("C12.fresh-holders", fmt.Sprintf("decode target #%d", nh), c.Pos(), "not in a loop")
				continue
			}
			fresh := blockReaches(nw.Block(), nw.Block()) && blockReaches(c.Block(), nw.Block()) && blockReaches(nw.Block(), c.Block())
			r.Check(fresh, "C12.fresh-holders", fmt.Sprintf("decode target #%d is per entry", nh), c.Pos(), "reflect.New inside the loop", "one scratch holder is reused for every entry: fields absent from a later key's JSON keep the previous entry's values (map silently re-keyed)")
		}
	})
	if nh == 0 {
		r.Fail("C12.fresh-holders", "decode targets", iu.Pos(), "no reflect.New target passed to an unmarshal call found")
	}

	// ---- registered-closure
	r.Rule("C12.decoders-match-envelope", "everything internal/serialization reads back is read by the library that writes the envelope and the map keys verbatim (the Marshal call of serialization.Marshal): every Unmarshal* call of the package goes to that library — a reader from another library silently rewrites what the writer passed through as raw bytes (invalid UTF-8 inside a struct key becomes U+FFFD, keys collapse). The one encoder call into another library (basic values) is the one guarded by C12.representable-or-error", 3)
	{
		// the library that writes the envelope: what serialization.Marshal reaches outside the module — a static callee
		// (sonic.Marshal) or a package-level object it goes through (sonic.ConfigDefault.NewEncoder(…).Encode)
		envLibs := map[string]bool{}
		instrs(w.Fn("internal/serialization", "Marshal"), func(in ssa.Instruction) {
			if c, ok := in.(ssa.CallInstruction); ok {
				if sc := staticCallee(c); sc != nil && sc.Pkg != nil && !w.inRepo(sc) && (strings.HasPrefix(sc.Name(), "Marshal") || strings.HasPrefix(sc.Name(), "Encode")) {
					envLibs[sc.Pkg.Pkg.Path()] = true
				}
			}
			for _, op := range in.Operands(nil) {
				if g, ok := (*op).(*ssa.Global); ok && g.Pkg != nil && !strings.HasPrefix(g.Pkg.Pkg.Path(), modPath) {
					if pth := g.Pkg.Pkg.Path(); strings.Contains(pth, "json") || strings.Contains(pth, "sonic") {
						envLibs[pth] = true
					}
				}
			}
		})
		var envelopeLib string
		for k := range envLibs {
			envelopeLib = k
		}
		if len(envLibs) != 1 {
			undecidedf("C12.decoders-match-envelope: serialization.Marshal writes the envelope through %d libraries (%v)", len(envLibs), envLibs)
		}
		n := 0
		for _, fn := range w.RepoFuncs("internal/serialization") {
			instrs(fn, func(in ssa.Instruction) {
				c, ok := in.(ssa.CallInstruction)
				if !ok {
					return
				}
				sc := staticCallee(c)
				if sc == nil || sc.Pkg == nil || w.inRepo(sc) || !strings.HasPrefix(sc.Name(), "Unmarshal") {
					return
				}
				n++
				lib := sc.Pkg.Pkg.Path()
				r.Check(lib == envelopeLib, "C12.decoders-match-envelope", fmt.Sprintf("%s: decoder call #%d", w.fname(fn), n), in.Pos(), "decoded by "+envelopeLib+", which wrote it", "read with "+lib+" although the envelope and the map keys are written by "+envelopeLib+": bytes the writer passes through verbatim (a string that is not valid UTF-8 inside a registered struct used as map key) are rewritten by this reader without an error — Unmarshal returns a map whose keys differ from the ones written, and keys that differ only in such bytes collapse into one entry")
			})
		}
		if n < 3 {
			r.Deferred = append(r.Deferred, fmt.Sprintf("C12.decoders-match-envelope: only %d decoder calls found in internal/serialization", n))
		}
	}

	r.Rule("C12.types-are-keyed-by-identity", "no table of the serializer (or of the type checks in package compose) is keyed by the printed name of a type: reflect.Type.String() is for messages, two distinct types can print the same (function-local types, a/model.Item and b/model.Item), and a cache keyed that way hands the second type the first one's field list — fields are left out silently", 0)
	{
		n := 0
		for _, fn := range w.RepoFuncs("internal/serialization", "compose") {
			instrs(fn, func(in ssa.Instruction) {
				c, ok := in.(*ssa.Call)
				if !ok || !c.Call.IsInvoke() || c.Call.Method.Name() != "String" || c.Call.Value.Type().String() != "reflect.Type" {
					return
				}
				// used as a key?
				asKey := ""
				var visit func(v ssa.Value, d int)
				visit = func(v ssa.Value, d int) {
					if d > 4 || asKey != "" {
						return
					}
					for _, ref := range *v.Referrers() {
						switch x := ref.(type) {
						case *ssa.Lookup:
							if x.Index == v {
								asKey = "a map lookup"
							}
						case *ssa.MapUpdate:
							if x.Key == v {
								asKey = "a map update"
							}
						case *ssa.MakeInterface:
							visit(x, d+1)
						case *ssa.BinOp:
							if x.Op == token.ADD {
								visit(x, d+1)
							}
						case *ssa.Call:
							if strings.HasPrefix(calleeFullName(x), "(*sync.Map).") {
								asKey = calleeFullName(x)
							}
						}
					}
				}
				visit(c, 0)
				if asKey != "" {
					n++
					r.Fail("C12.types-are-keyed-by-identity", fmt.Sprintf("%s keys a table by Type.String()", w.fname(fn)), c.Pos(), "the printed name of a type is the key of "+asKey+": distinct types that print the same share the entry — the second struct type to be marshalled gets the first one's field list and its other fields come back zero, without an error from Marshal or Unmarshal")
				}
			})
		}
		if n == 0 {
			r.OK("C12.types-are-keyed-by-identity", "no table keyed by Type.String() in internal/serialization and compose", token.NoPos, "none")
		}
	}
	r.Rule("C12.nil-form-needs-no-codec", "the encoder writes a nil pointer (outermost level) as the literal JSON null with the type's key, for EVERY registered type; the decoder answers that form itself: the external codec is reached with the raw bytes only where they were looked at first — the codec builds a decoder for the whole static type before it reads a byte and has none for bool- or struct-keyed maps, which the serializer supports through its own key encoding", 1)
	{
		iu := w.Fn("internal/serialization", "internalUnmarshal")
		fJSON := w.Field("internal/serialization", "internalStruct", "JSONValue")
		n := 0
		instrs(iu, func(in ssa.Instruction) {
			c, ok := in.(*ssa.Call)
			if !ok {
				return
			}
			sc := staticCallee(c)
			if sc == nil || w.inRepo(sc) || !strings.HasPrefix(sc.Name(), "Unmarshal") || len(c.Call.Args) < 2 || !isLoadOfField(through(c.Call.Args[0]), fJSON) {
				return
			}
			n++
			onBytes := func(g guard) bool {
				found := false
				var visit func(v ssa.Value, d int)
				visit = func(v ssa.Value, d int) {
					if v == nil || d > 8 || found {
						return
					}
					if isLoadOfField(v, fJSON) {
						found = true
						return
					}
					if ins, ok := v.(ssa.Instruction); ok {
						for _, op := range ins.Operands(nil) {
							visit(*op, d+1)
						}
					}
				}
				visit(g.cond, 0)
				return found
			}
			// a dominating test, or one conjunct of a short-circuit test on the way in (PointerNum > 0 && bytes == null)
			looked := hasGuard(c.Block(), onBytes)
			for d := c.Block(); d != nil && !looked; d = d.Idom() {
				for _, g := range compoundEntryGuards(d) {
					if onBytes(g) {
						looked = true
					}
				}
			}
			r.Check(looked, "C12.nil-form-needs-no-codec", "internalUnmarshal hands JSONValue to "+sc.Name(), c.Pos(), "under a test of the bytes (the null form is answered before)", "the nil form goes to the codec like any other bytes: sonic.Unmarshal(\"null\", **T) compiles a decoder for all of T first, so (*T)(nil) — accepted by Marshal — cannot be read back when T contains, at any depth, a map[bool]V or a struct-keyed map ('json: cannot unmarshal into Go value of type map[…]'): a checkpoint whose state has such a nil pointer (a lazily filled cache) is written without complaint and can never be loaded")
		})
		if n == 0 {
			undecidedf("C12.nil-form-needs-no-codec: no codec call on internalStruct.JSONValue in internalUnmarshal")
		}
		// … and the null form is the OUTERMOST nil only: the encoder writes null for a nil at any pointer level and tells
		// the levels apart by NonNilPointerNum alone, so the decoder's answer to null stands behind its test of that count
		fNonNil := w.Field("internal/serialization", "internalStruct", "NonNilPointerNum")
		bytesTest := func(g guard) bool {
			found := false
			var visit func(v ssa.Value, d int)
			visit = func(v ssa.Value, d int) {
				if v == nil || d > 8 || found {
					return
				}
				if isLoadOfField(v, fJSON) {
					found = true
					return
				}
				if ins, ok := v.(ssa.Instruction); ok {
					for _, op := range ins.Operands(nil) {
						visit(*op, d+1)
					}
				}
			}
			visit(g.cond, 0)
			return found
		}
		k := 0
		instrs(iu, func(in ssa.Instruction) {
			ret, ok := in.(*ssa.Return)
			if !ok || !hasGuard(ret.Block(), func(g guard) bool { return g.pol && bytesTest(g) }) {
				return
			}
			k++
			noInnerNil := func(g guard) bool {
				op, x, y, ok := asCmp(g.cond)
				if !ok || !isLoadOfField(x, fNonNil) || !isConstN(y, 0) {
					return false
				}
				switch op {
				case token.GTR, token.NEQ:
					return !g.pol
				case token.EQL, token.LEQ:
					return g.pol
				}
				return false
			}
			r.Check(hasGuard(ret.Block(), noInnerNil), "C12.nil-form-needs-no-codec", fmt.Sprintf("internalUnmarshal: answer #%d to the null form", k), ret.Pos(), "behind the test of NonNilPointerNum", "null is answered with a nil outermost pointer before the inner-nil count is looked at: a non-nil **T (or ***T) that leads to a nil pointer comes back as a nil pointer at the outermost level, silently, in every position (a state field MaxCalls **int set to 'unlimited' reads 'default' after resume)")
		})
	}
	shareRule(w, r, "C12.decoded-channel-taken-whole", "what was decoded of a channel is what the run continues with: load copies every exported field of the decoded channel (the bytes are right, the restored value must be too)", 8, "C05", "C05.channel-state")

	shareRule(w, r, "C12.written-is-what-was-there", "the checkpoint handed to the store is the one the interrupt handlers assembled: no entry of its tables is deleted on the way (a channel without a pending value still carries state)", 0, "C05", "C05.nothing-dropped-at-save")

	r.Rule("C12.read-errors-kept", "in internal/serialization and on compose's checkpoint read/write path a success return after an error-yielding call is reached only where that error was tested nil: bytes that cannot be decoded are an error, never 'nothing stored' (shared with C05.load-errors-kept / C13.no-dropped-error)", 1)
	{
		nf := 0
		for _, fn := range w.RepoFuncs("compose", "internal/serialization") {
			nf++
			for _, d := range errDroppedReturns(fn) {
				r.Fail("C12.read-errors-kept", fmt.Sprintf("%s: success return after %s", w.fname(fn), calleeFullName(d.call)), d.ret.Pos(), d.why+" — a value that was written but cannot be read back (unknown type key, truncated bytes, store failure) is reported as success / as absent instead of failing loudly")
			}
		}
		r.OK("C12.read-errors-kept", fmt.Sprintf("success returns of %d functions", nf), token.NoPos, "none is reachable past an untested / non-nil callee error")
	}

	r.Rule("C12.registered-closure", "leaf types of the framework's persisted structs are registered, basic or interfaces", 3)
	_, leafOK := registeredLeafOK(w, "C12.registered-closure")
	persisted := []*types.Named{w.Named("compose", "checkpoint")}
	persisted = append(persisted, channelImpls(w)...)
	for _, n := range persisted {
		s := n.Underlying().(*types.Struct)
		var bad []string
		nf := 0
		for i := 0; i < s.NumFields(); i++ {
			f := s.Field(i)
			if !f.Exported() {
				continue
			}
			nf++
			if ok, why := leafOK(f.Type(), 0); !ok {
				bad = append(bad, f.Name()+": "+why)
			}
		}
		sort.Strings(bad)
		r.Check(len(bad) == 0 && nf > 0, "C12.registered-closure", "persisted type "+n.Obj().Name(), n.Obj().Pos(), fmt.Sprintf("%d exported fields, all leaves registered", nf), "a checkpoint can never be written through a byte store: "+strings.Join(bad, "; "))
	}
	registeredSetClosed(w, r, "C12.registered-closure", leafOK, persisted)
	_ = token.ADD
}

// pointerDepthCheck: see C12.pointer-depth.
func pointerDepthCheck(w *World, r *Report, rule string) {
	im := w.Fn("internal/serialization", "internalMarshal")
	fPN := w.Field("internal/serialization", "internalStruct", "PointerNum")
	var inc *ssa.Store
	for _, fw := range fieldWrites(im) {
		if sameField(fw.field, fPN) {
			if st, ok := fw.in.(*ssa.Store); ok {
				if b, ok := st.Val.(*ssa.BinOp); ok && b.Op == token.ADD {
					// the increment of the peeling loop itself, not the one that counts the levels below a nil
					underNil := hasGuard(st.Block(), func(g guard) bool {
						c, ok := g.cond.(*ssa.Call)
						return ok && g.pol && calleeFullName(c) == "(reflect.Value).IsNil"
					})
					if !underNil {
						inc = st
					}
				}
			}
		}
	}
	if inc == nil {
		r.Fail(rule, "internalMarshal counts pointer levels", im.Pos(), "no PointerNum++ found")
	} else {
		// the loop containing the increment
		var loop *loopInfo
		for _, li := range naturalLoops(im) {
			li := li
			if li.body[inc.Block()] && (loop == nil || len(li.body) < len(loop.body)) {
				loop = &li
			}
		}
		okDom := loop != nil
		where := ""
		if loop != nil {
			for b := range loop.body {
				if b == loop.header || b == inc.Block() {
					continue
				}
				if !inc.Block().Dominates(b) {
					okDom = false
					where = w.pos(blockPos(b))
				}
			}
			// exits of the loop other than from the header leave after the increment
			for _, ex := range earlyExits(im) {
				if ex.loop.header == loop.header && !(ex.from == inc.Block() || inc.Block().Dominates(ex.from)) {
					okDom = false
					where = w.pos(blockPos(ex.from))
				}
			}
			// blocks reached from the loop's body that are not part of it (the nil exit returns from there)
			instrs(im, func(in ssa.Instruction) {
				c, ok := in.(*ssa.Call)
				if ok && calleeFullName(c) == "(reflect.Value).IsNil" && loop.body[c.Block()] && !instrDominates(inc, c) {
					okDom = false
					where = w.pos(c.Pos())
				}
			})
		}
		r.Check(okDom, rule, "internalMarshal counts a pointer level before testing it for nil", inc.Pos(), "PointerNum++ first in the peeling loop", "a pointer level can be left (nil test at "+where+") before it was counted: a typed nil pointer is written with one level too few and comes back as a value / a shallower pointer of a different dynamic type")
	}
}

var c12ReflectExceptions = map[string]string{}

// condOperand: for `x == nil` / `x != nil` returns x; otherwise the condition itself.
func condOperand(v ssa.Value) ssa.Value {
	if _, x, y, ok := asCmp(v); ok {
		if isNilConst(y) {
			return x
		}
		if isNilConst(x) {
			return y
		}
	}
	return v
}

func staticCalleesOf(w *World, f *ssa.Function) []*ssa.Function {
	var out []*ssa.Function
	instrs(f, func(in ssa.Instruction) {
		if c, ok := in.(ssa.CallInstruction); ok {
			if sc := staticCallee(c); sc != nil && w.inRepo(sc) {
				out = append(out, sc)
			}
		}
	})
	return out
}

// registeredSetClosed: every named struct type of the module that the module registers itself ("all built-in eino types
// are already registered") has only registered leaves — otherwise whether a message can be checkpointed depends on its
// content.
func registeredSetClosed(w *World, r *Report, rule string, leafOK func(t types.Type, d int) (bool, string), persisted []*types.Named) {
	// the registered set is closed: every named type the module registers itself ("all built-in eino types are already
	// registered") has only registered leaves — otherwise whether a message can be checkpointed depends on its content
	{
		var regNamed []*types.Named
		for _, fn := range w.RepoFuncs("internal/serialization", "compose") {
			if !strings.HasPrefix(fn.Name(), "init") {
				continue
			}
			instrs(fn, func(in ssa.Instruction) {
				c, ok := in.(ssa.CallInstruction)
				if !ok {
					return
				}
				f, ok := c.Common().Value.(*ssa.Function)
				if !ok || origin(f).Name() != "GenericRegister" {
					return
				}
				for _, ta := range f.TypeArgs() {
					if n, ok := ta.(*types.Named); ok {
						if _, isStruct := n.Underlying().(*types.Struct); isStruct && n.Obj().Pkg() != nil && strings.HasPrefix(n.Obj().Pkg().Path(), modPath) {
							regNamed = append(regNamed, n)
						}
					}
				}
			})
		}
		sort.Slice(regNamed, func(i, j int) bool { return regNamed[i].String() < regNamed[j].String() })
		persistedSet := map[*types.Named]bool{}
		for _, n := range persisted {
			persistedSet[n] = true
		}
		for _, n := range regNamed {
			if persistedSet[n] {
				continue
			}
			s := n.Underlying().(*types.Struct)
			var bad []string
			for i := 0; i < s.NumFields(); i++ {
				if s.Field(i).Exported() {
					if ok, why := leafOK(s.Field(i).Type(), 0); !ok {
						bad = append(bad, s.Field(i).Name()+": "+why)
					}
				}
			}
			sort.Strings(bad)
			r.Check(len(bad) == 0, rule, "registered type "+types.TypeString(n, func(p *types.Package) string { return p.Name() }), n.Obj().Pos(), "all leaves of its exported fields are registered", "a built-in type is registered but the types of some of its fields are not — a value of it serialises or fails with 'unknown type' depending on which optional parts are filled (a multi-modal message, a message with log-probs pending at an interrupt makes the checkpoint write fail: the caller gets a plain error, nothing is stored, the run cannot be resumed): "+strings.Join(bad, "; "))
		}
		if len(regNamed) < 8 {
			undecidedf(rule+": only %d registered module struct types found", len(regNamed))
		}
	}
}

// registeredLeafOK: the set of types registered with the serializer by the module's init functions, and the predicate
// "every leaf of this type is registered".
func registeredLeafOK(w *World, rule string) (map[string]bool, func(t types.Type, d int) (bool, string)) {
	registered := map[string]bool{}
	for _, fn := range w.RepoFuncs("internal/serialization", "compose") {
		if !strings.HasPrefix(fn.Name(), "init") {
			continue
		}
		instrs(fn, func(in ssa.Instruction) {
			c, ok := in.(ssa.CallInstruction)
			if !ok {
				return
			}
			f, ok := c.Common().Value.(*ssa.Function)
			if !ok || origin(f).Name() != "GenericRegister" {
				return
			}
			for _, ta := range f.TypeArgs() {
				registered[types.TypeString(ta, nil)] = true
			}
		})
	}
	if len(registered) < 25 {
		undecidedf(rule+": only %d registered types found (floor 25)", len(registered))
	}
	var leafOK func(t types.Type, d int) (bool, string)
	leafOK = func(t types.Type, d int) (bool, string) {
		if d > 8 {
			return true, ""
		}
		switch x := t.(type) {
		case *types.Pointer:
			return leafOK(x.Elem(), d+1)
		case *types.Slice:
			return leafOK(x.Elem(), d+1)
		case *types.Array:
			return leafOK(x.Elem(), d+1)
		case *types.Map:
			if ok, why := leafOK(x.Key(), d+1); !ok {
				return false, why
			}
			return leafOK(x.Elem(), d+1)
		case *types.Interface:
			if x.NumMethods() == 0 {
				return registered["interface{}"] || registered["any"], "interface{} not registered"
			}
			return true, ""
		case *types.Basic:
			return registered[x.Name()], "basic type " + x.Name() + " not registered"
		case *types.Named:
			if registered[types.TypeString(x, nil)] {
				return true, ""
			}
			if _, isIface := x.Underlying().(*types.Interface); isIface {
				return registered[types.TypeString(x, nil)], "interface type " + x.Obj().Name() + " not registered"
			}
			return false, "type " + types.TypeString(x, nil) + " not registered"
		}
		return false, "unsupported kind " + t.String()
	}
	return registered, leafOK
}
