package main

import (
	"fmt"
	"go/token"
	"go/types"
	"reflect"
	"sort"
	"strings"

	"golang.org/x/tools/go/ssa"
)

func init() {
	register(&propDef{
		id: "C15",
		explanation: "Static clauses of 'workflow field mappings move exactly the mapped values; overlaps are rejected': " +
			"(insert-only) the mapped-path trie of a workflow node never overwrites an existing entry: every map write in checkAndAddMappedPath is on the miss arm of a lookup of the same key (so a path and its prefix conflict in either order); " +
			"(whole-input-detected) a mapping with an empty target path (FromField) is recognised as targeting the entire input, so it conflicts with every other mapping of the node in any order; (static-path-total) the static path walk never answers successfully once it has to descend into a type that is neither map, struct nor interface, at any position; (reflect-addr) no reflect.Value read with MapIndex (a non-addressable copy) or a field of it becomes the destination of a Set — struct-valued map entries are copied to an addressable value first (CanAddr-sensitive value flow through phis, Field/FieldByName and module calls); " +
			"(overlap-checked) every way of declaring an input — direct edge, indirect (no control dependency) edge, static value — runs its target paths through that trie first and stops on its error; " +
			"(stream-key-tolerance) the streaming mapper skips a mapping whose map key is missing in the current chunk iff its flag is set, at every position of the source path, and only the stream mapper sets the flag; " +
			"(records-accumulate) the per-node mapping records used by compile's duplicate-target check accumulate over all predecessors; " +
			"(duplicate-gate) compile's duplicate-target check blocks success; " +
			"(reflect-zero) in field_mapping.go no possibly-nil reflect.Type / zero reflect.Value is used unguarded (run-time type problems are errors, not panics); " +
			"(checker-capture) handlers created per mapping do not capture loop-shared variables; (declared-type) takeOne reports the value and the DECLARED type of the very field/map element it extracted; " +
			"(runtime-checker-installed) a checker returned by validateFieldMapping is installed on the same edge; mapping handlers have both value and stream forms.",
		decided:    []string{"insert-only", "whole-input-detected", "static-path-total", "reflect-addr", "overlap-checked", "stream-key-tolerance", "records-accumulate", "duplicate-gate", "reflect-zero", "checker-capture", "declared-type", "runtime-checker-installed", "map-key-criterion", "request-time-no-panic", "pointer-peel-agrees", "instantiate-once", "checker-present-keys"},
		notDecided: []string{"that extraction/assignment computes the right value for every type shape", "that predecessor outputs are never mutated through reflect", "nil *struct intermediates on a source path (listed as observation)"},
		run:        runC15,
	})
}

var c15ReflectExceptions = map[string]string{
	"compose.fieldMap$1: Value.Type on reflect.ValueOf(input) of a possibly nil interface": "validateFieldMapping rejects field-level source paths unless the predecessor's declared output type is a struct, struct pointer or map, so `input` always boxes a value of a concrete type (a nil map/pointer still yields a valid reflect.Value)",
}

func runC15(w *World, r *Report) {
	// ---- insert-only
	r.Rule("C15.insert-only", "every map write in checkAndAddMappedPath is on the miss arm of a comma-ok lookup of the same map and key", 4)
	camp := w.Fn("compose", "WorkflowNode.checkAndAddMappedPath")
	nmu := 0
	instrs(camp, func(in ssa.Instruction) {
		mu, ok := in.(*ssa.MapUpdate)
		if !ok {
			return
		}
		nmu++
		kind := "intermediate node"
		if _, isMk := mu.Value.(*ssa.MakeMap); !isMk {
			if mi, ok := mu.Value.(*ssa.MakeInterface); ok {
				if _, isMk2 := mi.X.(*ssa.MakeMap); !isMk2 {
					kind = "terminal marker"
				}
			} else {
				kind = "terminal marker"
			}
		}
		guarded := hasGuard(mu.Block(), func(g guard) bool {
			e, ok := g.cond.(*ssa.Extract)
			if !ok || e.Index != 1 || g.pol {
				return false
			}
			lk, ok := e.Tuple.(*ssa.Lookup)
			return ok && lk.CommaOk && sameMapValue(lk.X, mu.Map) && sameKeyExpr(lk.Index, mu.Key)
		})
		r.Check(guarded, "C15.insert-only", fmt.Sprintf("checkAndAddMappedPath: %s write #%d", kind, nmu), mu.Pos(), "written only when the key is absent", "an existing trie node can be overwritten: a mapping to a path and a mapping to its prefix (or sibling sub-paths) are accepted depending on declaration order")
	})
	if nmu < 3 {
		undecidedf("C15.insert-only: %d map writes in checkAndAddMappedPath (floor 3)", nmu)
	}
	// conflicts are errors: an existing terminal on the way, and an existing node at the terminal position
	{
		nErr := 0
		instrs(camp, func(in ssa.Instruction) {
			if ret, ok := in.(*ssa.Return); ok && !isNilConst(ret.Results[0]) {
				nErr++
			}
		})
		r.Check(nErr >= 4, "C15.insert-only", "checkAndAddMappedPath conflict arms", camp.Pos(), fmt.Sprintf("%d error returns (whole-after-whole, whole-after-field, terminal-on-the-way, prefix-of-existing)", nErr), "a conflict arm is missing")
	}

	// ---- a mapping without a target field targets the whole input: it conflicts with every other mapping
	r.Rule("C15.whole-input-detected", "checkAndAddMappedPath recognises a whole-input mapping by the emptiness of EACH target path, not only by the absence of mappings", 1)
	{
		var pathsParam *ssa.Parameter
		for _, p := range camp.Params {
			if sl, ok := p.Type().Underlying().(*types.Slice); ok {
				if n := namedOf(sl.Elem()); n != nil && n.Obj().Name() == "FieldPath" {
					pathsParam = p
				}
			}
		}
		if pathsParam == nil {
			undecidedf("C15.whole-input-detected: the []FieldPath parameter of checkAndAddMappedPath not found")
		}
		found := false
		instrs(camp, func(in ssa.Instruction) {
			iff, ok := in.(*ssa.If)
			if !ok {
				return
			}
			_, x, y, ok := asCmp(iff.Cond)
			if !ok || !isConstN(y, 0) {
				return
			}
			if isLenOf(x, func(v ssa.Value) bool {
				// an element of paths: *(&paths[i])
				u, ok := v.(*ssa.UnOp)
				if !ok {
					return false
				}
				ia, ok := u.X.(*ssa.IndexAddr)
				return ok && ia.X == ssa.Value(pathsParam)
			}) {
				// the outcome of the test matters: its "empty" arm sets a flag (a phi receives the constant true from
				// a block it guards) or returns an error
				empty := iff.Block().Succs[0]
				if op, _, _, _ := asCmp(iff.Cond); op == token.NEQ || op == token.GTR {
					empty = iff.Block().Succs[1]
				}
				if blockEndsInError(empty) {
					found = true
				}
				// … or handles the whole-input case right there: every way on from it writes the whole-input marker
				// (a struct{} value under the key "") or returns an error
				if skip, _ := pathFromBlock(pathQuery{fn: camp, goal: func(x ssa.Instruction) bool {
					ret, ok := x.(*ssa.Return)
					return ok && isNilConst(ret.Results[0])
				}, avoid: func(x ssa.Instruction) bool {
					mu, ok := x.(*ssa.MapUpdate)
					if !ok {
						return false
					}
					k, isS := constString(mu.Key)
					return isS && k == ""
				}}, empty); !skip {
					found = true
				}
				instrs(camp, func(pi ssa.Instruction) {
					ph, ok := pi.(*ssa.Phi)
					if !ok {
						return
					}
					for i, e := range ph.Edges {
						if b, isC := constBool(e); isC && b {
							p := ph.Block().Preds[i]
							if p == empty || empty.Dominates(p) {
								found = true
							}
						}
					}
				})
			}
		})
		r.Check(found, "C15.whole-input-detected", "checkAndAddMappedPath tests every target path for emptiness", camp.Pos(), "len(targetPath) == 0 is tested on the elements of paths",
			"a mapping whose target path is empty (FromField: a field of the predecessor becomes the ENTIRE input) is treated like a field mapping that touches nothing: it never conflicts, so 'whole input + one field' is accepted in any order, and at run time the field is written into the predecessor's own map")
	}

	// ---- every way of declaring an input runs the overlap check first
	r.Rule("C15.overlap-checked", "every WorkflowNode declaration that adds a data edge with mappings (direct or indirect) or static values calls checkAndAddMappedPath first and stops on its error", 4)
	{
		aewm := w.Fn("compose", "graph.addEdgeWithMappings")
		wfn := w.Named("compose", "WorkflowNode")
		n := 0
		for _, fn := range w.RepoFuncs("compose") {
			top := topFunc(fn)
			if top.Signature.Recv() == nil {
				continue
			}
			if rn := namedOf(top.Signature.Recv().Type()); rn == nil || (rn != wfn && rn.Origin().Obj().Name() != "Workflow") {
				continue
			}
			for _, c := range callsTo(fn, aewm) {
				args := c.Common().Args
				// (g, start, end, noControl, noData, mappings...)
				if b, ok := constBool(args[4]); ok && b {
					continue // control-only edge: carries no data
				}
				if cst, ok := args[5].(*ssa.Const); ok && cst.Value == nil {
					continue // no mappings passed
				}
				n++
				kind := "direct"
				if b, ok := constBool(args[3]); ok && b {
					kind = "indirect (no control dependency)"
				}
				construct := fmt.Sprintf("%s: %s data edge #%d", w.fname(top), kind, n)
				var chk ssa.CallInstruction
				for _, cc := range callsTo(fn, camp) {
					if instrDominates(cc, c) {
						chk = cc
					}
				}
				if chk == nil {
					r.Fail("C15.overlap-checked", construct, c.Pos(), "the edge's target paths are not run through checkAndAddMappedPath: a path and one of its prefixes (or the whole input and a field) are accepted when one of them arrives over this kind of edge; the run-time result then depends on map iteration order")
					continue
				}
				// error arm of the check does not reach the edge
				okErr := hasGuard(c.Block(), func(g guard) bool {
					return guardIsNil(g, func(v ssa.Value) bool { return v == chk.Value() })
				})
				r.Check(okErr, "C15.overlap-checked", construct, c.Pos(), "checkAndAddMappedPath(paths) dominates the edge; its error returns", "the overlap check's error is ignored")
			}
		}
		if n < 2 {
			undecidedf("C15.overlap-checked: %d data-edge declarations in WorkflowNode methods (floor 2)", n)
		}
		// static values: the merge handlers are installed only after the paths went through the same check
		wfc := w.Fn("compose", "Workflow.compile")
		nsv := 0
		instrs(wfc, func(in ssa.Instruction) {
			mc, ok := in.(*ssa.MakeClosure)
			if !ok || len(callsTo(mc.Fn.(*ssa.Function), w.Fn("compose", "mergeValues"))) == 0 {
				return
			}
			nsv++
			var chk ssa.CallInstruction
			for _, cc := range callsTo(wfc, camp) {
				if instrDominates(cc, mc) {
					chk = cc
				}
			}
			okk := chk != nil && hasGuard(mc.Block(), func(g guard) bool {
				return guardIsNil(g, func(v ssa.Value) bool { return v == chk.Value() })
			})
			r.Check(okk, "C15.overlap-checked", fmt.Sprintf("Workflow.compile: static-value merge handler #%d", nsv), mc.Fn.Pos(), "installed after checkAndAddMappedPath(static paths) succeeded", "static values are merged into the node's input without their paths being checked against the mapped paths: a static value can overlap (and be overwritten by, or overwrite) a mapped field")
		})
		if nsv == 0 {
			undecidedf("C15.overlap-checked: static-value merge handlers not found in Workflow.compile")
		}
	}

	// ---- streaming: a chunk lacking a mapped map key is skipped, whatever the position of the key in the path
	r.Rule("C15.stream-key-tolerance", "fieldMap skips a mapping on errMapKeyNotFound iff its allowMapKeyNotFound flag is set — no further condition; only the stream mapper sets the flag", 3)
	{
		fm := w.Fn("compose", "fieldMap")
		var lit *ssa.Function
		for _, a := range fm.AnonFuncs {
			lit = a
		}
		var flag *ssa.FreeVar
		if lit != nil {
			for _, fv := range lit.FreeVars {
				if b, ok := deref(fv.Type()).Underlying().(*types.Basic); ok && b.Kind() == types.Bool {
					flag = fv
				}
			}
		}
		if lit == nil || flag == nil {
			undecidedf("C15.stream-key-tolerance: fieldMap's literal / its captured bool flag not found")
		}
		var gate *ssa.If
		instrs(lit, func(in ssa.Instruction) {
			iff, ok := in.(*ssa.If)
			if !ok {
				return
			}
			if u, ok := iff.Cond.(*ssa.UnOp); ok && u.X == ssa.Value(flag) {
				gate = iff
			}
		})
		if gate == nil {
			r.Fail("C15.stream-key-tolerance", "fieldMap: tolerance gate on allowMapKeyNotFound", lit.Pos(), "no branch on the flag: missing keys are either always or never tolerated")
		} else {
			tb, fb := gate.Block().Succs[0], gate.Block().Succs[1]
			// `continue loop`: the true arm is (a jump to) the header of an enclosing loop, i.e. a block that
			// dominates the gate; anything else that branches again is a further condition
			isHeader := func(b *ssa.BasicBlock) bool { return b.Dominates(gate.Block()) }
			tIsIf := true
			for hop, b := 0, tb; hop < 3; hop++ {
				if isHeader(b) {
					tIsIf = false
					break
				}
				j, ok := b.Instrs[len(b.Instrs)-1].(*ssa.Jump)
				if !ok || len(b.Instrs) > 2 {
					break
				}
				_ = j
				b = b.Succs[0]
			}
			tRet := false
			for _, in := range tb.Instrs {
				if isReturn(in) || isPanicI(in) {
					tRet = true
				}
			}
			fErr := false
			for _, in := range fb.Instrs {
				if ret, ok := in.(*ssa.Return); ok && !isNilConst(ret.Results[len(ret.Results)-1]) {
					fErr = true
				}
			}
			r.Check(!tIsIf && !tRet && fErr, "C15.stream-key-tolerance", "fieldMap: flag set -> skip the mapping; flag unset -> return the error", gate.Cond.Pos(), "the flag alone decides",
				fmt.Sprintf("with the flag set the mapping is not simply skipped (further condition on the true arm=%v, returns=%v) or with the flag unset the error is not returned (%v): streaming a map chunk by chunk fails (or non-streaming silently drops a field) where the other mode succeeds", tIsIf, tRet, !fErr))
			extra := extraGuards(gate.Block(), guardErrNonNil, func(g guard) bool {
				c, ok := g.cond.(*ssa.Call)
				return ok && calleeFullName(c) == "errors.As"
			}, func(g guard) bool {
				op, _, y, ok := asCmp(g.cond)
				return ok && op == token.LSS && isLenOf(y, func(ssa.Value) bool { return true })
			}, func(g guard) bool {
				// len(mapping.from) == 0 -> whole-input mapping handled before
				_, x, _, ok := asCmp(g.cond)
				return ok && isLenOf(x, func(ssa.Value) bool { return true })
			})
			r.Check(len(extra) == 0, "C15.stream-key-tolerance", "fieldMap: tolerance gate reached for every path element", gate.Cond.Pos(), "guards: loop headers, err != nil, errors.As(errMapKeyNotFound)", fmt.Sprintf("the tolerance applies only under further conditions %v", extra))
		}
		nTrue, nFalse := 0, 0
		for _, c := range w.staticCallers(fm) {
			if b, ok := constBool(c.Common().Args[1]); ok {
				if b {
					nTrue++
					r.Check(c.Parent().Name() == "streamFieldMap$1" || c.Parent().Name() == "streamFieldMap", "C15.stream-key-tolerance", "tolerant fieldMap used by "+w.fname(c.Parent()), c.Pos(), "stream mapper", "a non-stream mapper tolerates missing keys: a missing field is silently dropped")
				} else {
					nFalse++
				}
			} else {
				r.Fail("C15.stream-key-tolerance", "fieldMap flag at "+w.fname(c.Parent()), c.Pos(), "flag is not a constant")
			}
		}
		r.Check(nTrue >= 1 && nFalse >= 1, "C15.stream-key-tolerance", "both mappers exist", fm.Pos(), fmt.Sprintf("%d tolerant (stream), %d strict", nTrue, nFalse), "the stream mapper no longer tolerates missing keys / the strict mapper is gone")
	}

	// ---- static path validation is total: a path element that has to be looked up in a type that is neither
	// map, struct (pointer) nor interface is an error at compile time, at every position of the path
	r.Rule("C15.static-path-total", "checkAndExtractFieldType: once the current type is no map / struct, the only outcomes are an error or 'interface: check at run time' — never a successful static answer", 1)
	{
		cef := w.Fn("compose", "checkAndExtractFieldType")
		// the test `extracted.Kind() == reflect.Struct` (25): its false arm is the non-container point
		var structIf *ssa.If
		instrs(cef, func(in ssa.Instruction) {
			iff, ok := in.(*ssa.If)
			if !ok {
				return
			}
			_, x, y, ok := asCmp(iff.Cond)
			if !ok {
				return
			}
			if c, ok := x.(*ssa.Call); ok && strings.HasSuffix(calleeFullName(c), ".Kind") {
				if k, ok := constInt(y); ok && k == int64(reflect.Struct) {
					structIf = iff
				}
			}
		})
		if structIf == nil {
			undecidedf("C15.static-path-total: the struct-kind test of checkAndExtractFieldType not found")
		}
		// a "static success": return with nil error and the intermediate-interface flag false
		isStaticSuccess := func(in ssa.Instruction) bool {
			ret, ok := in.(*ssa.Return)
			if !ok || len(ret.Results) != 3 {
				return false
			}
			if !isNilConst(returnedValue(ret, 2)) {
				return false
			}
			b, isC := constBool(returnedValue(ret, 1))
			return isC && !b
		}
		falseArm := structIf.Block().Succs[1]
		if op, _, _, _ := asCmp(structIf.Cond); op == token.NEQ {
			falseArm = structIf.Block().Succs[0]
		}
		leak, wit := pathFromBlock(pathQuery{fn: cef, goal: isStaticSuccess}, falseArm)
		r.Check(!leak, "C15.static-path-total", "checkAndExtractFieldType: non-container intermediate type", structIf.Cond.Pos(), "every way on from a non-map, non-struct type is an error or the run-time-check answer",
			"a source/target path that descends into a scalar (or other non-container) type can pass the static check ("+wit+"): Compile accepts the mapping and the run panics in takeOne/assignOne instead of the mapping being rejected")
	}

	// ---- the overlap check compares canonical paths: a field promoted from an embedded struct is the same storage as the
	// path through the embedded struct, so target paths are spelled out against the node's declared input type before
	// they go into the trie
	r.Rule("C15.overlap-canonical", "checkAndAddMappedPath inserts into the trie a path that derives from a canonicalisation against the node's input type (a function consulting reflect.Type.FieldByName and the field's Index) and following every container kind the destination walk follows", 2)
	{
		campF := w.Fn("compose", "WorkflowNode.checkAndAddMappedPath")
		var canon ssa.CallInstruction
		instrs(campF, func(in ssa.Instruction) {
			c, ok := in.(ssa.CallInstruction)
			if !ok {
				return
			}
			sc := staticCallee(c)
			if sc == nil || !w.inRepo(sc) || origin(sc) == campF {
				return
			}
			usesFieldByName, usesIndex := false, false
			for _, g := range append([]*ssa.Function{sc}, staticCalleesOf(w, sc)...) {
				instrs(g, func(x ssa.Instruction) {
					if cc, ok := x.(*ssa.Call); ok && cc.Call.IsInvoke() && cc.Call.Method.Name() == "FieldByName" {
						usesFieldByName = true
					}
					if f, _ := loadedFieldOfInstr(x); f != nil && f.Name() == "Index" {
						usesIndex = true
					}
					if fa, ok := x.(*ssa.FieldAddr); ok && fieldVarOfAddr(fa) != nil && fieldVarOfAddr(fa).Name() == "Index" {
						usesIndex = true
					}
					if fl, ok := x.(*ssa.Field); ok && fieldVarOfField(fl) != nil && fieldVarOfField(fl).Name() == "Index" {
						usesIndex = true
					}
				})
			}
			if usesFieldByName && usesIndex {
				canon = c
			}
		})
		good := false
		if canon != nil {
			// the terminal marker store is reached only after the canonicalisation
			instrs(campF, func(in ssa.Instruction) {
				if mu, ok := in.(*ssa.MapUpdate); ok {
					if _, isMk := mu.Value.(*ssa.MakeMap); !isMk && instrDominates(canon, mu) {
						good = true
					}
				}
			})
		}
		if canon != nil {
			// … through every container the destination walk goes through: a target path below a map is walked by assignOne
			// (map entry, then the struct in it), so the canonicaliser follows maps too — or two targets under one key, one to an
			// embedded struct and one to a field promoted from it, are not seen as overlapping
			kinds := func(fn *ssa.Function) map[int64]bool {
				out := map[int64]bool{}
				instrs(fn, func(x ssa.Instruction) {
					b, ok := x.(*ssa.BinOp)
					if !ok || (b.Op != token.EQL && b.Op != token.NEQ) {
						return
					}
					for _, v := range []ssa.Value{b.X, b.Y} {
						if c, isC := v.(*ssa.Const); isC && c.Type().String() == "reflect.Kind" {
							if k, ok := constInt(c); ok {
								out[k] = true
							}
						}
					}
				})
				return out
			}
			have := kinds(staticCallee(canon))
			walk := kinds(w.Fn("compose", "assignOne"))
			var missing []string
			for k, nm := range map[int64]string{int64(reflect.Map): "Map", int64(reflect.Struct): "Struct"} {
				if walk[k] && !have[k] {
					missing = append(missing, nm)
				}
			}
			sort.Strings(missing)
			r.Check(len(missing) == 0, "C15.overlap-canonical", "the canonicaliser descends through every container kind the destination walk does", canon.Pos(), "Map and Struct are both followed", "canonicalTargetPath stops at a "+strings.Join(missing, ", ")+": with Elem struct{Base; H} the targets [k Base] and [k F] on a map[string]Elem are accepted as non-overlapping — at run time one assignment clobbers the other in map-iteration order")
		}
		r.Check(good, "C15.overlap-canonical", "checkAndAddMappedPath canonicalises target paths before the trie walk", campF.Pos(), "promoted field names are expanded to the path through their embedded structs", "target paths are compared as written: a mapping to an embedded struct and a mapping to one of its promoted fields (['Base'] and ['F'] where F is Base.F) are not seen as a path and one of its sub-paths — Compile accepts them, and which of the two values the successor ends up with depends on Go's map iteration order (38 vs 262 of 300 runs)")
	}

	// ---- a source field reached at request time is handed on only if it can be read through reflection: the static check
	// sees unexported fields only on statically typed paths — below an interface-typed value (a map[string]any entry) the
	// request-time test is the only one, and Value.Interface() on an unexported field panics
	r.Rule("C15.mapping-state-not-carried", "in the functions of compose/field_mapping.go that loop over a node's mappings, nothing computed from the current mapping is carried into the next iteration (the source-path cursor, the taken value, the target cursor start afresh for each mapping): the result does not depend on the declaration order", 2)
	{
		fmT := w.Named("compose", "FieldMapping")
		fpT := w.Named("compose", "FieldPath")
		overMappings := func(v ssa.Value) bool {
			sl, ok := v.Type().Underlying().(*types.Slice)
			if !ok {
				return false
			}
			// the declared paths of a node ([]FieldPath: the overlap trie walk) count as well as its mappings
			if namedOf(sl.Elem()) == fpT {
				return true
			}
			pt, ok := sl.Elem().Underlying().(*types.Pointer)
			return ok && namedOf(pt.Elem()) == fmT
		}
		total := 0
		for _, fn := range w.RepoFuncs("compose") {
			n, hits := sliceRangeElemCarried(fn, overMappings)
			total += n
			for _, h := range hits {
				r.Fail("C15.mapping-state-not-carried", fmt.Sprintf("%s: %s carried across the loop over mappings", w.fname(fn), h.phi.Comment), h.phi.Pos(), fmt.Sprintf("the value carried into the next iteration (%s) is computed from the current mapping: a cursor left where the previous mapping's walk ended — a later mapping of the same edge starts its source / target walk inside the previous one's intermediate value (wrong value taken when names recur, 'not found' error in Invoke, key silently dropped in Stream), and the outcome depends on the order the mappings were declared in", h.edge.Name()))
			}
			if n > 0 && len(hits) == 0 {
				r.OK("C15.mapping-state-not-carried", fmt.Sprintf("%s: %d loop(s) over mappings", w.fname(fn), n), fn.Pos(), "header phis other than the index do not depend on the element")
			}
		}
		if total < 2 {
			r.Deferred = append(r.Deferred, fmt.Sprintf("C15.mapping-state-not-carried: only %d loops over []*FieldMapping found", total))
		}
	}

	r.Rule("C15.static-only-converted", "Workflow.compile: a node that gets the static-value merge handler is also registered in the graph's fieldMappingRecords (on every path from installing the handler to the next node: a write of fieldMappingRecords[n.key], or the found-arm of a lookup of it), which is what makes graph.compile put the map-to-input converter behind the handler; and the channel's 'no data' value for such a node is the intermediate map (shared with C02)", 4)
	{
		wfc := w.Fn("compose", "Workflow.compile")
		graphT := w.Named("compose", "graph")
		var regs, recs []ssa.Instruction
		foundEdge := map[[2]*ssa.BasicBlock]bool{}
		for _, fw := range fieldWrites(wfc) {
			if fw.owner != graphT {
				continue
			}
			if _, isMU := fw.in.(*ssa.MapUpdate); !isMU {
				continue
			}
			switch fw.field.Name() {
			case "handlerPreNode":
				regs = append(regs, fw.in)
			case "fieldMappingRecords":
				recs = append(recs, fw.in)
			}
		}
		fRec := w.Field("compose", "graph", "fieldMappingRecords")
		instrs(wfc, func(in ssa.Instruction) {
			iff, ok := in.(*ssa.If)
			if !ok {
				return
			}
			if ex, ok := iff.Cond.(*ssa.Extract); ok && ex.Index == 1 {
				if lk, ok := ex.Tuple.(*ssa.Lookup); ok && lk.CommaOk && isLoadOfField(lk.X, fRec) {
					foundEdge[[2]*ssa.BasicBlock{iff.Block(), iff.Block().Succs[0]}] = true
				}
			}
		})
		if len(regs) == 0 {
			undecidedf("C15.static-only-converted: Workflow.compile installs no pre-node handler")
		}
		for i, reg := range regs {
			var inner *loopInfo
			for _, li := range naturalLoops(wfc) {
				li := li
				if li.body[reg.Block()] && (inner == nil || len(li.body) < len(inner.body)) {
					inner = &li
				}
			}
			if inner == nil {
				undecidedf("C15.static-only-converted: the static-value handler is not installed in a loop over the nodes")
			}
			isRec := func(in ssa.Instruction) bool {
				for _, x := range recs {
					if x == in {
						return true
					}
				}
				return false
			}
			skip, wit := pathQuery{fn: wfc, from: reg, goal: func(in ssa.Instruction) bool { return in.Block() == inner.header }, avoid: isRec,
				avoidEdge: func(a, b *ssa.BasicBlock) bool { return foundEdge[[2]*ssa.BasicBlock{a, b}] || !inner.body[b] }}.exists()
			r.Check(!skip, "C15.static-only-converted", fmt.Sprintf("Workflow.compile: static-value handler #%d comes with a mapping record", i+1), reg.Pos(), "fieldMappingRecords[n.key] written or found present before the next node", "a node fed by static values only (SetStaticValue + AddDependency) gets the merge handler but no map-to-input converter: Compile accepts it and every run fails ('(mergeValues) unsupported type' in Invoke, a node panic 'unexpected input type … StreamReader[map[string]interface {}]' in Stream) unless the node's input happens to be map[string]any: "+wit)
		}
	}
	mappedZeroChecks(w, r, "C15.static-only-converted")

	shareRule(w, r, "C15.keyed-node-converter-is-the-maps", "a node with an input key takes its mapped fields as a map: forMapInput rebuilds the input-side slots for map[string]any instead of copying the wrapped component's", 4, "C04", "C04.in-out-wiring")
	shareRule(w, r, "C15.compile-installs-converters-per-compile", "Compile installs the map-to-input converter of a field-mapped node into a per-compile copy, never into the builder's own handler table: a second Compile of the same workflow would install it twice and every run fail 'unexpected input type'", 1, "C20", "C20.compile-pure")
	shareRule(w, r, "C15.checked-stream-keeps-its-chunk-type", "the stream form of a run-time checked mapping hands on a stream of the intermediate map type, like the value form hands on the map: a successor that has something to merge (a second predecessor, static values) refuses 'unsupported chunk type: interface {}' under Stream only", 1, "C04", "C04.stream-elem-type")

	r.Rule("C15.destination-walk-instantiates", "on the destination side a field promoted through an embedded pointer is reachable: the function checkAndExtractToField resolves the target field with instantiates nil pointers on the way (reflect.New + Set), like instantiateIfNeeded does for named pointer fields — the destination is always a fresh value, so an erroring lookup there fails on every run of a mapping Compile accepted; and the deferred declarations of a WorkflowNode keep their own copy of the caller's mapping list", 2)
	{
		toField := w.Fn("compose", "checkAndExtractToField")
		var resolver *ssa.Function
		instrs(toField, func(in ssa.Instruction) {
			c, ok := in.(*ssa.Call)
			if !ok {
				return
			}
			sc := staticCallee(c)
			if sc == nil || !w.inRepo(sc) || len(c.Call.Args) != 2 {
				return
			}
			if isReflectValue(c.Call.Args[0].Type()) {
				if b, ok := c.Call.Args[1].Type().Underlying().(*types.Basic); ok && b.Kind() == types.String {
					resolver = sc
				}
			}
		})
		if resolver == nil {
			undecidedf("C15.destination-walk-instantiates: checkAndExtractToField calls no (reflect.Value, string) resolver of the module")
		}
		news, sets := false, false
		instrs(resolver, func(in ssa.Instruction) {
			switch calleeFullName(in) {
			case "reflect.New":
				news = true
			case "(reflect.Value).Set":
				sets = true
			}
		})
		r.Check(news && sets, "C15.destination-walk-instantiates", "checkAndExtractToField resolves the target through "+resolver.Name(), resolver.Pos(), "the resolver instantiates nil embedded pointers (reflect.New, Set)", "the destination field is looked up with the source side's helper, for which a nil embedded pointer is an error of the request: a target field promoted through an embedded POINTER (struct{ *Base; H string }, target \"F\") is accepted by Compile and fails on every run, for every input ('field mapping through an embedded pointer that is nil') — the destination is a fresh value whose embedded pointer is always nil; the spelled-out path Base.F works")
		// … at every step of the destination walk, not only the last: assignOne and checkAndExtractToField call no
		// (reflect.Value, string) resolver of the module that cannot instantiate (the source side's)
		for _, fname := range []string{"assignOne", "checkAndExtractToField"} {
			f := w.Fn("compose", fname)
			instrs(f, func(in ssa.Instruction) {
				c, ok := in.(*ssa.Call)
				if !ok {
					return
				}
				sc := staticCallee(c)
				if sc == nil || !w.inRepo(sc) || len(c.Call.Args) != 2 || !isReflectValue(c.Call.Args[0].Type()) {
					return
				}
				if b, ok := c.Call.Args[1].Type().Underlying().(*types.Basic); !ok || b.Kind() != types.String {
					return
				}
				res := sc.Signature.Results()
				if res.Len() != 2 || !isReflectValue(res.At(0).Type()) {
					return
				}
				// a field resolver by name: does it look a struct field up?
				byName := false
				instrs(sc, func(x ssa.Instruction) {
					if ci, ok := x.(ssa.CallInstruction); ok && ci.Common().IsInvoke() && ci.Common().Method.Name() == "FieldByName" {
						byName = true
					}
				})
				if !byName {
					return
				}
				n2, s2 := false, false
				instrs(sc, func(x ssa.Instruction) {
					switch calleeFullName(x) {
					case "reflect.New":
						n2 = true
					case "(reflect.Value).Set":
						s2 = true
					}
				})
				r.Check(n2 && s2, "C15.destination-walk-instantiates", fmt.Sprintf("%s resolves a destination field through %s", fname, sc.Name()), c.Pos(), "the resolver instantiates nil embedded pointers", "an INTERMEDIATE element of a target path that is a field promoted through an embedded pointer (struct{ *Base }, paths Inner.V or M.k) is looked up with the erroring helper: Compile accepts the mapping and every run fails 'field mapping through an embedded pointer that is nil' — the same promoted field as the LAST element works")
			})
		}
		// … and what the destination walk can never do is refused at Compile: settableFieldByName has an arm "cannot be set"
		// (an embedded pointer of unexported type), decidable from the destination type alone — the static checks of a TARGET
		// path (validateFieldMapping, checkStaticValue) examine the exportedness of the fields ON the index path of a promoted
		// field (IsExported / PkgPath of a StructField obtained with Type.Field), not only of the field the name resolves to
		for _, fname := range []string{"validateFieldMapping", "checkStaticValue"} {
			f := w.Fn("compose", fname)
			examined := false
			for _, g := range append([]*ssa.Function{f}, staticCalleesOf(w, f)...) {
				instrs(g, func(in ssa.Instruction) {
					c, ok := in.(*ssa.Call)
					if !ok || calleeFullName(c) != "(reflect.StructField).IsExported" || len(c.Call.Args) == 0 {
						return
					}
					// the StructField comes from Type.Field(i)
					v := c.Call.Args[0]
					if u, isU := v.(*ssa.UnOp); isU {
						if a, isA := u.X.(*ssa.Alloc); isA {
							for _, st := range storesToCell(g, a) {
								v = st.Val
							}
						}
					}
					if cc, isC := v.(*ssa.Call); isC && cc.Call.IsInvoke() && cc.Call.Method.Name() == "Field" {
						examined = true
					}
				})
			}
			r.Check(examined, "C15.destination-walk-instantiates", fname+" examines the index path of a promoted target field", f.Pos(), "IsExported on Type.Field(i) of the index path", "a target promoted through an embedded pointer of UNEXPORTED struct type (struct{ *hidden; H string }, ToField F) passes every compile-time check although the destination type alone tells it can never be assigned: Compile accepts the mapping and every run fails 'field mapping through an embedded pointer that cannot be set'")
		}
		// the deferred closures of addDependencyRelation capture their own copy of the mapping list
		adr := w.Fn("compose", "WorkflowNode.addDependencyRelation")
		var inP *ssa.Parameter
		for _, p := range adr.Params {
			if sl, ok := p.Type().Underlying().(*types.Slice); ok {
				if pt, ok := sl.Elem().(*types.Pointer); ok && namedOf(pt.Elem()) == w.Named("compose", "FieldMapping") {
					inP = p
				}
			}
		}
		if inP == nil {
			undecidedf("C15.destination-walk-instantiates: addDependencyRelation has no []*FieldMapping parameter")
		}
		nc, bad := 0, 0
		instrs(adr, func(in ssa.Instruction) {
			mc, ok := in.(*ssa.MakeClosure)
			if !ok {
				return
			}
			for _, b := range mc.Bindings {
				v := b
				if al, ok := b.(*ssa.Alloc); ok {
					for _, ref := range *al.Referrers() {
						if st, ok := ref.(*ssa.Store); ok && st.Addr == ssa.Value(al) {
							v = st.Val
							if v == ssa.Value(inP) {
								break
							}
						}
					}
				}
				if _, isSl := v.Type().Underlying().(*types.Slice); !isSl {
					continue
				}
				nc++
				if v == ssa.Value(inP) {
					bad++
				}
			}
		})
		r.Check(nc > 0 && bad == 0, "C15.destination-walk-instantiates", "addDependencyRelation: deferred declarations own their mapping list", adr.Pos(), fmt.Sprintf("%d captured lists, none is the caller's slice itself", nc), fmt.Sprintf("%d of %d closures kept for Compile capture the caller's []*FieldMapping as it is: a caller that reuses the slice for the next declaration (buf[0] = MapFields(\"B\",\"Y\")) rewrites the earlier one — node n1, declared with A -> X, runs with B -> Y", bad, nc))
	}

	r.Rule("C15.static-values-checked", "what Compile can know about a static value it checks: the path exists in the node's input type and the value is assignable to what is found there (shared with C07)", 1)
	staticValuesTypeChecked(w, r, "C15.static-values-checked")

	r.Rule("C15.source-field-readable", "checkAndExtractFromField returns a field value only under CanInterface() == true", 1)
	{
		f := w.Fn("compose", "checkAndExtractFromField")
		n := 0
		instrs(f, func(in ssa.Instruction) {
			ret, ok := in.(*ssa.Return)
			if !ok || len(ret.Results) != 2 || !isNilConst(ret.Results[1]) {
				return
			}
			n++
			v := ret.Results[0]
			guarded := hasGuard(ret.Block(), func(g guard) bool {
				c, ok := g.cond.(*ssa.Call)
				return ok && g.pol && calleeFullName(c) == "(reflect.Value).CanInterface" && c.Call.Args[0] == v
			})
			r.Check(guarded, "C15.source-field-readable", fmt.Sprintf("checkAndExtractFromField: success return #%d", n), ret.Pos(), "guarded by f.CanInterface()", "a field value is returned without the CanInterface() test: for a source path that goes through an interface (the values of a map[string]any) and meets, at request time, a struct with an unexported field of that name, the later Value.Interface() panics — out of Invoke and Transform — where the mapping must report an error")
		})
		if n == 0 {
			r.Fail("C15.source-field-readable", "checkAndExtractFromField: success return", f.Pos(), "no (value, nil) return found")
		}
	}

	r.Rule("C15.static-values-per-run", "the stream form of a node's static values is created inside the per-run handler, not once at compile time (shared with C04.no-compile-time-stream): a pipe-backed stream is single-use, so a second stream-mode run of the compiled workflow would lack the values", 1)
	noCompileTimeStream(w, r, "C15.static-values-per-run")

	r.Rule("C15.make-slice-kind", "every reflect.MakeSlice on a type taken from a declared node / field type is reached only for kind Slice (arrays are instantiated with reflect.New)", 2)
	if n := ruleMakeSliceKind(w, r, "C15.make-slice-kind", "compose", "internal"); n < 2 {
		r.Fail("C15.make-slice-kind", "reflect.MakeSlice call sites", w.Fn("compose", "newInstanceByType").Pos(), fmt.Sprintf("%d found (floor 2)", n))
	}

	// ---- a map entry held by value is a copy: it is stored back after the assignment below it
	r.Rule("C15.entry-stored-back", "assignOne: the pending (map, key, entry) triple is kept until the assignment is done and the ENTRY is what is stored back under the key", 1)
	entryStoredBackCheck(w, r, "C15.entry-stored-back")

	// ---- reflect-addr: what is read out of a map with MapIndex is a copy that cannot be written in place
	r.Rule("C15.reflect-addr", "no reflect.Value obtained from Value.MapIndex (or a field of it) is used as the destination of a Set: a struct-valued map entry is copied to an addressable value first", 1)
	{
		var fns []*ssa.Function
		for _, fn := range w.RepoFuncs("compose") {
			if strings.HasPrefix(w.pos(fn.Pos()), "compose/field_mapping.go") {
				fns = append(fns, fn)
			}
		}
		if len(fns) < 20 {
			undecidedf("C15.reflect-addr: only %d functions in compose/field_mapping.go", len(fns))
		}
		nsrc := 0
		for _, f := range fns {
			nsrc += len(callsNamed(f, "(reflect.Value).MapIndex"))
		}
		hits := reflectNonAddrHits(w, fns)
		bySrc := map[ssa.Instruction][]string{}
		var order []ssa.Instruction
		for _, h := range hits {
			if _, ok := bySrc[h.src]; !ok {
				order = append(order, h.src)
			}
			bySrc[h.src] = append(bySrc[h.src], w.pos(h.sink.Pos()))
		}
		for i, src := range order {
			sinks := bySrc[src]
			sort.Strings(sinks)
			r.Fail("C15.reflect-addr", fmt.Sprintf("%s: map entry read with MapIndex #%d is written in place", w.fname(origin(src.Parent())), i+1), src.Pos(),
				fmt.Sprintf("the copy returned by Value.MapIndex (not addressable) can become the destination of Set at %v: a second mapping into the same struct-valued (or any-valued) map entry fails ('field not exported' / 'unaddressable value') and convertTo panics although Compile accepted the mappings", sinks))
		}
		if len(hits) == 0 {
			r.OK("C15.reflect-addr", "field_mapping.go setters", w.Fn("compose", "assignOne").Pos(), fmt.Sprintf("%d MapIndex results traced through %d functions: none reaches the receiver of a Set", nsrc, len(fns)))
		}
		if nsrc < 2 {
			undecidedf("C15.reflect-addr: %d MapIndex sources (floor 2)", nsrc)
		}
	}

	// ---- map keys: what the static check accepts, every run-time site accepts too
	r.Rule("C15.map-key-criterion", "the static path check is at least as strict about map key types as every run-time site that descends into / writes a map key (exact string <= assignable-from-string <= kind string)", 3)
	{
		// strictness: 0 exact string type, 1 string assignable to the key type, 2 key kind is string, -1 not found
		classify := func(fn *ssa.Function) (int, token.Pos) {
			best, pos := -1, token.NoPos
			instrs(fn, func(in ssa.Instruction) {
				switch x := in.(type) {
				case *ssa.BinOp:
					if x.Op != token.NEQ && x.Op != token.EQL {
						return
					}
					for _, pr := range [][2]ssa.Value{{x.X, x.Y}, {x.Y, x.X}} {
						c, ok := pr[0].(*ssa.Call)
						if !ok || !c.Call.IsInvoke() {
							continue
						}
						if c.Call.Method.Name() == "Key" {
							// Key() compared with a reflect.Type value: identity with the string type
							if _, isC := pr[1].(*ssa.Const); !isC && best < 0 {
								best, pos = 0, x.Pos()
							}
						}
						if c.Call.Method.Name() == "Kind" {
							if kc, ok := c.Call.Value.(*ssa.Call); ok && kc.Call.IsInvoke() && kc.Call.Method.Name() == "Key" {
								if k, ok := constInt(pr[1]); ok && k == int64(reflect.String) && best < 2 {
									best, pos = 2, x.Pos()
								}
							}
						}
					}
				case *ssa.Call:
					if x.Call.IsInvoke() && x.Call.Method.Name() == "AssignableTo" && len(x.Call.Args) == 1 {
						if kc, ok := x.Call.Args[0].(*ssa.Call); ok && kc.Call.IsInvoke() && kc.Call.Method.Name() == "Key" && best < 1 {
							best, pos = 1, x.Pos()
						}
					}
				}
			})
			return best, pos
		}
		names := []string{"exact string type", "string assignable to the key type", "key kind is string"}
		static, spos := classify(w.Fn("compose", "checkAndExtractFieldType"))
		if static < 0 {
			r.Fail("C15.map-key-criterion", "checkAndExtractFieldType tests the map key type", w.Fn("compose", "checkAndExtractFieldType").Pos(), "no test of the map key type in the static path walk")
		}
		for _, n := range []string{"checkAndExtractFromMapKey", "checkAndExtractToMapKey", "assignOne"} {
			f := w.Fn("compose", n)
			rt, rpos := classify(f)
			if rt < 0 {
				r.Fail("C15.map-key-criterion", n+" tests the map key type", f.Pos(), "no test of the map key type at this run-time site")
				continue
			}
			if static >= 0 {
				_ = spos
				r.Check(static <= rt, "C15.map-key-criterion", "static check vs "+n, rpos, "static: "+names[static]+"; run time: "+names[rt],
					"the static check accepts map key types ("+names[static]+") that this run-time site rejects ("+names[rt]+"): a path through e.g. map[Lang]V with `type Lang string` compiles and then every run panics ('convertTo failed when must succeed') or fails")
			}
		}
	}

	// ---- request-time mapping code reports problems as errors
	r.Rule("C15.request-time-no-panic", "no explicit panic in the request-time functions of compose/field_mapping.go (mappers, converters, checkers): what can only be known at request time is an error", 8)
	{
		n := 0
		for _, fn := range w.RepoFuncs("compose") {
			if !strings.HasPrefix(w.pos(fn.Pos()), "compose/field_mapping.go") {
				continue
			}
			// request time: literals (returned handlers) and the helpers they call; compile-time only: validateFieldMapping's body,
			// checkAndExtractFieldType, the FieldMapping constructors
			top := topFunc(fn)
			if fn.Parent() == nil {
				switch top.Name() {
				case "validateFieldMapping", "checkAndExtractFieldType", "validateStructOrMap", "isFromAll", "isToAll":
					continue
				}
			}
			n++
			bad := token.NoPos
			instrs(fn, func(in ssa.Instruction) {
				if p, ok := in.(*ssa.Panic); ok {
					bad = p.Pos()
				}
			})
			// reflect's by-name field access panics when the name is promoted through an embedded pointer that is nil in
			// the value at hand (the static check resolves promoted fields on the TYPE and accepts the mapping)
			var byName ssa.Instruction
			instrs(fn, func(in ssa.Instruction) {
				switch calleeFullName(in) {
				case "(reflect.Value).FieldByName", "(reflect.Value).FieldByIndex", "(reflect.Value).FieldByNameFunc":
					byName = in
				}
			})
			if byName != nil {
				r.Fail("C15.request-time-no-panic", w.fname(origin(fn))+" reaches struct fields without reflect's panicking by-name access", byName.Pos(), "reflect.Value.FieldByName / FieldByIndex panic ('indirection through nil pointer to embedded struct') for a field promoted through an embedded pointer that is nil: compile accepts such a mapping (Type.FieldByName resolves promoted fields), the run panics out of Invoke — on the target side on every run, since the successor input is built from the zero value; FieldByIndexErr reports it as an error")
			}
			r.Check(bad == token.NoPos, "C15.request-time-no-panic", w.fname(origin(fn))+" has no explicit panic", fn.Pos(), "errors are returned", "request-time mapping code panics explicitly at "+w.pos(bad)+": a value the static check could not see (a typed nil / unexpected dynamic type behind an interface, a zero-value input of a node none of whose data predecessors ran, a nil into map[string]*T …) takes the run down with a panic instead of an ordinary error")
		}
		if n < 8 {
			r.Deferred = append(r.Deferred, fmt.Sprintf("C15.request-time-no-panic: only %d request-time functions in field_mapping.go", n))
		}
	}

	// ---- pointers: the static walk follows as many pointer levels as the run-time code does (one)
	r.Rule("C15.pointer-peel-agrees", "checkAndExtractFieldType dereferences pointer levels the way takeOne / checkAndExtractToField do at run time: both once, or both in a loop", 1)
	{
		peelLoops := func(fn *ssa.Function) int {
			n := 0
			for _, li := range naturalLoops(fn) {
				iff, ok := li.header.Instrs[len(li.header.Instrs)-1].(*ssa.If)
				if !ok {
					continue
				}
				_, x, y, ok := asCmp(iff.Cond)
				if !ok {
					continue
				}
				c, ok := x.(*ssa.Call)
				if !ok || !strings.HasSuffix(calleeFullName(c), ".Kind") {
					continue
				}
				if k, ok := constInt(y); ok && k == int64(reflect.Ptr) {
					n++
				}
			}
			return n
		}
		static := peelLoops(w.Fn("compose", "checkAndExtractFieldType"))
		runtime := peelLoops(w.Fn("compose", "takeOne")) + peelLoops(w.Fn("compose", "checkAndExtractFromField"))
		r.Check((static > 0) == (runtime > 0), "C15.pointer-peel-agrees", "static path walk vs takeOne: pointer levels", w.Fn("compose", "checkAndExtractFieldType").Pos(), fmt.Sprintf("pointer-peeling loops: static %d, run time %d", static, runtime),
			fmt.Sprintf("the static walk peels pointer levels in a loop (%d) while the run-time extraction dereferences once (%d loops): a path through **T is accepted by Compile and panics on every run ('input is not struct, struct ptr or map')", static, runtime))
	}

	// ---- intermediates are created once: an existing pointer / map on a target path is never replaced
	r.Rule("C15.instantiate-once", "instantiateIfNeeded sets a pointer / map field only when it is nil", 2)
	{
		iin := w.Fn("compose", "instantiateIfNeeded")
		n := 0
		instrs(iin, func(in ssa.Instruction) {
			c, ok := in.(*ssa.Call)
			if !ok || calleeFullName(c) != "(reflect.Value).Set" {
				return
			}
			n++
			g := hasGuard(c.Block(), func(g guard) bool {
				gc, ok := g.cond.(*ssa.Call)
				return ok && g.pol && calleeFullName(gc) == "(reflect.Value).IsNil" && valueAlias(gc.Call.Args[0], c.Call.Args[0])
			})
			r.Check(g, "C15.instantiate-once", fmt.Sprintf("instantiateIfNeeded: Set #%d only under IsNil()", n), c.Pos(), "guarded by field.IsNil()", "an intermediate pointer / map on a target path is re-created although it already exists: the first of two sibling mappings below it is wiped by the second")
		})
		if n < 2 {
			r.Fail("C15.instantiate-once", "instantiateIfNeeded creates missing intermediates", iin.Pos(), fmt.Sprintf("%d Set calls (pointer and map arms expected)", n))
		}
	}

	// ---- the run-time checker looks only at keys the value carries
	r.Rule("C15.checker-present-keys", "validateFieldMapping's combined checker invokes a per-field checker only for a key that is present in the mapped value (a streamed chunk may lack keys)", 1)
	checkerPresentKeys(w, r, "C15.checker-present-keys")

	// ---- records-accumulate
	r.Rule("C15.records-accumulate", "fieldMappingRecords[node] = append(fieldMappingRecords[node], mappings...)", 1)
	updTV := w.Fn("compose", "graph.updateToValidateMap")
	fRec := w.Field("compose", "graph", "fieldMappingRecords")
	nrec := 0
	instrs(updTV, func(in ssa.Instruction) {
		mu, ok := in.(*ssa.MapUpdate)
		if !ok || !isLoadOfField(mu.Map, fRec) {
			return
		}
		nrec++
		good := false
		if ap, ok := mu.Value.(*ssa.Call); ok && isBuiltin(ap, "append") {
			if lk, ok := ap.Call.Args[0].(*ssa.Lookup); ok && isLoadOfField(lk.X, fRec) && sameKeyExpr(lk.Index, mu.Key) {
				good = true
			}
		}
		r.Check(good, "C15.records-accumulate", "updateToValidateMap records mappings per target node", mu.Pos(), "appended to the node's existing records", "records of earlier predecessors are replaced: compile's duplicate-target check no longer sees duplicates coming from different predecessors")
	})
	if nrec == 0 {
		r.Fail("C15.records-accumulate", "updateToValidateMap records mappings per target node", updTV.Pos(), "mappings are not recorded")
	}

	// ---- duplicate-gate
	r.Rule("C15.duplicate-gate", "graph.compile rejects two mappings with the same target path on one node", 1)
	gcompile := w.Fn("compose", "graph.compile")
	fmTo := w.Field("compose", "FieldMapping", "to")
	foundDup := false
	instrs(gcompile, func(in ssa.Instruction) {
		iff, ok := in.(*ssa.If)
		if !ok {
			return
		}
		e, ok := iff.Cond.(*ssa.Extract)
		if !ok || e.Index != 1 {
			return
		}
		lk, ok := e.Tuple.(*ssa.Lookup)
		if !ok || !lk.CommaOk || !isLoadOfField(lk.Index, fmTo) {
			return
		}
		foundDup = true
		reach, wit := pathFromBlock(pathQuery{fn: gcompile, goal: func(i ssa.Instruction) bool {
			ret, ok := i.(*ssa.Return)
			return ok && ret.Block() != gcompile.Recover && isNilConst(returnedValue(ret, 1))
		}}, iff.Block().Succs[0])
		// the scanned list is the node's full record list
		fromRecords := false
		instrs(gcompile, func(i2 ssa.Instruction) {
			if l2, ok := i2.(*ssa.Lookup); ok && isLoadOfField(l2.X, fRec) {
				fromRecords = true
			}
		})
		r.Check(!reach && fromRecords, "C15.duplicate-gate", "graph.compile duplicate mapping target", iff.Pos(), "found-arm returns an error; scans fieldMappingRecords[node]", "compile can succeed with duplicate mapping targets: "+wit)
	})
	if !foundDup {
		r.Fail("C15.duplicate-gate", "graph.compile duplicate mapping target", gcompile.Pos(), "check not found")
	}

	// ---- reflect-zero
	r.Rule("C15.reflect-zero", "no unguarded possibly-nil reflect.Type / zero reflect.Value in field_mapping.go", 3)
	var fmFns []*ssa.Function
	for _, fn := range w.RepoFuncs("compose") {
		if strings.HasSuffix(w.Fset.Position(fn.Pos()).Filename, "compose/field_mapping.go") {
			fmFns = append(fmFns, fn)
		}
	}
	if len(fmFns) < 20 {
		undecidedf("C15.reflect-zero: %d functions in field_mapping.go (floor 20)", len(fmFns))
	}
	exc := map[string]string{}
	for k, v := range c15ReflectExceptions {
		exc[k] = v
	}
	ruleReflectZero(w, r, "C15.reflect-zero", fmFns, exc)
	// the three guards that make the nil cases errors (positive controls: they must be present)
	{
		takeOne := w.Fn("compose", "takeOne")
		hasValid := len(callsNamed(takeOne, "(reflect.Value).IsValid")) > 0
		r.Check(hasValid, "C15.reflect-zero", "takeOne guards the zero Value of a nil interface intermediate", takeOne.Pos(), "IsValid before Type()", "takeOne calls Type() on the zero Value produced by a nil interface on the source path (panic on the caller's goroutine)")
		assignOne := w.Fn("compose", "assignOne")
		// whole-value arm: Type() of reflect.ValueOf(taken) guarded by IsValid
		okw := true
		instrs(assignOne, func(in ssa.Instruction) {
			c, ok := in.(*ssa.Call)
			if !ok || calleeFullName(c) != "(reflect.Value).Type" {
				return
			}
			if src, ok := c.Call.Args[0].(*ssa.Call); ok && calleeFullName(src) == "reflect.ValueOf" {
				if _, isParam := through(src.Call.Args[0]).(*ssa.Parameter); isParam {
					if !validGuarded(c.Block(), src) && !hasGuard(c.Block(), func(g guard) bool {
						cc, ok := g.cond.(*ssa.Call)
						return ok && calleeFullName(cc) == "(reflect.Value).IsValid" && cc.Call.Args[0] == ssa.Value(src)
					}) {
						okw = false
					}
				}
			}
		})
		r.Check(okw, "C15.reflect-zero", "assignOne guards reflect.ValueOf(taken).Type()", assignOne.Pos(), "IsValid guard", "assigning a nil value calls Type() on the zero Value")
		// sibling agreement of the two run-time checkers in validateFieldMapping: both test trueInType == nil
		vfm := w.Fn("compose", "validateFieldMapping")
		nCheckers, nGuarded := 0, 0
		for _, lit := range vfm.AnonFuncs {
			tcalls := callsNamed(lit, "reflect.TypeOf")
			usesAssignable := len(callsNamedInvoke(lit, "AssignableTo")) > 0
			if len(tcalls) == 0 || !usesAssignable {
				continue
			}
			nCheckers++
			g := false
			instrs(lit, func(in ssa.Instruction) {
				if iff, ok := in.(*ssa.If); ok {
					op, x, y, ok := asCmp(iff.Cond)
					if ok && (op == token.EQL || op == token.NEQ) && isNilConst(y) && x == tcalls[0].(ssa.Value) {
						g = true
					}
				}
			})
			if g {
				nGuarded++
			}
		}
		r.Check(nCheckers >= 2 && nCheckers == nGuarded, "C15.reflect-zero", "validateFieldMapping run-time checkers agree on the nil case", vfm.Pos(), fmt.Sprintf("%d checkers, all test reflect.TypeOf(a) == nil", nCheckers), fmt.Sprintf("%d of %d run-time checkers handle a nil value (one sibling dereferences a nil reflect.Type)", nGuarded, nCheckers))
	}

	// ---- checker-capture
	r.Rule("C15.checker-capture", "mapping handlers / run-time checkers created in a loop capture only per-iteration variables", 1)
	{
		nl := 0
		for _, fn := range append(fmFns, w.Fn("compose", "graph.updateToValidateMap")) {
			nl += len(fn.AnonFuncs)
			for _, c := range loopVarCaptures(fn) {
				r.Fail("C15.checker-capture", w.fname(origin(fn))+": "+c, fn.Pos(), "a handler created per mapping captures a variable shared by all iterations: at run time every handler works with the last mapping's value (valid inputs rejected / invalid ones accepted)")
			}
		}
		r.OK("C15.checker-capture", "literals in field_mapping.go and updateToValidateMap", w.Fn("compose", "validateFieldMapping").Pos(), fmt.Sprintf("%d literals inspected", nl))
	}

	// ---- declared-type
	r.Rule("C15.declared-type", "takeOne returns f.Interface() and f.Type() of the very Value returned by checkAndExtractFrom*", 2)
	{
		takeOne := w.Fn("compose", "takeOne")
		n := 0
		instrs(takeOne, func(in ssa.Instruction) {
			ret, ok := in.(*ssa.Return)
			if !ok || ret.Block() == takeOne.Recover {
				return
			}
			v0 := returnedValue(ret, 0)
			v1 := returnedValue(ret, 1)
			mi, ok := v0.(*ssa.MakeInterface)
			var ic *ssa.Call
			if ok {
				ic, _ = mi.X.(*ssa.Call)
			} else {
				ic, _ = v0.(*ssa.Call)
			}
			if ic == nil || calleeFullName(ic) != "(reflect.Value).Interface" {
				return // error returns
			}
			n++
			tc, ok := v1.(*ssa.Call)
			good := ok && calleeFullName(tc) == "(reflect.Value).Type" && valueAlias(tc.Call.Args[0], ic.Call.Args[0])
			if good {
				// the receiver is the direct result of checkAndExtractFromField / FromMapKey (through the local variable f)
				good = directExtractResult(takeOne, ic.Call.Args[0])
			}
			r.Check(good, "C15.declared-type", fmt.Sprintf("takeOne success return #%d", n), ret.Pos(), "value and declared type of the extracted field/element", "the reported type is not the declared type of the extracted value (e.g. the dynamic type of an interface-typed field): the interface-intermediate error path is bypassed and a later hop panics")
		})
		if n < 2 {
			r.Fail("C15.declared-type", "takeOne success returns", takeOne.Pos(), fmt.Sprintf("%d success returns recognised (need 2: map key, struct field)", n))
		}
	}

	// ---- runtime-checker-installed
	r.Rule("C15.runtime-checker-installed", "validateFieldMapping's checker is appended on the mapped edge; mapping handler pairs are complete", 2)
	vfm := w.Fn("compose", "validateFieldMapping")
	fHOE := w.Field("compose", "graph", "handlerOnEdges")
	for _, c := range callsTo(updTV, vfm) {
		chk := extractOf(c, 0)
		installed := false
		if chk != nil {
			instrs(updTV, func(in ssa.Instruction) {
				mu, ok := in.(*ssa.MapUpdate)
				if !ok {
					return
				}
				if ap, ok := mu.Value.(*ssa.Call); ok && isBuiltin(ap, "append") {
					for _, a := range ap.Call.Args[1:] {
						if usesValue(a, chk) && hasGuard(mu.Block(), func(g guard) bool { return guardNonNil(g, func(v ssa.Value) bool { return v == ssa.Value(chk) }) }) {
							installed = true
						}
					}
				}
			})
		}
		_ = fHOE
		r.Check(installed, "C15.runtime-checker-installed", "updateToValidateMap installs the field-mapping run-time checker", c.Pos(), "appended to the edge handlers when non-nil", "the run-time checker for interface-typed sources is dropped")
	}
	// handlerPair literals in updateToValidateMap and validateFieldMapping set both forms
	hp := w.Named("compose", "handlerPair")
	for _, fn := range []*ssa.Function{updTV, vfm} {
		for _, f := range withAnons(fn) {
			instrs(f, func(in ssa.Instruction) {
				al, ok := in.(*ssa.Alloc)
				if !ok || namedOf(al.Type()) != hp {
					return
				}
				set := map[string]bool{}
				whole := false
				for _, ref := range *al.Referrers() {
					if fa, ok := ref.(*ssa.FieldAddr); ok {
						for _, rr := range *fa.Referrers() {
							if st, ok := rr.(*ssa.Store); ok && !isNilConst(st.Val) {
								set[fieldVarOfAddr(fa).Name()] = true
							}
						}
					}
					if st, ok := ref.(*ssa.Store); ok && st.Addr == ssa.Value(al) {
						whole = true
					}
				}
				if whole {
					return
				}
				r.Check(set["invoke"] && set["transform"], "C15.runtime-checker-installed", "handlerPair literal in "+w.fname(f), al.Pos(), "invoke and transform both set", "a field-mapping handler lacks its value or stream form (nil function called in that paradigm)")
			})
		}
	}
}

// sameMapValue: the map operands denote the same map (same SSA value, same phi, or loads of the same cell/field/lookup).
func sameMapValue(a, b ssa.Value) bool {
	if a == b || sameMapExpr(a, b) {
		return true
	}
	// type assertions of lookups of the same map/key: m[""].(map[string]any)
	ta, ok1 := a.(*ssa.TypeAssert)
	tb, ok2 := b.(*ssa.TypeAssert)
	if ok1 && ok2 {
		la, ok3 := ta.X.(*ssa.Lookup)
		lb, ok4 := tb.X.(*ssa.Lookup)
		if ok3 && ok4 && sameMapValue(la.X, lb.X) && sameKeyExpr(la.Index, lb.Index) {
			return true
		}
	}
	return false
}

func usesValue(a, v ssa.Value) bool {
	seen := map[ssa.Value]bool{}
	var q func(x ssa.Value, d int) bool
	q = func(x ssa.Value, d int) bool {
		if x == v {
			return true
		}
		if d > 8 || seen[x] {
			return false
		}
		seen[x] = true
		switch y := x.(type) {
		case *ssa.UnOp:
			return q(y.X, d+1)
		case *ssa.Slice:
			if al, ok := y.X.(*ssa.Alloc); ok {
				for _, ref := range *al.Referrers() {
					if ia, ok := ref.(*ssa.IndexAddr); ok {
						for _, rr := range *ia.Referrers() {
							if st, ok := rr.(*ssa.Store); ok && q(st.Val, d+1) {
								return true
							}
						}
					}
				}
			}
			return q(y.X, d+1)
		case *ssa.MakeInterface:
			return q(y.X, d+1)
		}
		return false
	}
	return q(a, 0)
}

// directExtractResult: v is (a load of a cell last assigned from) Extract #0 of a call to
// checkAndExtractFromField / checkAndExtractFromMapKey — i.e. not post-processed.
func directExtractResult(fn *ssa.Function, v ssa.Value) bool {
	isDirect := func(x ssa.Value) bool {
		e, ok := x.(*ssa.Extract)
		if !ok || e.Index != 0 {
			return false
		}
		c, ok := e.Tuple.(*ssa.Call)
		if !ok {
			return false
		}
		sc := staticCallee(c)
		return sc != nil && strings.HasPrefix(sc.Name(), "checkAndExtractFrom")
	}
	if isDirect(v) {
		return true
	}
	if u, ok := v.(*ssa.UnOp); ok && u.Op == token.MUL {
		if cell, ok := u.X.(*ssa.Alloc); ok {
			// the store that reaches this load in the same block must be a direct extract
			var last ssa.Value
			for _, in := range u.Block().Instrs {
				if in == ssa.Instruction(u) {
					break
				}
				if st, ok := in.(*ssa.Store); ok && st.Addr == ssa.Value(cell) {
					last = st.Val
				}
			}
			if last != nil {
				return isDirect(last)
			}
			// otherwise every store to the cell must be a direct extract
			all := true
			n := 0
			for _, ref := range *cell.Referrers() {
				if st, ok := ref.(*ssa.Store); ok && st.Addr == ssa.Value(cell) {
					n++
					if !isDirect(st.Val) {
						all = false
					}
				}
			}
			return all && n > 0
		}
	}
	if phi, ok := v.(*ssa.Phi); ok {
		for _, e := range phi.Edges {
			if !isDirect(e) {
				return false
			}
		}
		return true
	}
	return false
}

// checkerPresentKeys: inside validateFieldMapping's literals, every call of a per-field checker (handlerPair.invoke
// read out of the fieldCheckers map) on a value looked up in the mapped value is guarded by the key's presence:
// the call sits inside a range over that very map with a key-equality test, or on the ok arm of a comma-ok lookup.
func checkerPresentKeys(w *World, r *Report, rule string) {
	vfm := w.Fn("compose", "validateFieldMapping")
	fInvoke := w.Field("compose", "handlerPair", "invoke")
	n := 0
	for _, lit := range vfm.AnonFuncs {
		instrs(lit, func(in ssa.Instruction) {
			c, ok := in.(*ssa.Call)
			if !ok || c.Call.IsInvoke() || staticCallee(c) != nil {
				return
			}
			if f, _ := loadedField(c.Call.Value); f == nil || !sameField(f, fInvoke) {
				if fv, ok := c.Call.Value.(*ssa.Field); !ok || !sameField(fieldVarOfField(fv), fInvoke) {
					return
				}
			}
			if len(c.Call.Args) != 1 {
				return
			}
			lk, ok := c.Call.Args[0].(*ssa.Lookup)
			if !ok {
				return
			}
			n++
			present := false
			// (a) comma-ok on the same map
			if hasGuard(c.Block(), func(g guard) bool {
				e, ok := g.cond.(*ssa.Extract)
				if !ok || e.Index != 1 || !g.pol {
					return false
				}
				l2, ok := e.Tuple.(*ssa.Lookup)
				return ok && l2.CommaOk && l2.X == lk.X
			}) {
				present = true
			}
			// (b) the lookup key is the key variable of a range over the same map (possibly after an equality test)
			if e, ok := lk.Index.(*ssa.Extract); ok {
				if nx, ok := e.Tuple.(*ssa.Next); ok {
					if rg, ok := nx.Iter.(*ssa.Range); ok && rg.X == lk.X {
						present = true
					}
				}
			}
			r.Check(present, rule, fmt.Sprintf("%s: per-field checker call #%d", w.fname(lit), n), c.Pos(), "the checked key is known to be present in the value",
				"a per-field run-time checker is invoked for a key the value does not carry: in streaming execution a chunk that lacks a run-time-checked key gets nil checked (and stored back) — Collect/Transform fail with 'field[<nil>] … not assignable' or panic in convertTo while Invoke on the same data succeeds")
		})
	}
	if n == 0 {
		undecidedf("%s: no per-field checker call found in validateFieldMapping's literals", rule)
	}
}

// entryStoredBackCheck: assignOne walks a target path through maps whose entries may be held BY VALUE (a struct): what
// it descends into is then a copy, and the copy has to be stored back under its key after the assignment below it.
// The walk keeps the pending entry in loop-carried cells (the parent map, the key, the entry). Decided here:
//
//	(1) inside the loop the parent-map cell is only ever replaced by a new parent, never reset to the invalid Value
//	    (a reset forgets an entry that still has to be stored back);
//	(2) every store-back parent.SetMapIndex(key, V) stores a loop-carried cell V that is updated in lockstep with the
//	    parent-map cell (the entry recorded together with its map and key) — not the walk's current cursor, which may
//	    be a field deep inside the entry.
func entryStoredBackCheck(w *World, r *Report, rule string) {
	fn := w.Fn("compose", "assignOne")
	isZeroValue := func(v ssa.Value) bool {
		c, ok := v.(*ssa.Const)
		return ok && c.Value == nil && isReflectValue(c.Type())
	}
	headers := map[*ssa.BasicBlock]bool{}
	for _, li := range naturalLoops(fn) {
		headers[li.header] = true
	}
	type sb struct {
		call *ssa.Call
		pm   *ssa.Phi
	}
	var sbs []sb
	instrs(fn, func(in ssa.Instruction) {
		c, ok := in.(*ssa.Call)
		if !ok || calleeFullName(c) != "(reflect.Value).SetMapIndex" {
			return
		}
		pm, ok := c.Call.Args[0].(*ssa.Phi)
		if !ok || !headers[pm.Block()] {
			return
		}
		// the parent-map cell starts out invalid
		starts := false
		for _, e := range pm.Edges {
			if isZeroValue(e) {
				starts = true
			}
		}
		if starts {
			sbs = append(sbs, sb{c, pm})
		}
	})
	if len(sbs) < 2 {
		r.Fail(rule, "assignOne: store-backs into the pending parent map", fn.Pos(), fmt.Sprintf("%d SetMapIndex calls on a loop-carried parent-map cell found (floor 2)", len(sbs)))
		return
	}
	// strip phis that merely merge the cell with itself / a reset
	var leaves func(v ssa.Value, self *ssa.Phi, seen map[ssa.Value]bool, out *[]ssa.Value)
	leaves = func(v ssa.Value, self *ssa.Phi, seen map[ssa.Value]bool, out *[]ssa.Value) {
		if seen[v] {
			return
		}
		seen[v] = true
		if p, ok := v.(*ssa.Phi); ok && p != self && !headers[p.Block()] {
			for _, e := range p.Edges {
				leaves(e, self, seen, out)
			}
			return
		}
		*out = append(*out, v)
	}
	pm := sbs[0].pm
	preheader := -1
	for i, e := range pm.Edges {
		if isZeroValue(e) && !pm.Block().Preds[i].Dominates(pm.Block()) == false {
			_ = e
		}
		if !pm.Block().Dominates(pm.Block().Preds[i]) {
			preheader = i
		}
	}
	reset := false
	updated := map[int]bool{}
	for i, e := range pm.Edges {
		if i == preheader {
			continue
		}
		var ls []ssa.Value
		leaves(e, pm, map[ssa.Value]bool{}, &ls)
		for _, l := range ls {
			if isZeroValue(l) {
				reset = true
			}
			if l != ssa.Value(pm) {
				updated[i] = true
			}
		}
	}
	r.Check(!reset, rule, "assignOne: the pending parent map is never forgotten inside the walk", pm.Pos(), "in-loop values of the parent-map cell: itself or a new parent", "the parent-map cell is reset to the invalid Value inside the loop: an entry held by value (map[string]S) that the walk has descended into is stored back BEFORE the assignment below it and then forgotten — the mapped value lands in a local copy and is silently lost (target path mapKey -> structField -> field)")
	if reset {
		return // (2) is a necessary condition only of a walk that keeps the parent across struct levels
	}
	for k, s := range sbs {
		v := s.call.Call.Args[2]
		pe, ok := v.(*ssa.Phi)
		good := ok && headers[pe.Block()] && pe.Block() == pm.Block() && pe != pm
		if good {
			for i, e := range pe.Edges {
				if i == preheader {
					continue
				}
				var ls []ssa.Value
				leaves(e, pe, map[ssa.Value]bool{}, &ls)
				upd := false
				for _, l := range ls {
					if l != ssa.Value(pe) {
						upd = true
					}
				}
				if upd != updated[i] {
					good = false
				}
			}
		}
		r.Check(good, rule, fmt.Sprintf("assignOne: store-back #%d stores the recorded entry", k+1), s.call.Pos(), "the stored value is a loop-carried cell updated together with the parent map and key", "the value stored back under the pending key is not the entry that was recorded with that key (it is the walk's cursor): below a struct-valued entry the cursor is a field inside the entry — the wrong value is stored, or the entry is stored before the assignment below it")
		// … whenever there is a pending parent: the only condition of a store-back is that the parent-map cell is valid
		// (a condition on the KIND of the entry skips the struct held by value, the one kind that needs the store-back)
		isValidOfPM := func(g guard) bool {
			c, ok := g.cond.(*ssa.Call)
			return ok && g.pol && calleeFullName(c) == "(reflect.Value).IsValid" && len(c.Call.Args) == 1 && c.Call.Args[0] == ssa.Value(s.pm)
		}
		own := 0
		var extra []string
		for _, g := range guardsOf(s.call.Block()) {
			if isValidOfPM(g) {
				own++
				break // the guards further up belong to the walk (kinds of the cursor, loop tests), not to the store-back
			}
			extra = append(extra, guardText(g))
		}
		for _, cg := range compoundEntryGuards(s.call.Block()) {
			if !isValidOfPM(cg) {
				extra = append(extra, "part of a compound test: "+guardText(cg))
			} else {
				own++
			}
		}
		if own == 0 {
			continue // a store-back after the loop: not under the IsValid test in this shape
		}
		r.Check(len(extra) == 0, rule, fmt.Sprintf("assignOne: store-back #%d happens whenever a parent is pending", k+1), s.call.Pos(), "between the parent-map test and the store there is no further condition", fmt.Sprintf("the store-back is also conditional on %v: an entry of a kind the extra test excludes (a struct held by value in a map) is never written back once the walk moves into a deeper map — the mapped value is silently dropped (map[string]S with S{M map[string]T}, path k.M.x.F)", extra))
	}
}
