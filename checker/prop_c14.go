package main

import (
	"fmt"
	"go/token"
	"go/types"
	"sort"
	"strings"

	"golang.org/x/tools/go/ssa"
)

func init() {
	register(&propDef{
		id: "C14",
		explanation: "Static clauses of 'chunk concatenation is total, deterministic and independent of chunk boundaries': " +
			"(reflect-zero) in the concat closure no possibly-nil reflect.Type / possibly-zero reflect.Value reaches a method that panics on it without a guard; " +
			"— nor is stored as a map element (SetMapIndex with a zero Value silently deletes the key) or Set; (bounded-index) every non-constant slice index in the closure is below a bound that the indexed slice is shown (by how it was made or by a dominating length comparison) to reach: chunks of one stream are indexed by another chunk's length only after their shapes were compared; " +
			"(unchecked-assert) every single-value type assertion in the closure is one of the frozen, individually justified ones; " +
			"(map-order) results built while ranging over a map are made order-independent: tool-call groups are enumerated by ranging over the group map and the merged list is sorted with a STABLE sort before it is returned; map merges write by key; " +
			"(inputs-immutable) ConcatMessages / concatToolCalls / concatMessageArray never write through their inputs and never install an input's pointer as a result accumulator; " +
			"(nil-chunk) a nil message chunk is rejected before any field access.",
		decided:    []string{"reflect-zero (receiver and argument sinks)", "bounded-index", "unchecked-assert", "map-order", "inputs-immutable", "nil-chunk", "visits-all", "group-key-local"},
		notDecided: []string{"the algebraic re-chunking law (concat(prefix)+rest == concat(all))", "user-registered concat functions", "content of the concatenated values"},
		run:        runC14,
	})
}

// frozen exception tables -------------------------------------------------------------------------

var c14ReflectExceptions = map[string]string{
	"internal.concatMaps: Value.Type on Value.MapIndex (missing key)":                         "",
	"internal.concatMaps: Value.Interface on Value.MapIndex (missing key)":                    "rms.MapIndex(key) for key ranging over rms.MapKeys(): the key is present by construction",
	"internal.concatMaps: Value.MapKeys on Value.MapIndex (missing key)":                      "",
	"internal.mapToStruct: Value.Set on Value.FieldByName (missing field)":                    "mapToStruct is only applied to maps produced by structToMap of the same struct type (keys are its field names); not part of the concat closure reachable from ConcatItems",
	"internal.GetConcatFunc$1: Value.Call on reflect.ValueOf(fn) of a possibly nil interface": "fn is a value of the concatFuncs registry; RegisterStreamChunkConcatFunc stores non-nil function values and the comma-ok lookup guards the literal's creation",
	"internal.ConcatItems: Value.Interface on Value.MapIndex (missing key)":                   "",
}

var c14AssertExceptions = map[string]string{
	"internal.GetConcatFunc$1 .(error)": "rvs[1] is the second result of a registered concat function of type func([]T) (T, error); guarded by !IsNil()",
	"internal.concatMaps .([]any)":      "vals was built in this function as reflect.ValueOf([]any) and grown with reflect.Append: its dynamic type is []any by construction",
}

func concatClosure(w *World) []*ssa.Function {
	roots := []*ssa.Function{
		w.Fn("internal", "ConcatItems"),
		w.Fn("schema", "ConcatMessages"),
		w.Fn("schema", "concatMessageArray"),
		w.Fn("schema", "concatToolCalls"),
		w.Fn("schema", "ConcatMessageStream"),
		w.Fn("compose", "concatStreamReader"),
		w.Fn("internal", "GetConcatFunc"),
	}
	// registered concat functions (the reflective Call in GetConcatFunc is invisible to the call graph)
	for _, fn := range w.RepoFuncs("") {
		instrs(fn, func(in ssa.Instruction) {
			c, ok := in.(ssa.CallInstruction)
			if !ok {
				return
			}
			f, ok := c.Common().Value.(*ssa.Function)
			if !ok || origin(f).Name() != "RegisterStreamChunkConcatFunc" {
				return
			}
			if g := staticCalleeOfValue(c.Common().Args[0]); g != nil {
				roots = append(roots, g)
			}
		})
	}
	// … and the built-in table: functions stored into a package-level map of package internal at init
	var inits []*ssa.Function
	if pk := w.ByPath[modPath+"/internal"]; pk != nil {
		if sp := w.Prog.Package(pk.Types); sp != nil {
			if f := sp.Func("init"); f != nil {
				inits = append(inits, f) // the synthetic initializer: package-level var initialisers live here
			}
		}
	}
	for _, fn := range inits {
		instrs(fn, func(in ssa.Instruction) {
			mu, ok := in.(*ssa.MapUpdate)
			if !ok {
				return
			}
			v := mu.Value
			if mi, ok := v.(*ssa.MakeInterface); ok {
				v = mi.X
			}
			if g := staticCalleeOfValue(v); g != nil && w.inRepo(g) {
				roots = append(roots, g)
			}
		})
	}
	reach := w.reachableFrom(roots...)
	var out []*ssa.Function
	for f := range reach {
		if f.Blocks == nil || !w.inRepo(f) {
			continue
		}
		rel := w.relPkg(fnPkg(f).Path())
		if rel == "internal" || rel == "schema" || rel == "compose" {
			// keep to the concat code: exclude the stream machinery reached through Recv/Close
			name := f.String()
			if strings.Contains(name, "StreamReader") && !strings.Contains(name, "concatStreamReader") && !strings.Contains(name, "ConcatMessageStream") {
				continue
			}
			if rel == "schema" && !(strings.Contains(strings.ToLower(f.Name()), "concat") || strings.Contains(strings.ToLower(topFunc(f).Name()), "concat")) {
				continue
			}
			out = append(out, origin(f))
		}
	}
	// dedupe + sort
	seen := map[*ssa.Function]bool{}
	var uniq []*ssa.Function
	for _, f := range out {
		if !seen[f] {
			seen[f] = true
			uniq = append(uniq, f)
		}
	}
	sort.Slice(uniq, func(i, j int) bool { return uniq[i].String() < uniq[j].String() })
	return uniq
}

func runC14(w *World, r *Report) {
	// ---- visits-all: every chunk contributes
	r.Rule("C14.visits-all", "the loops over chunks, keys and groups in the concat functions are left only when exhausted or with an error", 8)
	ruleLoopsTotal(w, r, "C14.visits-all", []*ssa.Function{
		w.Fn("schema", "ConcatMessages"), w.Fn("schema", "concatMessageArray"), w.Fn("schema", "concatToolCalls"), w.Fn("schema", "ConcatMessageStream"),
		w.Fn("internal", "ConcatItems"), w.Fn("internal", "concatMaps"), w.Fn("internal", "concatSliceValue"), w.Fn("internal", "toSliceValue"), w.Fn("compose", "concatStreamReader"),
	}, map[string]string{
		"schema.ConcatMessageStream: loop": "receive loop: left at io.EOF (end of stream = exhaustion) — C13.eof-identity / C04.failure-agreement decide the EOF test",
		"compose.concatStreamReader: loop": "receive loop: left at io.EOF (end of stream = exhaustion)",
	}, "a chunk (or a key / tool-call group of it) is dropped from the concatenated value: the result depends on how the producer split its output")

	closure := concatClosure(w)
	var names []string
	for _, f := range closure {
		names = append(names, w.fname(f))
	}
	r.Notes = append(r.Notes, fmt.Sprintf("concat closure (%d functions): %s", len(closure), strings.Join(names, ", ")))
	if len(closure) < 8 {
		undecidedf("C14: concat closure has only %d functions (floor 8)", len(closure))
	}

	// ---- no interface comparison that can panic on uncomparable dynamic types
	r.Rule("C14.iface-compare", "the concat closure never compares two interface values of unknown dynamic type with == / != (that panics for slices, maps and structs holding them)", 0)
	{
		hits := ifaceCompares(closure)
		for i, h := range hits {
			r.Fail("C14.iface-compare", fmt.Sprintf("interface comparison #%d in %s", i+1, w.fname(h.fn)), h.op.Pos(), h.why+": for an uncomparable dynamic type (a []string extra, a struct with a slice field) the comparison panics — concatenation must return a value or an error")
		}
		if len(hits) == 0 {
			r.OK("C14.iface-compare", fmt.Sprintf("no interface-to-interface comparison in the %d functions of the concat closure", len(closure)), closure[0].Pos(), "none present")
		}
	}

	// ---- iteration-order independence: nothing but order-insensitive accumulators is carried across the iterations
	// of a range over a map
	r.Rule("C14.map-order-carried", "in the concat closure no value is carried from one iteration of a range-over-map loop into the next, except slices being appended to, counters and flags (Go's map order is random: a carried plain value makes the result nondeterministic)", 1)
	{
		nLoops := 0
		for _, fn := range closure {
			nLoops += len(mapRangeLoops(fn))
			for _, c := range mapRangeCarried(fn) {
				kind := carriedKind(c)
				construct := fmt.Sprintf("%s: %s carries %s", w.fname(fn), c.loop.what, c.phi.Comment)
				if kind == "other" {
					r.Fail("C14.map-order-carried", construct, c.loop.pos, fmt.Sprintf("variable %s (%s) keeps its value from the previous iteration of a range over a map: what a group ends up with depends on which group the randomised iteration visited before it", c.phi.Comment, c.phi.Type()))
				} else {
					r.OK("C14.map-order-carried", construct, c.loop.pos, "order-insensitive accumulator ("+kind+"); the order of appended elements is decided by C14.map-order (stable sort)")
				}
			}
		}
		for _, fn := range closure {
			for _, c := range mapRangeCarriedCells(fn) {
				construct := fmt.Sprintf("%s: %s uses outer variable %s", w.fname(fn), c.loop.what, c.cell.Comment)
				r.Check(c.resetOK, "C14.map-order-carried", construct, c.loop.pos, "re-initialised (Reset / constant store) before any other use in each iteration", fmt.Sprintf("variable %s lives outside the range over a map and is not re-initialised first thing in each iteration: a group inherits what the previously visited group left in it (random order)", c.cell.Comment))
			}
		}
		if nLoops > 0 { // with no loop at all the rule's floor (1 instance) makes the verdict UNDECIDED unless another rule reports a violation
			r.OK("C14.map-order-carried", fmt.Sprintf("%d range-over-map loops of the concat closure examined", nLoops), closure[0].Pos(), "header phis classified")
		}
	}

	// ---- re-chunking invariance needs the result to be built by accumulation alone: (a) text fields are what the
	// builder returns — no transforming call (Trim*, Replace, ToLower …) is applied to accumulated text, because a
	// partial result would lose what is interior to the whole; (b) no field of the result is computed from OTHER fields of
	// the same struct after the accumulation (a derived value frozen into a partial result is taken for a reported one by
	// the next concatenation)
	r.Rule("C14.accumulate-only", "in the concat closure: text accumulated in a strings.Builder is stored as Builder.String() returns it; no store to a field of a struct derives from loads of other fields of that same struct type", 2)
	{
		nText, nField := 0, 0
		for _, fn := range closure {
			// (a)
			instrs(fn, func(in ssa.Instruction) {
				c, ok := in.(*ssa.Call)
				if !ok || calleeFullName(c) != "(*strings.Builder).String" {
					return
				}
				nText++
				bad := ""
				for _, ref := range *c.Referrers() {
					if ci, ok := ref.(ssa.CallInstruction); ok {
						name := calleeFullName(ref)
						if strings.HasPrefix(name, "strings.") {
							bad = name
						}
						_ = ci
					}
				}
				r.Check(bad == "", "C14.accumulate-only", fmt.Sprintf("%s: accumulated text #%d is stored as built", w.fname(fn), nText), c.Pos(), "Builder.String() used as it is", "the accumulated text is passed through "+bad+" before it is stored: what that call removes or rewrites at the ends of a PARTIAL result is interior to the whole — concatenating a prefix first and then the rest gives a different string than concatenating everything at once (white space at a fragment boundary inside a JSON argument string)")
			})
			nText += piecesAsTheyCame(w, r, "C14.accumulate-only", fn, nText)
			// (b)
			for _, fw := range fieldWrites(fn) {
				if fw.kind != "store" || fw.owner == nil {
					continue
				}
				fs := map[*types.Var]bool{}
				fieldsReadBy(fw.val, 0, fs)
				var others []string
				sameToo := false
				for f := range fs {
					if fieldOwner(w, f) == fw.owner.Obj() {
						if sameField(f, fw.field) {
							sameToo = true
						} else {
							others = append(others, f.Name())
						}
					}
				}
				if len(others) == 0 {
					continue
				}
				nField++
				sort.Strings(others)
				_ = sameToo
				r.Fail("C14.accumulate-only", fmt.Sprintf("%s: %s.%s is computed from sibling fields", w.fname(fn), fw.owner.Obj().Name(), fw.field.Name()), fw.in.Pos(), fmt.Sprintf("the stored value reads %s of the same struct: a value derived after the accumulation is frozen into a partial result and the next concatenation takes it for a reported one — all-at-once and prefix-then-rest disagree (usage {P:10},{C:2},{C:5},{C:9}: total 19 at once, 12 or 15 staged)", strings.Join(others, ", ")))
			}
		}
		if nField == 0 {
			r.OK("C14.accumulate-only", fmt.Sprintf("no field of a result struct is derived from sibling fields in the %d functions of the concat closure", len(closure)), closure[0].Pos(), "per-field accumulation only")
		}
		if nText < 1 {
			r.Fail("C14.accumulate-only", "Builder.String() results in the concat closure", closure[0].Pos(), "none found (tool-call arguments / content expected)")
		}
	}

	// ---- reflect-zero
	r.Rule("C14.reflect-zero", "no possibly nil reflect.Type / zero reflect.Value is used unguarded in the concat closure", 2)
	exc := map[string]string{}
	for k, v := range c14ReflectExceptions {
		if v == "" {
			v = "key taken from MapKeys() of the same map in the enclosing loop: present by construction"
		}
		exc[k] = v
	}
	ruleReflectZero(w, r, "C14.reflect-zero", closure, exc)
	// positive control: toSliceValue's nil guard is what makes reflect.SliceOf(typ) safe; the rule must see that TypeOf
	{
		tsv := w.Fn("internal", "toSliceValue")
		n := len(callsNamed(tsv, "reflect.TypeOf"))
		r.Check(n >= 1, "C14.reflect-zero", "toSliceValue reflect.TypeOf inspected", tsv.Pos(), fmt.Sprintf("%d TypeOf sites under the typestate rule", n), "toSliceValue no longer derives the element type with reflect.TypeOf: rule anchors drifted")
	}

	// ---- bounded-index: chunks of one stream are indexed by a bound taken from another chunk only after
	// their shapes were compared
	r.Rule("C14.bounded-index", "every non-constant slice index in the concat closure is below a bound that the indexed slice's length is shown to reach", 6)
	{
		keys := map[string]int{}
		for _, f := range closure {
			for _, site := range indexSites(f) {
				base := fmt.Sprintf("%s: %s[%s]", w.fname(origin(f)), valText(site.slice), valText(site.index))
				keys[base]++
				construct := base
				if keys[base] > 1 {
					construct = fmt.Sprintf("%s #%d", base, keys[base])
				}
				if site.ok {
					r.OK("C14.bounded-index", construct, site.in.Pos(), site.why)
				} else if reason, ok := c14BoundsExceptions[base]; ok {
					r.Except("C14.bounded-index", construct, site.in.Pos(), reason)
				} else {
					r.Fail("C14.bounded-index", construct, site.in.Pos(), site.why+": a chunk shorter than the bound makes the concatenation panic (index out of range) instead of returning an error, and whether it does depends on the order of the chunks")
				}
			}
		}
	}

	// ---- unchecked-assert
	r.Rule("C14.unchecked-assert", "single-value type assertions in the concat closure are the frozen justified ones", 2)
	for _, f := range closure {
		instrs(f, func(in ssa.Instruction) {
			ta, ok := in.(*ssa.TypeAssert)
			if !ok || ta.CommaOk {
				return
			}
			construct := fmt.Sprintf("%s .(%s)", w.fname(f), types.TypeString(ta.AssertedType, func(p *types.Package) string { return "" }))
			if reason, ok := c14AssertExceptions[construct]; ok {
				r.Except("C14.unchecked-assert", construct, ta.Pos(), reason)
				return
			}
			r.Fail("C14.unchecked-assert", construct, ta.Pos(), "unchecked type assertion in chunk concatenation: a chunk of an unexpected dynamic type (or a nil interface) panics instead of producing an error")
		})
	}

	// ---- map-order
	r.Rule("C14.map-order", "tool-call groups enumerated by ranging over the group map; merged list stably sorted before return; map merges write by key", 3)
	ctc := w.Fn("schema", "concatToolCalls")
	{
		var groupMap *ssa.MakeMap
		instrs(ctc, func(in ssa.Instruction) {
			if mm, ok := in.(*ssa.MakeMap); ok {
				groupMap = mm
			}
		})
		var rng *ssa.Range
		instrs(ctc, func(in ssa.Instruction) {
			if rg, ok := in.(*ssa.Range); ok && groupMap != nil && rg.X == ssa.Value(groupMap) {
				rng = rg
			}
		})
		r.Check(groupMap != nil && rng != nil, "C14.map-order", "concatToolCalls enumerates every index group", ctc.Pos(), "range over the index->fragments map", "tool-call fragments are not enumerated by ranging over the group map: groups with sparse / non-zero-based indexes are dropped")
		// stable sort on every path from the range to a successful return
		isStable := func(in ssa.Instruction) bool {
			n := calleeFullName(in)
			return n == "sort.SliceStable" || n == "sort.Stable"
		}
		unstable := callsNamed(ctc, "sort.Slice", "sort.Sort")
		for _, c := range unstable {
			r.Fail("C14.map-order", "concatToolCalls sorts with an unstable sort", c.Pos(), "the comparator treats all tool calls without Index as equal; only a stable sort keeps their arrival order (and makes the result independent of map iteration order)")
		}
		if rng != nil {
			// a return with len(merged) > 1 must pass the stable sort: the `len(merged) > 1` guard's false edge is the only bypass
			bypass := map[[2]*ssa.BasicBlock]bool{}
			instrs(ctc, func(in ssa.Instruction) {
				iff, ok := in.(*ssa.If)
				if !ok {
					return
				}
				op, x, y, ok := asCmp(iff.Cond)
				if ok && op == token.GTR && isConstN(y, 1) && isLenOf(x, func(ssa.Value) bool { return true }) {
					bypass[[2]*ssa.BasicBlock{iff.Block(), iff.Block().Succs[1]}] = true
				}
			})
			skip, wit := pathQuery{fn: ctc, from: rng, goal: func(in ssa.Instruction) bool {
				ret, ok := in.(*ssa.Return)
				return ok && isNilConst(ret.Results[1])
			}, avoid: isStable, avoidEdge: func(a, b *ssa.BasicBlock) bool { return bypass[[2]*ssa.BasicBlock{a, b}] }}.exists()
			r.Check(!skip, "C14.map-order", "concatToolCalls sorts the merged list before returning it", ctc.Pos(), "sort.SliceStable lies on every successful return with more than one element", "the merged tool calls are returned in map-iteration order: "+wit)
		}
	}
	{
		// concatMaps: results are written by key (SetMapIndex with the iteration key), never appended in iteration order
		cm := w.Fn("internal", "concatMaps")
		byKey := 0
		instrs(cm, func(in ssa.Instruction) {
			if calleeFullName(in) == "(reflect.Value).SetMapIndex" {
				byKey++
			}
		})
		r.Check(byKey >= 2, "C14.map-order", "concatMaps writes results by key", cm.Pos(), fmt.Sprintf("%d SetMapIndex writes", byKey), "map concatenation no longer writes by key")
	}

	// ---- result-keeps-the-chunks-type: the map concatMaps returns is made of the chunks' own type
	r.Rule("C14.result-keeps-the-chunks-type", "concatMaps builds its result with the chunks' own (possibly named) map type, not with a type re-assembled from key and element (reflect.MapOf): a named map type would come back unnamed — nested, prefix-then-rest then fails 'unexpected slice element type'; at top level ConcatItems' conversion back to T silently yields a nil map", 1)
	{
		cmf := w.Fn("internal", "concatMaps")
		n := 0
		instrs(cmf, func(in ssa.Instruction) {
			c, ok := in.(*ssa.Call)
			if !ok {
				return
			}
			nm := calleeFullName(c)
			if nm != "reflect.MakeMap" && nm != "reflect.MakeMapWithSize" {
				return
			}
			// only the map that is handed back: it is the first result of a success return, or SetMapIndex'd and returned
			returned := false
			instrs(cmf, func(x ssa.Instruction) {
				if ret, isRet := x.(*ssa.Return); isRet && len(ret.Results) == 2 && isNilConst(ret.Results[1]) {
					v := ret.Results[0]
					if v == ssa.Value(c) {
						returned = true
					}
					if u, isU := v.(*ssa.UnOp); isU {
						if a, isA := u.X.(*ssa.Alloc); isA {
							for _, st := range storesToCell(cmf, a) {
								if st.Val == ssa.Value(c) {
									returned = true
								}
							}
						}
					}
				}
			})
			if !returned {
				return
			}
			n++
			_, reassembled := c.Call.Args[0].(*ssa.Call)
			if reassembled {
				reassembled = calleeFullName(c.Call.Args[0].(*ssa.Call)) == "reflect.MapOf"
			}
			r.Check(!reassembled, "C14.result-keeps-the-chunks-type", "concatMaps: the returned map is made of the chunks' type", c.Pos(), "reflect.MakeMap(typ) with typ the chunks' own type", "the result map's type is re-assembled with reflect.MapOf(key, elem): `type Citations map[string]any` comes back as map[string]interface {} — all-at-once succeeds, prefix-then-rest fails 'unexpected slice element type. Got map[string]interface {}', and a named map as chunk type is lost altogether (nil map, no error)")
		})
		if n == 0 {
			r.Fail("C14.result-keeps-the-chunks-type", "concatMaps: the returned map is made of the chunks' type", cmf.Pos(), "what concatMaps returns on success is not a map it made with reflect.MakeMap: the result is written into something it was handed (the first chunk's map) — the chunk other receivers of the same stream still read is rewritten")
		}
	}

	// ---- the tool calls of a concatenated message always went through the merge
	r.Rule("C14.tool-calls-always-merged", "whatever ConcatMessages puts into the result's ToolCalls is what concatToolCalls returned: fragments of one call can arrive in ONE chunk as well as in several, and only the merge joins them by index, in arrival order, and orders the result — a short cut for 'all tool calls came in one chunk' makes the result depend on chunk boundaries", 1)
	{
		cmsg := w.Fn("schema", "ConcatMessages")
		ctc := w.Fn("schema", "concatToolCalls")
		msgT := w.Named("schema", "Message")
		n := 0
		for _, fw := range fieldWrites(cmsg) {
			if fw.owner != msgT || fw.field.Name() != "ToolCalls" || fw.kind != "store" {
				continue
			}
			n++
			fromMerge := false
			if e, ok := fw.val.(*ssa.Extract); ok {
				if c, isC := e.Tuple.(*ssa.Call); isC && isCallTo(c, ctc) {
					fromMerge = true
				}
			}
			r.Check(fromMerge, "C14.tool-calls-always-merged", fmt.Sprintf("ConcatMessages: ToolCalls store #%d", n), fw.in.Pos(), "the result of concatToolCalls", "the collected tool calls are stored unmerged ("+valText(fw.val)+"): a lone tool-call chunk that holds two fragments of the same index, surrounded only by text chunks, yields two half-JSON tool calls, while the same fragments delivered one per chunk yield one merged call")
		}
		if n == 0 {
			undecidedf("C14.tool-calls-always-merged: ConcatMessages stores no ToolCalls")
		}
	}

	// ---- registry-first: a registered concat function decides for its type whatever the type's kind
	r.Rule("C14.registry-first", "the built-in key-wise map merge (concatMaps) is entered only where the registry was asked for the chunk type and had nothing: a function registered for a named map type is what concatenates its chunks, as for every other kind; the same for the retyping of interface-typed chunks by their dynamic type", 3)
	{
		cm := w.Fn("internal", "concatMaps")
		gcf := w.Fn("internal", "GetConcatFunc")
		// the other built-in treatment keyed on a kind: interface-typed chunks retyped by their dynamic type (the helper
		// ConcatItems calls that builds the typed slice)
		builtins := []*ssa.Function{cm}
		instrs(w.Fn("internal", "ConcatItems"), func(in ssa.Instruction) {
			if c, ok := in.(*ssa.Call); ok {
				if sc := staticCallee(c); sc != nil && w.inRepo(sc) && sc != cm && w.relPkg(fnPkg(sc).Path()) == "internal" && len(callsToName(sc, "reflect.MakeSlice")) > 0 {
					builtins = append(builtins, sc)
				}
			}
		})
		// the third built-in treatment: the generic "at most one non-zero chunk" rule of concatSliceValue looks at the chunks
		// (IsZero) only where the registry had nothing — a type with a registered function ("use last" for numbers, bools,
		// times) is concatenated by that function whatever the chunks look like
		{
			csv := w.Fn("internal", "concatSliceValue")
			k := 0
			instrs(csv, func(in ssa.Instruction) {
				c, ok := in.(*ssa.Call)
				if !ok || calleeFullName(c) != "(reflect.Value).IsZero" {
					return
				}
				k++
				isReg := func(g guard) bool {
					return guardIsNil(g, func(v ssa.Value) bool { cc, ok := v.(*ssa.Call); return ok && isCallTo(cc, gcf) })
				}
				asked := false
				for d := c.Block(); d != nil && !asked; d = d.Idom() {
					gs := compoundEntryGuards(d)
					gs = append(gs, guardsOf(d)...)
					for _, g := range gs {
						if isReg(g) {
							asked = true
						}
					}
				}
				r.Check(asked, "C14.registry-first", fmt.Sprintf("concatSliceValue: zero test #%d of the generic rule", k), c.Pos(), "under GetConcatFunc(type) == nil", "the generic 'exactly one non-zero chunk: return it' rule runs before the registry is asked: for the built-in 'use last' types a trailing zero is the right result, and now [2 1 0] all at once gives 0 while the prefix [2 1] gives 1 and then [1 0] gives 1 — the result depends on chunk boundaries")
			})
		}
		var sites []ssa.CallInstruction
		for _, b := range builtins {
			sites = append(sites, w.staticCallers(b)...)
		}
		for _, c := range sites {
			if !w.inRepo(c.Parent()) {
				continue
			}
			if sc := staticCallee(c); sc != cm {
				asked := hasGuard(c.Block(), func(g guard) bool {
					return guardIsNil(g, func(v ssa.Value) bool {
						cc, ok := v.(*ssa.Call)
						return ok && isCallTo(cc, gcf)
					})
				})
				for d := c.Block(); d != nil && !asked; d = d.Idom() {
					for _, g := range compoundEntryGuards(d) {
						if guardIsNil(g, func(v ssa.Value) bool { cc, ok := v.(*ssa.Call); return ok && isCallTo(cc, gcf) }) {
							asked = true
						}
					}
				}
				r.Check(asked, "C14.registry-first", fmt.Sprintf("%s retypes interface-typed chunks through %s", c.Parent().Name(), sc.Name()), c.Pos(), "under GetConcatFunc(type) == nil", "interface-typed chunks are retyped by their dynamic type before the registry is asked for the interface type: a function registered with RegisterStreamChunkConcatFunc for the node's declared (interface) output type is used when the chunks have mixed dynamic types and bypassed when they share one — [a b c] concatenates, its prefix [a b] fails 'cannot concat multiple non-zero value': the result depends on chunk boundaries")
				continue
			}
			asked := hasGuard(c.Block(), func(g guard) bool {
				return guardIsNil(g, func(v ssa.Value) bool {
					cc, ok := v.(*ssa.Call)
					return ok && isCallTo(cc, gcf)
				})
			})
			r.Check(asked, "C14.registry-first", fmt.Sprintf("%s enters concatMaps", c.Parent().Name()), c.Pos(), "under GetConcatFunc(type) == nil", "the dispatch tests Kind() == reflect.Map before the registry: a function registered with RegisterStreamChunkConcatFunc for a named map type (type counters map[string]int) is never called — its chunks are merged key-wise by the built-in rules (or fail 'cannot concat multiple non-zero value' for values those rules cannot merge)")
		}
	}

	// ---- group-key-local: which group a tool-call fragment joins depends on the fragment alone
	r.Rule("C14.group-key-local", "concatToolCalls: the group key of a fragment is read from that fragment (chunks[i].Index), never from loop-carried state (arrival order)", 1)
	{
		ctc := w.Fn("schema", "concatToolCalls")
		fIdx := w.Field("schema", "ToolCall", "Index")
		n := 0
		instrs(ctc, func(in ssa.Instruction) {
			mu, ok := in.(*ssa.MapUpdate)
			if !ok {
				return
			}
			if _, isMk := mu.Map.(*ssa.MakeMap); !isMk {
				return
			}
			n++
			// key = *p ; p must be a load of chunks[i].Index on every incoming edge
			var bad string
			var check func(v ssa.Value, d int)
			seen := map[ssa.Value]bool{}
			check = func(v ssa.Value, d int) {
				if d > 6 || seen[v] || bad != "" {
					return
				}
				seen[v] = true
				switch x := v.(type) {
				case *ssa.UnOp:
					if f, _ := loadedField(x); f != nil && sameField(f, fIdx) {
						return
					}
					check(x.X, d+1)
				case *ssa.Phi:
					// a phi at a loop header carries a value from an earlier iteration
					for i, e := range x.Edges {
						p := x.Block().Preds[i]
						if x.Block().Dominates(p) && x.Block() != p || blockReaches(x.Block(), p) && x.Block().Dominates(p) {
							bad = "the key can come from an earlier iteration (loop-carried " + valText(x) + ")"
							return
						}
						check(e, d+1)
					}
				case *ssa.Const:
					bad = "constant key"
				default:
					bad = "the key is " + valText(v) + ", not the fragment's own Index"
				}
			}
			check(mu.Key, 0)
			r.Check(bad == "", "C14.group-key-local", fmt.Sprintf("concatToolCalls: group map write #%d keyed by the fragment's own index", n), mu.Pos(), "m[*chunks[i].Index]", "fragments are grouped by state carried across iterations ("+bad+"): a re-sorted prefix changes which call is 'the most recent', so concat(prefix)+rest differs from concat(all)")
		})
		if n == 0 {
			r.Fail("C14.group-key-local", "concatToolCalls groups fragments", ctc.Pos(), "no write to the group map")
		}
	}

	// … and the index a merged call carries is its group's key: every store to ToolCall.Index in concatToolCalls stores the
	// address of a cell that holds the key of the group map's range (or the call is a whole copy of a fragment) — a merged
	// prefix renumbered 0..n-1 no longer matches the provider's numbers on the fragments that arrive later
	{
		ctc := w.Fn("schema", "concatToolCalls")
		tcT := w.Named("schema", "ToolCall")
		k := 0
		for _, fw := range fieldWrites(ctc) {
			if fw.owner != tcT || fw.field.Name() != "Index" || fw.kind != "store" {
				continue
			}
			k++
			good := false
			if a, ok := fw.val.(*ssa.Alloc); ok {
				good = true
				for _, st := range storesToCell(ctc, a) {
					e, isE := st.Val.(*ssa.Extract)
					if !isE {
						good = false
						continue
					}
					if _, isNext := e.Tuple.(*ssa.Next); !isNext {
						good = false
					}
				}
			}
			r.Check(good, "C14.group-key-local", fmt.Sprintf("concatToolCalls: Index store #%d keeps the group's key", k), fw.in.Pos(), "&index with index = the key of the group map's range", "a merged tool call is given an index that is not its fragments' ("+valText(fw.val)+"): Index is the merge key, so a concatenated prefix carries renumbered indexes while later fragments still carry the provider's — with indexes that do not start at 0 or have gaps, arguments are glued onto the wrong call and a nameless extra call appears (prefix-then-rest differs from all-at-once)")
		}
	}

	// ---- inputs-immutable
	r.Rule("C14.inputs-immutable", "concat functions do not write through their inputs nor adopt input pointers as accumulators", 4)
	for _, n := range []string{"ConcatMessages", "concatToolCalls", "concatMessageArray"} {
		f := w.Fn("schema", n)
		ruleNoMutateParams(w, r, "C14.inputs-immutable", f, nil)
		// accumulator-fresh: no pointer-typed value loaded from a parameter is stored into a field
		bad := 0
		instrs(f, func(in ssa.Instruction) {
			st, ok := in.(*ssa.Store)
			if !ok {
				return
			}
			if _, ok := st.Addr.(*ssa.FieldAddr); !ok {
				return
			}
			if _, isPtr := st.Val.Type().Underlying().(*types.Pointer); !isPtr {
				return
			}
			if p := paramRoot(st.Val, 0); p != nil && p.Parent() == f {
				bad++
				r.Fail("C14.inputs-immutable", fmt.Sprintf("%s adopts an input pointer (%s)", w.fname(f), st.Val.Type()), st.Pos(), "the result shares a mutable sub-object with an input chunk: later accumulation writes into the chunk, so concatenating the same chunks again (stream copies, prefix-then-rest) gives a different result")
			}
		})
		if bad == 0 {
			r.OK("C14.inputs-immutable", w.fname(f)+" accumulators are fresh", f.Pos(), "no input pointer is installed in the result")
		}
	}

	// the reflect-based concat functions: what they write into is their own
	for _, f := range closure {
		hits := reflectWriteReceiversFromParams(f)
		for i, h := range hits {
			r.Fail("C14.inputs-immutable", fmt.Sprintf("%s writes into a reflect.Value reached from its input #%d", w.fname(f), i+1), h.Pos(), "the accumulator is (possibly) an input chunk: "+calleeFullName(h)+" rewrites that chunk in place — the copies of a stream share their chunk objects, so a second consumer concatenating its copy starts from an already-concatenated first chunk (Stream / Collect / Transform give 'xyzyz' where Invoke gives 'xyz')")
		}
	}
	r.OK("C14.inputs-immutable", fmt.Sprintf("reflect accumulators of the %d functions of the concat closure", len(closure)), closure[0].Pos(), "Set / SetMapIndex receivers are created by the function itself")

	// ---- fails-as-a-whole
	r.Rule("C14.fails-as-a-whole", "in the concat closure a failing part fails the whole concatenation: no success return is reachable past an untested or non-nil error of a callee (a part dropped 'when it cannot be merged' makes the result depend on where the sequence was cut; shared helper with C13.no-dropped-error)", 1)
	{
		for _, f := range closure {
			for _, d := range errDroppedReturns(f) {
				r.Fail("C14.fails-as-a-whole", fmt.Sprintf("%s: success return after %s", w.fname(f), calleeFullName(d.call)), d.ret.Pos(), d.why+" — the failing part is silently left out: Concat([a,b,c]) and Concat([Concat([a,b]),c]) keep different parts (or one fails where the other succeeds)")
			}
		}
		r.OK("C14.fails-as-a-whole", fmt.Sprintf("success returns of the %d functions of the concat closure", len(closure)), closure[0].Pos(), "none reachable past a callee's error")
	}

	// ---- registry-read-only
	r.Rule("C14.registry-read-only", "no function of the concat closure writes a package-level variable (the concat-function registry is filled at init and only looked up afterwards): a lookup that caches into the registry is an unsynchronised map write inside every concatenation", 1)
	{
		n := 0
		for _, f := range closure {
			instrs(f, func(in ssa.Instruction) {
				var target ssa.Value
				switch x := in.(type) {
				case *ssa.MapUpdate:
					target = x.Map
				case *ssa.Store:
					target = x.Addr
				default:
					return
				}
				for d := 0; d < 6 && target != nil; d++ {
					switch y := target.(type) {
					case *ssa.Global:
						n++
						r.Fail("C14.registry-read-only", fmt.Sprintf("%s writes package variable %s", w.fname(f), y.Name()), in.Pos(), "a function every concatenation runs writes shared package state without synchronisation: two streams concatenated at once race on it (fatal 'concurrent map writes'), and the outcome of a concatenation depends on which ran before")
						return
					case *ssa.UnOp:
						target = y.X
					case *ssa.FieldAddr:
						target = y.X
					case *ssa.IndexAddr:
						target = y.X
					default:
						target = nil
					}
				}
			})
		}
		if n == 0 {
			r.OK("C14.registry-read-only", fmt.Sprintf("%d functions of the concat closure", len(closure)), closure[0].Pos(), "no store / map update rooted in a package-level variable")
		}
	}

	shareRule(w, r, "C14.positions-do-not-share-room", "per-position lists of the array concat do not share spare capacity: re-chunking (a position receiving two fragments in one call instead of one per call) must not leak a fragment into the neighbouring position", 0, "C17", "C17.positions-do-not-share-room")

	// ---- parts-independent
	r.Rule("C14.parts-independent", "ConcatMessages collects each part of a chunk under a test of that part only (shared with C18.chunk-parts-independent): 'text or tool calls' makes the result depend on how the provider happened to cut the chunks", 1)
	{
		cm := w.Fn("schema", "ConcatMessages")
		n, hits := partsGuardedByOtherParts(cm, w.Named("schema", "Message"))
		for _, h := range hits {
			r.Fail("C14.parts-independent", fmt.Sprintf("ConcatMessages: collecting Message.%s depends on Message.%s", h.field.Name(), strings.Join(h.others, ",")), h.app.Pos(), "a chunk carrying both parts loses this one: Concat of [text+call] differs from Concat of [text],[call]")
		}
		if len(hits) == 0 {
			r.OK("C14.parts-independent", fmt.Sprintf("ConcatMessages: %d per-part appends", n), cm.Pos(), "each guarded by tests of its own part only")
		}
		if n < 3 {
			r.Deferred = append(r.Deferred, fmt.Sprintf("C14.parts-independent: only %d per-part appends found in ConcatMessages", n))
		}
	}

	// ---- nil-chunk
	r.Rule("C14.nil-chunk", "ConcatMessages rejects a nil chunk before touching it", 1)
	{
		f := w.Fn("schema", "ConcatMessages")
		var elem ssa.Value
		var nilIf *ssa.If
		instrs(f, func(in ssa.Instruction) {
			iff, ok := in.(*ssa.If)
			if !ok {
				return
			}
			op, x, y, ok := asCmp(iff.Cond)
			if ok && op == token.EQL && isNilConst(y) {
				if _, isMsg := x.Type().Underlying().(*types.Pointer); isMsg && paramRoot(x, 0) != nil {
					elem, nilIf = x, iff
				}
			}
		})
		good := nilIf != nil
		if good {
			// nil arm returns an error; every field access of elem is outside the nil arm and dominated by the test
			reach, _ := pathFromBlock(pathQuery{fn: f, goal: func(in ssa.Instruction) bool {
				fa, ok := in.(*ssa.FieldAddr)
				return ok && fa.X == elem
			}}, nilIf.Block().Succs[0])
			good = !reach
			instrs(f, func(in ssa.Instruction) {
				if fa, ok := in.(*ssa.FieldAddr); ok && fa.X == elem && !instrDominates(nilIf, fa) {
					good = false
				}
			})
		}
		r.Check(good, "C14.nil-chunk", "ConcatMessages: nil chunk is an error", f.Pos(), "msg == nil returns an error before any field access", "a nil chunk is dereferenced")
	}
}

var c14BoundsExceptions = map[string]string{
	"internal.useLast: s[len(s) - 1]":                             "a registered concat function is only ever called with at least two chunks: concatSliceValue answers a one-element slice itself before it looks up the function, concatMaps builds one list per key that occurs (so never an empty one), and ConcatItems' callers (concatStreamReader, ConcatMessages) test the length first — an index of len-1 on a non-empty slice",
	"schema.concatToolCalls: chunks[range-value[0]]":              "the group lists hold positions of `chunks` recorded by the first loop (`for i := range chunks { m[*index] = append(m[*index], i) }`): a data invariant of the function, not a guard; chunks is not resliced in between",
	"schema.concatToolCalls: chunks[range-value[rangeindex + 1]]": "same: the ranged values are positions recorded from `for i := range chunks`",
	"schema.concatToolCalls$1: merged[i]":                         "less function of sort.SliceStable(merged, …): the sort package calls it with 0 <= i, j < len(merged)",
	"schema.concatToolCalls$1: merged[j]":                         "less function of sort.SliceStable(merged, …): the sort package calls it with 0 <= i, j < len(merged)",
}

// piecesAsTheyCame: what goes INTO a strings.Builder in fn is a piece as it came — no strings.* / bytes.* / unicode
// rewriting of a chunk before it is appended (a rune cut by a chunk boundary is two invalid halves of one valid
// character). Returns the number of WriteString sites seen.
func piecesAsTheyCame(w *World, r *Report, rule string, fn *ssa.Function, base int) int {
	nText := base
	// (a') what goes INTO a builder is a piece as it came: no strings.* / bytes.* / utf8 rewriting of a chunk before
	// it is appended (a rune cut by a chunk boundary is two invalid halves that make one valid character)
	instrs(fn, func(in ssa.Instruction) {
		c, ok := in.(*ssa.Call)
		if !ok || calleeFullName(c) != "(*strings.Builder).WriteString" {
			return
		}
		nText++
		bad := ""
		seen := map[ssa.Value]bool{}
		var walk func(v ssa.Value, d int)
		walk = func(v ssa.Value, d int) {
			if v == nil || d > 8 || seen[v] || bad != "" {
				return
			}
			seen[v] = true
			switch x := v.(type) {
			case *ssa.Call:
				if name := calleeFullName(x); strings.HasPrefix(name, "strings.") || strings.HasPrefix(name, "bytes.") || strings.HasPrefix(name, "unicode/") {
					bad = name
				}
			case *ssa.Phi:
				for _, e := range x.Edges {
					walk(e, d+1)
				}
			case *ssa.UnOp:
				if al, ok := x.X.(*ssa.Alloc); ok {
					for _, ref := range *al.Referrers() {
						if st, ok := ref.(*ssa.Store); ok && st.Addr == ssa.Value(al) {
							walk(st.Val, d+1)
						}
					}
				}
			}
		}
		walk(c.Call.Args[1], 0)
		r.Check(bad == "", rule, fmt.Sprintf("%s: piece #%d is appended as it came", w.fname(fn), nText), c.Pos(), "the argument of WriteString is not the result of a rewriting call", "a piece is passed through "+bad+" before it is appended: a transformation that looks at one chunk sees as damage what is merely cut — a multi-byte character split by a chunk boundary becomes two replacement characters, so the concatenation of a tool's streamed output differs from the output (and from what concatenating other cuts of it gives)")
	})
	return nText - base
}
