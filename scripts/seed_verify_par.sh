#!/bin/bash
# usage: seed_verify.sh <seed-dir> <PROP> [demo-run-regex]
# 1. in a scratch worktree of /repo HEAD: demo passes without the patch; with the patch: builds, suite passes, demo fails
# 2. applies the patch to an export of /repo HEAD and runs the property check there (-repo): /repo itself is not touched, so several seeds can be verified at once
set -u
SEED=$1; PROP=$2; RUNRE=${3:-.}
export GOFLAGS=-mod=mod GOPROXY=off GOSUMDB=off GOTOOLCHAIN=local; unset GOWORK
# every scratch worktree has its own path, so the Go build cache grows by a full build per seed: trim it when space runs low
if [ "$(df --output=avail -BG / | tail -1 | tr -dc 0-9)" -lt 30 ]; then go clean -cache; fi
WT=$(mktemp -d /var/tmp/seedwt.XXXXXX); rmdir $WT
git -C /repo worktree add -q --detach $WT HEAD || exit 3
trap 'git -C /repo worktree remove --force $WT >/dev/null 2>&1; rm -rf $WT' EXIT
cd $WT
declare -a PKGS
for t in $SEED/*_test.go; do
  [ -e "$t" ] || continue
  base=$(basename $t)
  dest=$(grep -oE "[A-Za-z0-9_/.-]*$base" $SEED/notes.md | grep / | grep -v "^/tmp" | head -1)
  dest=${dest#./}
  if [ -z "$dest" ]; then pk=$(grep -m1 '^package ' $t | awk '{print $2}'); case $pk in compose) dest=compose/$base;; schema) dest=schema/$base;; react) dest=flow/agent/react/$base;; callbacks) dest=internal/callbacks/$base;; serialization) dest=internal/serialization/$base;; *) echo "cannot place $base"; exit 3;; esac; fi
  cp $t $WT/$dest; PKGS+=("./$(dirname $dest)")
  echo "demo $base -> $dest"
done
PK=$(printf "%s\n" "${PKGS[@]}" | sort -u | tr '\n' ' ')
TESTS=$(grep -h -oE "^func (Test[A-Za-z0-9_]+)" $SEED/*_test.go | awk '{print $2}' | paste -sd'|')
echo "== demo without patch ($PK; $TESTS)"
timeout 300 go test -vet=off -count=1 -run "^($TESTS)\$" $PK > $WT.sv.out 2>&1; A=$?; tail -3 $WT.sv.out
git apply $SEED/patch.diff || { echo "PATCH DOES NOT APPLY"; exit 3; }
echo "== build+suite with patch"
go build ./... || { echo BUILD FAILS; exit 3; }
for t in $SEED/*_test.go; do :; done
# suite without the demo files
mkdir -p /var/tmp/sv.$$; for p in $PK; do for t in $SEED/*_test.go; do b=$(basename $t); [ -e $p/$b ] && mv $p/$b /var/tmp/sv.$$/$b.$(echo $p | tr / _); done; done
/verif/scripts/baseline.sh $WT; S=$?
for f in /var/tmp/sv.$$/*; do b=$(basename $f); name=${b%%.go.*}.go; p=${b##*.go.}; p=$(echo $p | sed 's/^\._//; s/_/\//g'); cp $f $WT/$p/$name 2>/dev/null || cp $f $WT/$(echo ${b##*.go.} | sed 's/^\._//' | tr _ /)/$name; done; rm -rf /var/tmp/sv.$$
echo "== demo with patch"
timeout 300 go test -vet=off -count=1 -run "^($TESTS)\$" $PK > $WT.sv.out 2>&1; B=$?; tail -5 $WT.sv.out
echo "RESULT demo_without=$A suite_with=$S demo_with=$B (want 0 0 nonzero)"
cd /verif
echo "== check $PROP on an export of /repo HEAD with patch"
EX=$(mktemp -d /var/tmp/seedex.XXXXXX); mkdir -p $EX/repo $EX/verif/evidence; cp known-findings.json $EX/verif/
git -C /repo archive HEAD | tar -x -C $EX/repo
(cd $EX/repo && patch -p1 -s --no-backup-if-mismatch < $SEED/patch.diff) && { ${EINOCHECK:-bin/einocheck} -prop $PROP -tier quick -repo $EX/repo -verif $EX/verif 2>&1 | grep -E "^(violation|VIOLATION|UNDECIDED|OK|KNOWN)" | cut -c1-300; echo "check_exit=${PIPESTATUS[0]}"; }
rm -rf $EX $WT.sv.out
