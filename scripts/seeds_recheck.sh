#!/bin/bash
# Re-run every kept seeded change against its property's check: apply seeded/<id>/patch.diff to /repo,
# run the check, revert. Reports detected / MISSED / NOAPPLY per seed. /repo must be clean.
# usage: seeds_recheck.sh [id-prefix]
set -u
export GOFLAGS=-mod=mod GOPROXY=off GOSUMDB=off GOTOOLCHAIN=local; unset GOWORK
cd /verif
[ -z "$(git -C /repo status --short)" ] || { echo "/repo not clean"; exit 3; }
[ -x bin/einocheck ] || ./check.sh C01 quick >/dev/null
det=0; miss=0; noap=0
TMPV=$(mktemp -d /var/tmp/seedrc.XXXXXX); mkdir -p $TMPV/evidence; cp known-findings.json $TMPV/
for d in seeded/${1:-C}*/; do
  id=$(basename $d); [ -f $d/meta.json ] || continue
  prop=$(python3 -c "import json;print(json.load(open('$d/meta.json'))['property'])")
  if git -C /repo apply $PWD/$d/patch.diff 2>/dev/null || git -C /repo apply -C1 --recount $PWD/$d/patch.diff 2>/dev/null; then
    out=$(bin/einocheck -prop $prop -tier quick -repo /repo -verif $TMPV 2>&1 | grep -E "^(VIOLATION|UNDECIDED)" | head -1)
    git -C /repo checkout -- . ; git -C /repo clean -fdq
    if [[ "$out" == VIOLATION* ]]; then det=$((det+1)); echo "$id detected"; else miss=$((miss+1)); echo "$id MISSED ($out)"; fi
  else
    noap=$((noap+1)); echo "$id NOAPPLY"
  fi
done
rm -rf $TMPV
echo "SEEDS detected=$det missed=$miss noapply=$noap"
[ $miss -eq 0 ]
