#!/bin/bash
# usage: seed_keep.sh <seed-dir> <PROP> <detected-by-rule|MISSED> "<needs>" 
# runs seed_verify.sh and stores the seed under /verif/seeded/<name>/ with meta.json
set -u
SEED=$1; PROP=$2; DET=$3; NEEDS=$4
NAME=$(basename $SEED)
OUT=/verif/seeded/$NAME
LOG=$(/verif/scripts/seed_verify_par.sh $SEED $PROP 2>&1)
RES=$(echo "$LOG" | grep '^RESULT')
echo "$RES"
case "$RES" in *"demo_without=0 suite_with=0 demo_with=0"*|"") echo "NOT VALID: $RES"; exit 1;; esac
case "$RES" in *"demo_without=0 suite_with=0"*) ;; *) echo "NOT VALID: $RES"; exit 1;; esac
mkdir -p $OUT; cp $SEED/patch.diff $SEED/*_test.go $OUT/ 2>/dev/null; cp $SEED/notes.md $OUT/notes.md
CHK=$(echo "$LOG" | grep -E '^(violation|UNDECIDED|OK|check_exit)' | head -5)
python3 - "$OUT" "$PROP" "$DET" "$NEEDS" "$RES" "$CHK" <<'PY'
import json,sys
out,prop,det,needs,res,chk=sys.argv[1:7]
json.dump({"property":prop,"breaks":"see notes.md (written by the independent sub-agent that produced the change)","needs_to_manifest":needs,
 "verified":{"procedure":"scripts/seed_verify.sh: scratch worktree of /repo HEAD; demo passes without patch; with patch: go build ./... ok, 350-test baseline passes, demo fails; then patch applied to an export of /repo HEAD, einocheck -prop %s -repo <export>"%prop,"result":res},
 "check_result":chk.splitlines(),"detected_by":det},open(out+"/meta.json","w"),indent=1)
PY
echo kept $OUT
