#!/bin/bash
# Runs eino's pinned test suite (guard OFF = no build tags) and compares with /root/.vp/BASELINE.json stable_pass.
# usage: baseline.sh [repo-dir]   (default /repo)
REPO=${1:-/repo}
export GOFLAGS=-mod=mod GOPROXY=off GOSUMDB=off GOTOOLCHAIN=local
unset GOWORK
OUT=$(mktemp /var/tmp/baseline.XXXXXX.json)
(cd "$REPO" && go test -mod=mod -json -vet=off -count=1 -timeout 25m ./... > "$OUT" 2>/dev/null)
python3 - "$OUT" <<'PY'
import json,sys
passed=set(); failed=set()
for l in open(sys.argv[1]):
    try: e=json.loads(l)
    except Exception: continue
    if e.get('Test') and e.get('Action') in('pass','fail'):
        k=e['Package']+'::'+e['Test']
        (passed if e['Action']=='pass' else failed).add(k)
base=set(json.load(open('/root/.vp/BASELINE.json'))['stable_pass'])
missing=sorted(base-passed)
print(f"baseline: {len(base)} expected, {len(base&passed)} passed, {len(missing)} missing/failed, {len(failed)} failed overall")
for m in missing[:20]: print("  NOT PASSED:",m)
sys.exit(1 if missing else 0)
PY
rc=$?
rm -f "$OUT"
exit $rc
