#!/usr/bin/env python3
"""False-alarm guard: behaviour-preserving edits of the current tree must leave every check at exit 0.
usage: benign.py [--repo /repo] [--only name]"""
import json, os, shutil, subprocess, sys, tempfile, concurrent.futures as cf
HERE = os.path.dirname(os.path.dirname(os.path.abspath(__file__)))
BIN = os.path.join(HERE, 'bin', 'einocheck')
def run_one(m, repo):
    tmp = tempfile.mkdtemp(prefix='einoben.', dir=os.environ.get('TMPDIR', '/var/tmp'))
    try:
        dst = os.path.join(tmp, 'repo')
        subprocess.run(['rsync', '-a', '--exclude', '.git', repo.rstrip('/') + '/', dst + '/'], check=True)
        for e in m['edits']:
            p = os.path.join(dst, e['file']); s = open(p).read(); cnt = s.count(e['old'])
            want = e.get('count', 1)
            if cnt == 0 or (want != -1 and cnt != want):
                return dict(name=m['name'], outcome='skipped', detail=f"anchor found {cnt}x in {e['file']}")
            open(p, 'w').write(s.replace(e['old'], e['new']))
        vdir = os.path.join(tmp, 'verif'); os.makedirs(os.path.join(vdir, 'evidence'))
        shutil.copy(os.path.join(HERE, 'known-findings.json'), vdir)
        pr = subprocess.run([BIN, '-prop', 'all', '-repo', dst, '-verif', vdir], capture_output=True, text=True)
        if 'load/type errors' in pr.stdout:
            return dict(name=m['name'], outcome='invalid', detail=pr.stderr[-300:])
        bad = [l for l in pr.stdout.splitlines() if l.startswith('violation:') or l.startswith('UNDECIDED')]
        if pr.returncode == 0 and not bad:
            return dict(name=m['name'], outcome='quiet', detail='all 20 checks exit 0')
        return dict(name=m['name'], outcome='ALARM', detail=' || '.join(b[:220] for b in bad[:4]))
    finally:
        shutil.rmtree(tmp, ignore_errors=True)
def main():
    repo = '/repo'; only = None; a = sys.argv[1:]
    for i, x in enumerate(a):
        if x == '--repo': repo = a[i+1]
        if x == '--only': only = a[i+1]
    ms = json.load(open(os.path.join(HERE, 'mutants', 'benign.json')))
    if only: ms = [m for m in ms if m['name'] == only]
    res = []
    with cf.ThreadPoolExecutor(max_workers=4) as ex:
        for r in ex.map(lambda m: run_one(m, repo), ms):
            res.append(r); print(f"benign {r['name']:<40} {r['outcome']:<8} {r['detail']}")
    summ = {k: sum(1 for r in res if r['outcome'] == k) for k in ('quiet', 'ALARM', 'skipped', 'invalid')}
    print('BENIGN', json.dumps(summ))
    json.dump(dict(summary=summ, results=res), open(os.path.join(HERE, 'evidence', 'benign.json'), 'w'), indent=1)
    sys.exit(1 if summ['ALARM'] or summ['invalid'] else 0)
main()
