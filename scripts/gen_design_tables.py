#!/usr/bin/env python3
"""Regenerates the machine-derived sections of DESIGN.md (between <!-- GEN:x --> markers) from
evidence/*.json (rules, statements, instance counts of the last run), mutants/*.json, seeded/*/meta.json
and known-findings.json."""
import json, glob, os, re, sys
HERE = os.path.dirname(os.path.dirname(os.path.abspath(__file__)))
def rules_table():
    out = []
    for f in sorted(glob.glob(HERE + '/evidence/C??.json')):
        e = json.load(open(f)); c = e['coverage']
        out.append(f"\n#### {e['property_id']} — {c['obligations']} obligations, {c['distinct_nontrivial']} distinct constructs (last {e['tier']} run)\n")
        out.append("| rule | statement (what is decided on every path / caller) | instances | floor |")
        out.append("|---|---|---|---|")
        for rid in sorted(c['rules']):
            st = c['rules'][rid]
            out.append(f"| `{rid}` | {st['statement']} | {st['instances']} ({st['excepted']} excepted, {st['info']} info) | {st['floor']} |")
        nd = c.get('not_decided') or []
        if nd:
            out.append("\nNot decided: " + "; ".join(nd) + ".")
    return "\n".join(out)
def mutants_table():
    out = ["| property | mutants (one-edit variants of the CURRENT tree that still compile) | rules they must trip |", "|---|---|---|"]
    for f in sorted(glob.glob(HERE + '/mutants/C??.json')):
        ms = json.load(open(f))
        prop = os.path.basename(f)[:-5]
        names = ", ".join(m['name'] for m in ms)
        rules = sorted({r for m in ms for r in (m['rule'] if isinstance(m['rule'], list) else [m['rule']])})
        out.append(f"| {prop} | {len(ms)}: {names} | {', '.join('`'+r+'`' for r in rules)} |")
    return "\n".join(out)
def seeds_table():
    out = ["| seeded change | property | needs to manifest | caught by | note |", "|---|---|---|---|---|"]
    for d in sorted(glob.glob(HERE + '/seeded/C*')):
        mf = os.path.join(d, 'meta.json')
        if not os.path.exists(mf): continue
        m = json.load(open(mf))
        det = m.get('detected_by', '')
        note = ''
        mm = re.match(r'^([^ (]+(?: / [^ (]+)*(?: and [^ (]+)?)\s*\((.*)\)\s*$', det)
        if mm: det, note = mm.group(1), mm.group(2)
        out.append(f"| `{os.path.basename(d)}` | {m['property']} | {m.get('needs_to_manifest','')} | `{det}` | {note} |")
    return "\n".join(out)
def findings_table():
    d = json.load(open(HERE + '/known-findings.json'))
    out = ["| property | rule / construct | what failed (confirmed against the real code) | status |", "|---|---|---|---|"]
    for k in d['findings']:
        out.append(f"| {k['property']} | `{k['rule']}` / {k['construct']} | {k['what_fails']} | {k['status']} {k.get('commit','')} |")
    return "\n".join(out)
gens = {'RULES': rules_table, 'MUTANTS': mutants_table, 'SEEDS': seeds_table, 'FINDINGS': findings_table}
p = HERE + '/DESIGN.md'
s = open(p).read()
for k, fn in gens.items():
    a, b = f'<!-- GEN:{k} -->', f'<!-- /GEN:{k} -->'
    if a in s and b in s:
        i, j = s.index(a) + len(a), s.index(b)
        s = s[:i] + "\n" + fn() + "\n" + s[j:]
open(p, 'w').write(s)
print('DESIGN.md tables regenerated')
