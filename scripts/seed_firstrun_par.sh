#!/bin/bash
# first-run sweep without touching /repo: every lane applies delivered seeds to its own export of /repo HEAD and runs ALL
# checks there. usage: seed_firstrun_par.sh <lanes> <seeddir>...   (EINOCHECK=<binary> overrides bin/einocheck)
export GOFLAGS=-mod=mod GOPROXY=off GOSUMDB=off GOTOOLCHAIN=local; unset GOWORK
cd /verif
LANES=$1; shift
ROOT=$(mktemp -d /var/tmp/frp.XXXXXX)
printf "%s\n" "$@" > $ROOT/all.txt
split -n l/$LANES -d $ROOT/all.txt $ROOT/lane.
for f in $ROOT/lane.*; do
  (
    while read S; do
      s=$(basename $S); L=$f.repo; rm -rf $L; mkdir -p $L $f.verif/evidence; cp known-findings.json $f.verif/
      git -C /repo archive HEAD | tar -x -C $L
      (cd $L && patch -p1 -s --no-backup-if-mismatch < $S/patch.diff >/dev/null 2>&1) || { echo "== $s: NOAPPLY"; continue; }
      out=$(${EINOCHECK:-bin/einocheck} -prop all -tier quick -repo $L -verif $f.verif 2>&1 | grep -E "^(VIOLATION|UNDECIDED)" | sed 's/replay=.*violations.//; s/VIOLATION property=//' | cut -c1-60 | sort -u | tr '\n' ';')
      echo "== $s: $out"
    done < $f
  ) > $f.out 2>&1 &
done
wait
cat $ROOT/lane.*.out | sort
rm -rf $ROOT
