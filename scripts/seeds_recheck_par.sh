#!/bin/bash
# Parallel form of seeds_recheck.sh that does not touch /repo: every lane works on its own export of a commit
# (default: /repo HEAD), applies seeded/<id>/patch.diff there, runs the property's check with -repo <lane>, reverts.
# usage: seeds_recheck_par.sh [commit] [lanes] [id-prefix]     EINOCHECK=<binary> overrides bin/einocheck
set -u
export GOFLAGS=-mod=mod GOPROXY=off GOSUMDB=off GOTOOLCHAIN=local; unset GOWORK
cd /verif
COMMIT=${1:-HEAD}; LANES=${2:-4}; PREFIX=${3:-C}
BIN=${EINOCHECK:-/verif/bin/einocheck}
ROOT=$(mktemp -d /var/tmp/seedrcp.XXXXXX)
ls -d seeded/${PREFIX}*/ | while read d; do [ -f $d/meta.json ] && echo $d; done > $ROOT/all.txt
split -n l/$LANES -d $ROOT/all.txt $ROOT/lane.
for f in $ROOT/lane.*; do
  (
    L=$f.repo; mkdir -p $L $f.verif/evidence; cp known-findings.json $f.verif/
    git -C /repo archive $COMMIT | tar -x -C $L
    while read d; do
      id=$(basename $d)
      prop=$(python3 -c "import json;print(json.load(open('$d/meta.json'))['property'])")
      if (cd $L && patch -p1 -s --no-backup-if-mismatch < /verif/$d/patch.diff >/dev/null 2>&1); then
        out=$($BIN -prop $prop -tier quick -repo $L -verif $f.verif 2>&1 | grep -E "^(VIOLATION|UNDECIDED)" | head -1)
        if [[ "$out" == VIOLATION* ]]; then echo "$id detected"; else echo "$id MISSED ($out)"; fi
      else
        echo "$id NOAPPLY"
      fi
      rm -rf $L; mkdir -p $L; git -C /repo archive $COMMIT | tar -x -C $L
    done < $f
  ) > $f.out 2>&1 &
done
wait
cat $ROOT/lane.*.out | sort
echo "SEEDS detected=$(cat $ROOT/lane.*.out | grep -c ' detected') missed=$(cat $ROOT/lane.*.out | grep -c MISSED) noapply=$(cat $ROOT/lane.*.out | grep -c NOAPPLY)"
rm -rf $ROOT
