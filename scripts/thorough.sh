#!/bin/bash
# thorough tier: quick rules with the repo-wide sweeps + second build configuration + mutation self-test
set -u
HERE=$(cd "$(dirname "$0")/.." && pwd)
PROP=$1; REPO=${2:-/repo}
exec "$HERE/bin/einocheck" -prop "$PROP" -tier thorough -repo "$REPO" -verif "$HERE"
