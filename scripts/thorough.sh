#!/bin/bash
# thorough tier: (1) mutation self-test of the property's rules on scratch copies of the CURRENT tree,
# (2) the rule set itself in thorough mode (repo-wide sweeps, second build configuration GOARCH=386).
set -u
HERE=$(cd "$(dirname "$0")/.." && pwd)
PROP=$1; REPO=${2:-/repo}
"$HERE/scripts/mutants.py" "$PROP" --repo "$REPO" --jobs 8
exec "$HERE/bin/einocheck" -prop "$PROP" -tier thorough -repo "$REPO" -verif "$HERE"
