#!/bin/bash
# round-6 first-run: frozen checker (state at launch of the round) and the current checker, appended to seeded/round9-firstrun.log
cd /verif
for S in "$@"; do
  a=$(EINOCHECK=/var/tmp/einocheck.round9-frozen scripts/seed_firstrun.sh $S)
  b=$(scripts/seed_firstrun.sh $S)
  echo "frozen  $a" | tee -a seeded/round9-firstrun.log
  echo "current $b" | tee -a seeded/round9-firstrun.log
done
