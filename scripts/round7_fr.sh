#!/bin/bash
# round-6 first-run: frozen checker (state at launch of the round) and the current checker, appended to seeded/round7-firstrun.log
cd /verif
for S in "$@"; do
  a=$(EINOCHECK=/var/tmp/einocheck.round7-frozen scripts/seed_firstrun.sh $S)
  b=$(scripts/seed_firstrun.sh $S)
  a=$(echo "$a" | sed "s/C05 C05-C05.pair-table-typing-1.json;//")
  echo "frozen  $a" | tee -a seeded/round7-firstrun.log
  echo "current $b" | tee -a seeded/round7-firstrun.log
done
