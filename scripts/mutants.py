#!/usr/bin/env python3
"""Mutation self-test of the static rules (thorough tier).

For every stored mutant of the property: copy the CURRENT tree of the repo to a scratch dir, apply the
edit(s), run the checker on the copy and require that it reports a violation of exactly the named rule.
Outcomes: detected | MISSED (rule has gone blind -> exit 2) | skipped (edit no longer applies) |
invalid (mutant does not type-check).  Scratch copies live under $TMPDIR (default /var/tmp) and are
removed immediately.  usage: mutants.py <PROP|all> [--repo /repo] [--jobs N] [--only name]
"""
import json, os, shutil, subprocess, sys, tempfile, concurrent.futures as cf, glob

HERE = os.path.dirname(os.path.dirname(os.path.abspath(__file__)))
BIN = os.path.join(HERE, 'bin', 'einocheck')

def load(prop):
    out = []
    files = sorted(glob.glob(os.path.join(HERE, 'mutants', 'C*.json')))
    for f in files:
        for m in json.load(open(f)):
            if prop == 'all' or m['property'] == prop or prop in m.get('also', []):
                out.append(m)
    return out

def load_seeds(prop):
    """kept seeded changes of the property (independent sub-agents' patches): variants of kind 'seed'"""
    out = []
    for d in sorted(glob.glob(os.path.join(HERE, 'seeded', 'C*'))):
        mf = os.path.join(d, 'meta.json')
        if not os.path.exists(mf):
            continue
        meta = json.load(open(mf))
        if prop == 'all' or meta.get('property') == prop:
            out.append(dict(property=meta['property'], name='seed:' + os.path.basename(d), rule=None, patch=os.path.join(d, 'patch.diff'), edits=[]))
    return out

def run_one(m, repo, prop_override=None):
    tmp = tempfile.mkdtemp(prefix='einomut.', dir=os.environ.get('TMPDIR', '/var/tmp'))
    try:
        dst = os.path.join(tmp, 'repo')
        subprocess.run(['rsync', '-a', '--exclude', '.git', repo.rstrip('/') + '/', dst + '/'], check=True)
        if m.get('patch'):
            pr = subprocess.run(['patch', '-p1', '-s', '-N', '-F', '3', '-i', m['patch']], cwd=dst, capture_output=True, text=True)
            if pr.returncode != 0:
                return dict(name=m['name'], outcome='skipped', detail='seed patch no longer applies: ' + (pr.stdout + pr.stderr)[-200:].replace('\n', ' '))
        for e in m['edits']:
            p = os.path.join(dst, e['file'])
            s = open(p).read()
            cnt = s.count(e['old'])
            if cnt != e.get('count', 1):
                return dict(name=m['name'], outcome='skipped', detail=f"edit anchor found {cnt}x in {e['file']}")
            s = s.replace(e['old'], e['new'])
            open(p, 'w').write(s)
        vdir = os.path.join(tmp, 'verif')
        os.makedirs(os.path.join(vdir, 'evidence'))
        shutil.copy(os.path.join(HERE, 'known-findings.json'), vdir)
        prop = prop_override or m['property']
        pr = subprocess.run([BIN, '-prop', prop, '-repo', dst, '-verif', vdir], capture_output=True, text=True)
        out = pr.stdout
        if 'load/type errors' in out or 'load error' in pr.stderr:
            return dict(name=m['name'], outcome='invalid', detail=(pr.stderr or out)[-400:])
        rule = m.get('also', {}).get(prop, m['rule']) if isinstance(m.get('also'), dict) else m['rule']
        rules = rule if isinstance(rule, list) else [rule]
        if m.get('patch'):
            # a seeded change must be reported by the property's check, whichever rule does it
            hit = [l for l in out.splitlines() if l.startswith('violation:')]
        else:
            hit = [l for l in out.splitlines() if l.startswith('violation:') and any(('rule=' + r + ' ') in l for r in rules)]
        if pr.returncode == 1 and hit:
            return dict(name=m['name'], outcome='detected', detail=hit[0][:300])
        other = [l for l in out.splitlines() if l.startswith('violation:') or l.startswith('UNDECIDED')]
        return dict(name=m['name'], outcome='MISSED', detail=f"exit={pr.returncode}; expected rule {rules}; got: {other[:3]}")
    finally:
        shutil.rmtree(tmp, ignore_errors=True)

def main():
    args = sys.argv[1:]
    prop = args[0]
    repo = '/repo'; jobs = 6; only = None
    i = 1
    while i < len(args):
        if args[i] == '--repo': repo = args[i+1]; i += 2
        elif args[i] == '--jobs': jobs = int(args[i+1]); i += 2
        elif args[i] == '--only': only = args[i+1]; i += 2
        else: i += 1
    ms = load(prop)
    if '--no-seeds' not in args:
        ms += load_seeds(prop)
    if only: ms = [m for m in ms if m['name'] == only]
    res = []
    with cf.ThreadPoolExecutor(max_workers=jobs) as ex:
        for r in ex.map(lambda m: run_one(m, repo, None if prop == 'all' else (prop if prop in m.get('also', []) else None)), ms):
            res.append(r)
            print(f"mutant {r['name']:<45} {r['outcome']:<9} {r['detail']}")
    summary = {k: sum(1 for r in res if r['outcome'] == k) for k in ('detected', 'MISSED', 'skipped', 'invalid')}
    print('MUTANTS', json.dumps(summary))
    json.dump(dict(property=prop, summary=summary, results=res), open(os.path.join(HERE, 'evidence', f'mutants-{prop}.json'), 'w'), indent=1)
    sys.exit(2 if summary['MISSED'] or summary['invalid'] else 0)

if __name__ == '__main__':
    main()
