#!/bin/bash
# first-run sweep: apply a delivered seed to /repo, run ALL checks as they stand, revert. usage: seed_firstrun.sh <seeddir>...
export GOFLAGS=-mod=mod GOPROXY=off GOSUMDB=off GOTOOLCHAIN=local; unset GOWORK
cd /verif
for S in "$@"; do
  s=$(basename $S)
  git -C /repo apply $S/patch.diff 2>/dev/null || git -C /repo apply -C1 --recount $S/patch.diff 2>/dev/null || { echo "== $s: NOAPPLY"; continue; }
  T=$(mktemp -d /var/tmp/fr.XXXX); mkdir -p $T/evidence; cp known-findings.json $T/
  out=$(${EINOCHECK:-bin/einocheck} -prop all -tier quick -repo /repo -verif $T 2>&1 | grep -E "^(VIOLATION|UNDECIDED)" | sed 's/replay=.*violations.//; s/VIOLATION property=//' | cut -c1-60 | sort -u | tr '\n' ';')
  echo "== $s: $out"
  rm -rf $T
  git -C /repo checkout -- . ; git -C /repo clean -fdq
done
