package exp

import (
	"context"
	"testing"

	"github.com/cloudwego/eino/compose"
)

type nInner struct{ A, B string }
type nSrc struct{ X, Y string }

// observation 1: two mappings into the same key of a map[string]Struct
func TestTwoMappingsIntoOneMapEntryOfStructs(t *testing.T) {
	defer func() {
		if e := recover(); e != nil {
			t.Fatalf("panic: %v", e)
		}
	}()
	src := compose.InvokableLambda(func(ctx context.Context, in string) (nSrc, error) { return nSrc{X: in + "x", Y: in + "y"}, nil })
	sink := compose.InvokableLambda(func(ctx context.Context, in map[string]nInner) (string, error) {
		return in["k"].A + "|" + in["k"].B, nil
	})
	wf := compose.NewWorkflow[string, string]()
	wf.AddLambdaNode("src", src).AddInput(compose.START)
	wf.AddLambdaNode("sink", sink).AddInput("src",
		compose.MapFieldPaths(compose.FieldPath{"X"}, compose.FieldPath{"k", "A"}),
		compose.MapFieldPaths(compose.FieldPath{"Y"}, compose.FieldPath{"k", "B"}))
	wf.End().AddInput("sink")
	r, err := wf.Compile(context.Background())
	if err != nil {
		t.Logf("compile rejected: %v", err)
		return
	}
	out, err := r.Invoke(context.Background(), "v")
	if err != nil {
		t.Fatalf("invoke: %v", err)
	}
	if out != "vx|vy" {
		t.Fatalf("got %q", out)
	}
}

// observation 4: a two-element source path through an int field
type nSrc2 struct{ N int }

func TestPathThroughScalarField(t *testing.T) {
	defer func() {
		if e := recover(); e != nil {
			t.Fatalf("panic: %v", e)
		}
	}()
	src := compose.InvokableLambda(func(ctx context.Context, in string) (nSrc2, error) { return nSrc2{N: 3}, nil })
	sink := compose.InvokableLambda(func(ctx context.Context, in map[string]any) (string, error) { return "ok", nil })
	wf := compose.NewWorkflow[string, string]()
	wf.AddLambdaNode("src", src).AddInput(compose.START)
	wf.AddLambdaNode("sink", sink).AddInput("src", compose.MapFieldPaths(compose.FieldPath{"N", "Z"}, compose.FieldPath{"z"}))
	wf.End().AddInput("sink")
	r, err := wf.Compile(context.Background())
	if err != nil {
		t.Logf("compile rejected: %v", err)
		return
	}
	_, err = r.Invoke(context.Background(), "v")
	t.Logf("run-time result: %v", err)
	if err == nil {
		t.Fatalf("accepted and ran")
	}
}
