package exp

// C05 / C06 (formerly the open finding C05.pair-table-typing, repaired by 75622b2): a Stream run is interrupted while a
// join node's channel still holds the field-mapped value it got from one predecessor (the other asked for a rerun).
// The checkpoint must be written and the run resumable, with the result Invoke gives.

import (
	"context"
	"io"
	"testing"

	"github.com/cloudwego/eino/compose"
)

func buildMapJoin(t *testing.T, interruptFirst bool, opts ...compose.GraphCompileOption) compose.Runnable[string, string] {
	calls := 0
	a := compose.InvokableLambda(func(ctx context.Context, in string) (string, error) {
		calls++
		if interruptFirst && calls == 1 {
			return "", compose.InterruptAndRerun
		}
		return "a(" + in + ")", nil
	})
	j := compose.InvokableLambda(func(ctx context.Context, in map[string]any) (string, error) {
		return in["S"].(string) + "+" + in["A"].(string), nil
	})
	wf := compose.NewWorkflow[string, string]()
	b := compose.InvokableLambda(func(ctx context.Context, in string) (string, error) { return in, nil })
	wf.AddLambdaNode("b", b).AddInput(compose.START)
	wf.AddLambdaNode("a", a).AddInput("b")
	wf.AddLambdaNode("j", j).AddInput("b", compose.ToField("S")).AddInput("a", compose.ToField("A"))
	wf.End().AddInput("j")
	r, err := wf.Compile(context.Background(), opts...)
	if err != nil {
		t.Fatal(err)
	}
	return r
}

func drain(t *testing.T, sr interface {
	Recv() (string, error)
	Close()
}) string {
	defer sr.Close()
	out := ""
	for {
		c, err := sr.Recv()
		if err == io.EOF {
			return out
		}
		if err != nil {
			t.Fatalf("recv: %v", err)
		}
		out += c
	}
}

func TestMapJoinUninterrupted(t *testing.T) {
	r := buildMapJoin(t, false)
	sr, err := r.Stream(context.Background(), "x")
	if err != nil {
		t.Fatal(err)
	}
	if out := drain(t, sr); out != "x+a(x)" {
		t.Fatalf("got %q", out)
	}
}

func TestMapJoinInterruptedAndResumed(t *testing.T) {
	store := &lStore{m: map[string][]byte{}}
	r := buildMapJoin(t, true, compose.WithCheckPointStore(store))
	sr, err := r.Stream(context.Background(), "x", compose.WithCheckPointID("1"))
	if err == nil {
		sr.Close()
		t.Fatal("expected an interrupt")
	}
	if _, ok := compose.ExtractInterruptInfo(err); !ok {
		t.Fatalf("not an interrupt error: %v", err)
	}
	if _, ok := store.m["1"]; !ok {
		t.Fatal("no checkpoint written")
	}
	sr, err = r.Stream(context.Background(), "ignored", compose.WithCheckPointID("1"))
	if err != nil {
		t.Fatalf("resume: %v", err)
	}
	if out := drain(t, sr); out != "x+a()" /* a rerun node is re-run on the zero input, as under Invoke (v2_test.go) */ {
		t.Fatalf("got %q", out)
	}
}
