package exp

import (
	"context"
	"fmt"
	"testing"

	"github.com/cloudwego/eino/compose"
)

type Inner struct{ B, C string }
type Out struct {
	A  Inner
	X  string
}
type Src struct {
	I  Inner
	S  string
	An any
}

func wf(order int) (compose.Runnable[Src, Out], error) {
	w := compose.NewWorkflow[Src, Out]()
	n := w.AddLambdaNode("n", compose.InvokableLambda(func(ctx context.Context, in Out) (Out, error) { return in, nil }))
	if order == 0 {
		n.AddInput(compose.START, compose.MapFieldPaths(compose.FieldPath{"I"}, compose.FieldPath{"A"}), compose.MapFieldPaths(compose.FieldPath{"S"}, compose.FieldPath{"A", "B"}))
	} else {
		n.AddInput(compose.START, compose.MapFieldPaths(compose.FieldPath{"S"}, compose.FieldPath{"A", "B"}), compose.MapFieldPaths(compose.FieldPath{"I"}, compose.FieldPath{"A"}))
	}
	w.End().AddInput("n")
	return w.Compile(context.Background())
}

func TestOverlapOrder(t *testing.T) {
	for o := 0; o < 2; o++ {
		r, err := wf(o)
		fmt.Println("order", o, "compile err:", err)
		if err == nil {
			for i := 0; i < 5; i++ {
				out, err := r.Invoke(context.Background(), Src{I: Inner{B: "ib", C: "ic"}, S: "s"})
				fmt.Printf("  run -> %+v %v\n", out, err)
			}
		}
	}
}

type Out2 struct{ X any }

func TestNilIface(t *testing.T) {
	defer func() { fmt.Println("recovered:", recover()) }()
	w := compose.NewWorkflow[Src, Out2]()
	w.End().AddInput(compose.START, compose.MapFieldPaths(compose.FieldPath{"An", "B"}, compose.FieldPath{"X"}))
	r, err := w.Compile(context.Background())
	fmt.Println("compile:", err)
	out, err := r.Invoke(context.Background(), Src{An: nil})
	fmt.Println(out, err)
}

type HasAny struct{ P any }
func TestNilIface2(t *testing.T) {
	defer func() { fmt.Println("recovered2:", recover()) }()
	w := compose.NewWorkflow[Src, Out2]()
	w.End().AddInput(compose.START, compose.MapFieldPaths(compose.FieldPath{"An", "P"}, compose.FieldPath{"X"}))
	r, err := w.Compile(context.Background())
	fmt.Println("compile:", err)
	out, err := r.Invoke(context.Background(), Src{An: HasAny{}})
	fmt.Println(out, err)
}

// C20: compile twice
func TestRecompile(t *testing.T) {
	w := compose.NewWorkflow[Src, Out]()
	w.End().AddInput(compose.START, compose.MapFieldPaths(compose.FieldPath{"S"}, compose.FieldPath{"X"}))
	r1, err := w.Compile(context.Background())
	fmt.Println("compile1:", err)
	out, err := r1.Invoke(context.Background(), Src{S: "s"})
	fmt.Printf("r1 before: %+v %v\n", out, err)
	func() {
		defer func() { fmt.Println("recovered compile2:", recover()) }()
		_, err = w.Compile(context.Background())
		fmt.Println("compile2:", err)
	}()
	func() {
		defer func() { fmt.Println("recovered run:", recover()) }()
		out, err = r1.Invoke(context.Background(), Src{S: "s"})
		fmt.Printf("r1 after: %+v %v\n", out, err)
	}()
}
