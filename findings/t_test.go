package exp

// t: nil interface values on paths that assert to a type parameter without comma-ok.
// (1) schema.StreamReaderWithConvert over an interface-typed stream with a nil item: Recv panics
// (2) a compiled Graph[string, any] whose last node returns a nil interface: Invoke panics?
// (3) a stream of `any` (nil item) consumed by a node that takes an interface type: unpackStreamReader's converter

import (
	"context"
	"io"
	"testing"

	"github.com/cloudwego/eino/compose"
	"github.com/cloudwego/eino/schema"
)

func TestT1ConvertNilInterfaceItem(t *testing.T) {
	sr, sw := schema.Pipe[any](3)
	sw.Send(1, nil)
	sw.Send(nil, nil)
	sw.Send(3, nil)
	sw.Close()
	c := schema.StreamReaderWithConvert(sr, func(a any) (any, error) { return a, nil })
	defer c.Close()
	var got []any
	for {
		v, err := c.Recv()
		if err == io.EOF {
			break
		}
		if err != nil {
			t.Fatal(err)
		}
		got = append(got, v)
	}
	if len(got) != 3 {
		t.Fatalf("got %v", got)
	}
}

func TestT2GraphNilInterfaceOutput(t *testing.T) {
	g := compose.NewGraph[string, any]()
	_ = g.AddLambdaNode("a", compose.InvokableLambda(func(ctx context.Context, in string) (any, error) { return nil, nil }))
	_ = g.AddEdge(compose.START, "a")
	_ = g.AddEdge("a", compose.END)
	r, err := g.Compile(context.Background())
	if err != nil {
		t.Fatal(err)
	}
	out, err := r.Invoke(context.Background(), "x")
	t.Logf("out=%v err=%v", out, err)
	if err != nil {
		t.Fatal(err)
	}
}

type iface interface{ M() }

func TestT3StreamNilInterfaceBetweenNodes(t *testing.T) {
	g := compose.NewGraph[string, any]()
	_ = g.AddLambdaNode("a", compose.StreamableLambda(func(ctx context.Context, in string) (*schema.StreamReader[any], error) {
		return schema.StreamReaderFromArray([]any{1, nil, 3}), nil
	}))
	_ = g.AddLambdaNode("b", compose.TransformableLambda(func(ctx context.Context, in *schema.StreamReader[any]) (*schema.StreamReader[any], error) {
		return in, nil
	}))
	_ = g.AddEdge(compose.START, "a")
	_ = g.AddEdge("a", "b")
	_ = g.AddEdge("b", compose.END)
	r, err := g.Compile(context.Background())
	if err != nil {
		t.Fatal(err)
	}
	s, err := r.Stream(context.Background(), "x")
	if err != nil {
		t.Fatal(err)
	}
	n := 0
	for {
		_, err := s.Recv()
		if err == io.EOF {
			break
		}
		if err != nil {
			t.Fatal(err)
		}
		n++
	}
	if n != 3 {
		t.Fatalf("n=%d", n)
	}
}

type tIface interface{ M() }
type tImpl struct{}

func (tImpl) M() {}

// (4) upstream streams an interface type with a nil item, downstream takes `any`: unpackStreamReader's converter asserts t.(T)
func TestT4StreamNilInterfaceWidened(t *testing.T) {
	g := compose.NewGraph[string, any]()
	_ = g.AddLambdaNode("a", compose.StreamableLambda(func(ctx context.Context, in string) (*schema.StreamReader[tIface], error) {
		return schema.StreamReaderFromArray([]tIface{tImpl{}, nil, tImpl{}}), nil
	}))
	_ = g.AddLambdaNode("b", compose.TransformableLambda(func(ctx context.Context, in *schema.StreamReader[any]) (*schema.StreamReader[any], error) {
		return in, nil
	}))
	_ = g.AddEdge(compose.START, "a")
	_ = g.AddEdge("a", "b")
	_ = g.AddEdge("b", compose.END)
	r, err := g.Compile(context.Background())
	if err != nil {
		t.Fatal(err)
	}
	s, err := r.Stream(context.Background(), "x")
	if err != nil {
		t.Fatal(err)
	}
	n := 0
	for {
		_, err := s.Recv()
		if err == io.EOF {
			break
		}
		if err != nil {
			t.Fatal(err)
		}
		n++
	}
	if n != 3 {
		t.Fatalf("n=%d", n)
	}
}
