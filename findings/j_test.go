package exp

import (
	"context"
	"fmt"
	"testing"

	"github.com/cloudwego/eino/compose"
)

type srcAny struct {
	A any
	B any
}
type dstTyped struct {
	X int
	Y string
}

// two run-time-checked mappings: any->int and any->string
func TestTwoRuntimeCheckedMappings(t *testing.T) {
	defer func() {
		if e := recover(); e != nil {
			t.Fatalf("panic: %v", e)
		}
	}()
	for _, order := range [][2]*compose.FieldMapping{
		{compose.MapFields("A", "X"), compose.MapFields("B", "Y")},
		{compose.MapFields("B", "Y"), compose.MapFields("A", "X")},
	} {
		w := compose.NewWorkflow[srcAny, dstTyped]()
		w.End().AddInput(compose.START, order[0], order[1])
		r, err := w.Compile(context.Background())
		if err != nil {
			t.Fatal(err)
		}
		out, err := r.Invoke(context.Background(), srcAny{A: 1, B: "s"})
		fmt.Printf("valid values: out=%+v err=%v\n", out, err)
		if err != nil {
			t.Errorf("valid values rejected: %v", err)
		}
	}
}
