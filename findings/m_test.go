package exp

import (
	"context"
	"strings"
	"testing"

	"github.com/cloudwego/eino/compose"
)

type mState struct{ Log []string }

func init() { _ = compose.RegisterSerializableType[mState]("m_state") }

// C11 / C05: a graph WITHOUT own state nested in a stateful parent works on the parent's state. When the
// nested graph is interrupted and resumed, updates its nodes make after the resume must still land in the
// parent's state.
func TestNestedStatelessGraphKeepsParentStateAcrossResume(t *testing.T) {
	logTo := func(tag string) *compose.Lambda {
		return compose.InvokableLambda(func(ctx context.Context, in string) (string, error) {
			err := compose.ProcessState[*mState](ctx, func(_ context.Context, s *mState) error {
				s.Log = append(s.Log, tag)
				return nil
			})
			return in, err
		})
	}
	sub := compose.NewGraph[string, string]()
	_ = sub.AddLambdaNode("a", logTo("sub.a"))
	_ = sub.AddLambdaNode("b", logTo("sub.b"))
	_ = sub.AddEdge(compose.START, "a")
	_ = sub.AddEdge("a", "b")
	_ = sub.AddEdge("b", compose.END)

	g := compose.NewGraph[string, string](compose.WithGenLocalState(func(ctx context.Context) *mState { return &mState{} }))
	_ = g.AddGraphNode("sub", sub, compose.WithGraphCompileOptions(compose.WithInterruptBeforeNodes([]string{"b"})))
	_ = g.AddLambdaNode("fin", compose.InvokableLambda(func(ctx context.Context, in string) (string, error) {
		out := ""
		err := compose.ProcessState[*mState](ctx, func(_ context.Context, s *mState) error {
			out = strings.Join(s.Log, ",")
			return nil
		})
		return out, err
	}))
	_ = g.AddEdge(compose.START, "sub")
	_ = g.AddEdge("sub", "fin")
	_ = g.AddEdge("fin", compose.END)
	store := &lStore{m: map[string][]byte{}}
	r, err := g.Compile(context.Background(), compose.WithCheckPointStore(store))
	if err != nil {
		t.Fatal(err)
	}
	_, err = r.Invoke(context.Background(), "x", compose.WithCheckPointID("1"))
	if _, ok := compose.ExtractInterruptInfo(err); !ok {
		t.Fatalf("expected an interrupt, got %v", err)
	}
	out, err := r.Invoke(context.Background(), "x", compose.WithCheckPointID("1"))
	if err != nil {
		t.Fatalf("resume: %v", err)
	}
	if out != "sub.a,sub.b" {
		t.Fatalf("parent state after resume: %q, want %q", out, "sub.a,sub.b")
	}
}
