package exp

import (
	"context"
	"fmt"
	"sync"
	"testing"

	"github.com/cloudwego/eino/compose"
)

// C20: workflow branch to unknown node
func TestWfBranchUnknown(t *testing.T) {
	defer func() { fmt.Println("recovered:", recover()) }()
	w := compose.NewWorkflow[string, string]()
	w.AddLambdaNode("a", compose.InvokableLambda(func(ctx context.Context, in string) (string, error) { return in, nil })).AddInput(compose.START)
	w.AddBranch("a", compose.NewGraphBranch(func(ctx context.Context, in string) (string, error) { return "x", nil }, map[string]bool{"x": true, compose.END: true}))
	w.End().AddInput("a")
	_, err := w.Compile(context.Background())
	fmt.Println("compile err:", err)
}

type memStore struct {
	mu sync.Mutex
	m  map[string][]byte
}

func (s *memStore) Get(ctx context.Context, id string) ([]byte, bool, error) {
	s.mu.Lock(); defer s.mu.Unlock()
	b, ok := s.m[id]
	return b, ok, nil
}
func (s *memStore) Set(ctx context.Context, id string, b []byte) error {
	s.mu.Lock(); defer s.mu.Unlock()
	s.m[id] = b
	return nil
}

// C06: interrupt-before on a direct successor of START
func TestInterruptBeforeFirst(t *testing.T) {
	var log []string
	g := compose.NewGraph[string, string]()
	_ = g.AddLambdaNode("a", compose.InvokableLambda(func(ctx context.Context, in string) (string, error) { log = append(log, "a"); return in + "a", nil }))
	_ = g.AddLambdaNode("b", compose.InvokableLambda(func(ctx context.Context, in string) (string, error) { log = append(log, "b"); return in + "b", nil }))
	_ = g.AddEdge(compose.START, "a")
	_ = g.AddEdge("a", "b")
	_ = g.AddEdge("b", compose.END)
	st := &memStore{m: map[string][]byte{}}
	r, err := g.Compile(context.Background(), compose.WithCheckPointStore(st), compose.WithInterruptBeforeNodes([]string{"a"}))
	if err != nil { t.Fatal(err) }
	out, err := r.Invoke(context.Background(), "x", compose.WithCheckPointID("1"))
	info, ok := compose.ExtractInterruptInfo(err)
	fmt.Println("out:", out, "err:", err, "interrupt:", ok, info, "log:", log)
}

// C05: stale nested checkpoint in a loop
func TestStaleNested(t *testing.T) {
	var log []string
	cnt := 0
	sub := compose.NewGraph[string, string]()
	_ = sub.AddLambdaNode("s1", compose.InvokableLambda(func(ctx context.Context, in string) (string, error) { log = append(log, "s1("+in+")"); return in + "1", nil }))
	_ = sub.AddLambdaNode("s2", compose.InvokableLambda(func(ctx context.Context, in string) (string, error) { log = append(log, "s2("+in+")"); return in + "2", nil }))
	_ = sub.AddEdge(compose.START, "s1")
	_ = sub.AddEdge("s1", "s2")
	_ = sub.AddEdge("s2", compose.END)

	g := compose.NewGraph[string, string]()
	_ = g.AddGraphNode("sub", sub, compose.WithGraphCompileOptions(compose.WithInterruptBeforeNodes([]string{"s2"})))
	_ = g.AddLambdaNode("chk", compose.InvokableLambda(func(ctx context.Context, in string) (string, error) { log = append(log, "chk("+in+")"); return in, nil }))
	_ = g.AddEdge(compose.START, "sub")
	_ = g.AddEdge("sub", "chk")
	_ = g.AddBranch("chk", compose.NewGraphBranch(func(ctx context.Context, in string) (string, error) {
		cnt++
		if cnt >= 2 { return compose.END, nil }
		return "sub", nil
	}, map[string]bool{"sub": true, compose.END: true}))
	st := &memStore{m: map[string][]byte{}}
	r, err := g.Compile(context.Background(), compose.WithCheckPointStore(st))
	if err != nil { t.Fatal(err) }
	for i := 0; i < 6; i++ {
		out, err := r.Invoke(context.Background(), "x", compose.WithCheckPointID("1"))
		_, ok := compose.ExtractInterruptInfo(err)
		fmt.Println("call", i, "out:", out, "interrupt:", ok, "err?", err != nil && !ok, "log:", log)
		if err == nil { break }
		if !ok { fmt.Println(err); break }
	}
}
