package exp

import (
	"context"
	"io"
	"strings"
	"testing"

	"github.com/cloudwego/eino/compose"
	"github.com/cloudwego/eino/schema"
)

// C04 / C15: a workflow whose mappings are only checkable at run time (map[string]any -> typed struct
// fields) must behave the same through Invoke and through Stream. Before fix 882b9bd the combined
// run-time checker packed its stream form as StreamReader[any]; the successor's stream converter
// unpacks StreamReader[map[string]any] and panicked ("mappingStreamAssign incoming streamReader chunk
// type not map[string]any"): Invoke worked, Stream panicked.
type kSinkIn struct {
	Name  string
	Count int
}

func init() {
	compose.RegisterStreamChunkConcatFunc(func(items []kSinkIn) (kSinkIn, error) {
		var ret kSinkIn
		for _, it := range items {
			ret.Name += it.Name
			if it.Count != 0 {
				ret.Count = it.Count
			}
		}
		return ret, nil
	})
}

func TestRuntimeCheckedMappingStreamEqualsInvoke(t *testing.T) {
	defer func() {
		if e := recover(); e != nil {
			t.Fatalf("panic: %v", e)
		}
	}()
	src := compose.InvokableLambda(func(ctx context.Context, in string) (map[string]any, error) {
		return map[string]any{"name": in, "count": len(in)}, nil
	})
	sink := compose.InvokableLambda(func(ctx context.Context, in kSinkIn) (string, error) {
		return in.Name + ":" + strings.Repeat("#", in.Count), nil
	})
	wf := compose.NewWorkflow[string, string]()
	wf.AddLambdaNode("src", src).AddInput(compose.START)
	wf.AddLambdaNode("sink", sink).AddInput("src", compose.MapFields("name", "Name"), compose.MapFields("count", "Count"))
	wf.End().AddInput("sink")
	r, err := wf.Compile(context.Background())
	if err != nil {
		t.Fatal(err)
	}
	want, err := r.Invoke(context.Background(), "abcd")
	if err != nil {
		t.Fatal(err)
	}
	sr, err := r.Stream(context.Background(), "abcd")
	if err != nil {
		t.Fatalf("Stream: %v", err)
	}
	defer sr.Close()
	var sb strings.Builder
	for {
		c, err := sr.Recv()
		if err == io.EOF {
			break
		}
		if err != nil {
			t.Fatalf("Stream recv: %v", err)
		}
		sb.WriteString(c)
	}
	if sb.String() != want {
		t.Fatalf("Stream=%q Invoke=%q", sb.String(), want)
	}
	_ = schema.User
}
