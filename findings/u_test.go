package exp

// u: the first tool call of a message runs inline in the tools node's goroutine; when it panicked the node returned
// (the panic travelling on) without waiting for the other calls (before fix a15e514). After the fix Invoke returns only
// when every started tool call has ended.

import (
	"context"
	"sync/atomic"
	"testing"
	"time"

	"github.com/cloudwego/eino/components/tool"
	"github.com/cloudwego/eino/compose"
	"github.com/cloudwego/eino/schema"
)

type uTool struct {
	name string
	run  func(ctx context.Context, arg string) (string, error)
}

func (x *uTool) Info(ctx context.Context) (*schema.ToolInfo, error) {
	return &schema.ToolInfo{Name: x.name}, nil
}
func (x *uTool) InvokableRun(ctx context.Context, arg string, opts ...tool.Option) (string, error) {
	return x.run(ctx, arg)
}

func TestUFirstToolPanicsOthersAreWaitedFor(t *testing.T) {
	ctx := context.Background()
	var slowDone int32
	started := make(chan struct{})
	tn, err := compose.NewToolNode(ctx, &compose.ToolsNodeConfig{Tools: []tool.BaseTool{
		&uTool{"boom", func(ctx context.Context, arg string) (string, error) { <-started; panic("tool boom") }},
		&uTool{"slow", func(ctx context.Context, arg string) (string, error) {
			close(started)
			time.Sleep(300 * time.Millisecond)
			atomic.StoreInt32(&slowDone, 1)
			return "done", nil
		}},
	}})
	if err != nil {
		t.Fatal(err)
	}
	g := compose.NewGraph[*schema.Message, []*schema.Message]()
	_ = g.AddToolsNode("tools", tn)
	_ = g.AddEdge(compose.START, "tools")
	_ = g.AddEdge("tools", compose.END)
	r, err := g.Compile(ctx)
	if err != nil {
		t.Fatal(err)
	}
	msg := &schema.Message{Role: schema.Assistant, ToolCalls: []schema.ToolCall{
		{ID: "c0", Function: schema.FunctionCall{Name: "boom", Arguments: "{}"}},
		{ID: "c1", Function: schema.FunctionCall{Name: "slow", Arguments: "{}"}},
	}}
	_, err = r.Invoke(ctx, msg)
	if err == nil {
		t.Fatal("expected the run to fail with the tool's panic")
	}
	if atomic.LoadInt32(&slowDone) != 1 {
		t.Fatal("Invoke returned while tool call 'slow' was still running")
	}
}
