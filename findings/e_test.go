package exp

import (
	"context"
	"fmt"
	"testing"

	"github.com/cloudwego/eino/compose"
)

// C07: passthrough type overwritten by a later AddBranch
func TestPassthroughOverwrite(t *testing.T) {
	g := compose.NewGraph[string, string]()
	fmt.Println(g.AddPassthroughNode("p"))
	fmt.Println(g.AddEdge(compose.START, "p"))
	fmt.Println(g.AddLambdaNode("a", compose.InvokableLambda(func(ctx context.Context, in int) (string, error) { return "a", nil })))
	fmt.Println(g.AddLambdaNode("b", compose.InvokableLambda(func(ctx context.Context, in int) (string, error) { return "b", nil })))
	fmt.Println(g.AddBranch("p", compose.NewGraphBranch(func(ctx context.Context, in int) (string, error) { return "a", nil }, map[string]bool{"a": true, "b": true})))
	fmt.Println(g.AddEdge("a", compose.END))
	fmt.Println(g.AddEdge("b", compose.END))
	r, err := g.Compile(context.Background())
	fmt.Println("compile:", err)
	if err != nil {
		return
	}
	defer func() { fmt.Println("recovered:", recover()) }()
	out, err := r.Invoke(context.Background(), "x")
	fmt.Println(out, err)
}
