package exp

import (
	"context"
	"testing"

	"github.com/cloudwego/eino/compose"
)

func TestInterruptBeforeFirstResume(t *testing.T) {
	var log []string
	g := compose.NewGraph[string, string]()
	_ = g.AddLambdaNode("a", compose.InvokableLambda(func(ctx context.Context, in string) (string, error) { log = append(log, "a"); return in + "a", nil }))
	_ = g.AddLambdaNode("b", compose.InvokableLambda(func(ctx context.Context, in string) (string, error) { log = append(log, "b"); return in + "b", nil }))
	_ = g.AddEdge(compose.START, "a")
	_ = g.AddEdge("a", "b")
	_ = g.AddEdge("b", compose.END)
	st := &memStore{m: map[string][]byte{}}
	r, err := g.Compile(context.Background(), compose.WithCheckPointStore(st), compose.WithInterruptBeforeNodes([]string{"a"}))
	if err != nil {
		t.Fatal(err)
	}
	_, err = r.Invoke(context.Background(), "x", compose.WithCheckPointID("1"))
	if _, ok := compose.ExtractInterruptInfo(err); !ok {
		t.Fatalf("expected interrupt, got %v", err)
	}
	if len(log) != 0 {
		t.Fatalf("a ran before interrupt: %v", log)
	}
	out, err := r.Invoke(context.Background(), "ignored", compose.WithCheckPointID("1"))
	if err != nil || out != "xab" {
		t.Fatalf("resume: out=%q err=%v log=%v", out, err, log)
	}
	// stream paradigm
	log = nil
	_, err = r.Stream(context.Background(), "y", compose.WithCheckPointID("2"))
	if _, ok := compose.ExtractInterruptInfo(err); !ok {
		t.Fatalf("expected interrupt (stream), got %v", err)
	}
	sr, err := r.Stream(context.Background(), "ignored", compose.WithCheckPointID("2"))
	if err != nil {
		t.Fatal(err)
	}
	s, err := sr.Recv()
	if err != nil || s != "yab" {
		t.Fatalf("stream resume: %q %v", s, err)
	}
}
