package exp

import (
	"context"
	"testing"

	"github.com/cloudwego/eino/compose"
)

type sState struct {
	Arr [3]int
	N   int
}

func init() { _ = compose.RegisterSerializableType[sState]("s_state") }

// C12 / C05: a state with an array field is checkpointed without error; resuming used to PANIC in the
// serializer (reflect.Set: value of type []int is not assignable to type [3]int) instead of returning an error.
func TestArrayFieldInStateResumeDoesNotPanic(t *testing.T) {
	defer func() {
		if e := recover(); e != nil {
			t.Fatalf("panic: %v", e)
		}
	}()
	g := compose.NewGraph[string, string](compose.WithGenLocalState(func(ctx context.Context) *sState { return &sState{Arr: [3]int{1, 2, 3}} }))
	_ = g.AddLambdaNode("a", compose.InvokableLambda(func(ctx context.Context, in string) (string, error) { return in + "a", nil }))
	_ = g.AddLambdaNode("b", compose.InvokableLambda(func(ctx context.Context, in string) (string, error) { return in + "b", nil }))
	_ = g.AddEdge(compose.START, "a")
	_ = g.AddEdge("a", "b")
	_ = g.AddEdge("b", compose.END)
	store := &lStore{m: map[string][]byte{}}
	r, err := g.Compile(context.Background(), compose.WithCheckPointStore(store), compose.WithInterruptBeforeNodes([]string{"b"}))
	if err != nil {
		t.Fatal(err)
	}
	_, err = r.Invoke(context.Background(), "x", compose.WithCheckPointID("1"))
	if _, ok := compose.ExtractInterruptInfo(err); !ok {
		t.Fatalf("expected interrupt: %v", err)
	}
	out, err := r.Invoke(context.Background(), "x", compose.WithCheckPointID("1"))
	t.Logf("resume: out=%q err=%v", out, err)
	// either it round-trips, or it fails loudly with an error: never a panic
}
