package exp

import (
	"context"
	"testing"

	"github.com/cloudwego/eino/compose"
)

func TestMapJoinInterruptedAndResumedInvoke(t *testing.T) {
	store := &lStore{m: map[string][]byte{}}
	r := buildMapJoin(t, true, compose.WithCheckPointStore(store))
	_, err := r.Invoke(context.Background(), "x", compose.WithCheckPointID("1"))
	if _, ok := compose.ExtractInterruptInfo(err); !ok {
		t.Fatalf("not an interrupt error: %v", err)
	}
	out, err := r.Invoke(context.Background(), "ignored", compose.WithCheckPointID("1"))
	if err != nil {
		t.Fatalf("resume: %v", err)
	}
	t.Logf("invoke resume gives %q", out)
	if out != "x+a()" {
		t.Fatalf("got %q", out)
	}
}
