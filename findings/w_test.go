package exp

import (
	"context"
	"testing"

	"github.com/cloudwego/eino/compose"
)

// sender typed any -> receiver typed string (run-time checked edge), pending in the receiver's channel at an interrupt
func TestRuntimeConvertedPendingValue(t *testing.T) {
	for _, stream := range []bool{false, true} {
		calls := 0
		g := compose.NewGraph[string, string]()
		_ = g.AddLambdaNode("s", compose.InvokableLambda(func(ctx context.Context, in string) (any, error) { return "v:" + in, nil }))
		_ = g.AddLambdaNode("slow", compose.InvokableLambda(func(ctx context.Context, in string) (string, error) {
			calls++
			if calls == 1 {
				return "", compose.InterruptAndRerun
			}
			return "slow", nil
		}))
		_ = g.AddLambdaNode("j", compose.InvokableLambda(func(ctx context.Context, in map[string]any) (string, error) {
			return in["a"].(string) + "|" + in["b"].(string), nil
		}))
		_ = g.AddLambdaNode("r", compose.InvokableLambda(func(ctx context.Context, in string) (string, error) { return in, nil }), compose.WithOutputKey("a"))
		_ = g.AddLambdaNode("slow2", compose.InvokableLambda(func(ctx context.Context, in string) (string, error) { return in, nil }), compose.WithOutputKey("b"))
		_ = g.AddEdge(compose.START, "s")
		_ = g.AddEdge(compose.START, "slow")
		_ = g.AddEdge("s", "r")
		_ = g.AddEdge("slow", "slow2")
		_ = g.AddEdge("r", "j")
		_ = g.AddEdge("slow2", "j")
		_ = g.AddEdge("j", compose.END)
		store := &lStore{m: map[string][]byte{}}
		r, err := g.Compile(context.Background(), compose.WithCheckPointStore(store), compose.WithNodeTriggerMode(compose.AllPredecessor))
		if err != nil {
			t.Fatal(err)
		}
		run := func(in string) (string, error) {
			if !stream {
				return r.Invoke(context.Background(), in, compose.WithCheckPointID("1"))
			}
			sr, err := r.Stream(context.Background(), in, compose.WithCheckPointID("1"))
			if err != nil {
				return "", err
			}
			return drain(t, sr), nil
		}
		_, err = run("x")
		if _, ok := compose.ExtractInterruptInfo(err); !ok {
			t.Fatalf("stream=%v: not an interrupt error: %v", stream, err)
		}
		out, err := run("ignored")
		if err != nil {
			t.Fatalf("stream=%v: resume: %v", stream, err)
		}
		t.Logf("stream=%v: %q", stream, out)
	}
}
