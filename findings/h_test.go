package exp

import (
	"testing"

	"github.com/cloudwego/eino/schema"
)

func TestConcatNilExtraNoPanic(t *testing.T) {
	_, err := schema.ConcatMessages([]*schema.Message{
		{Role: schema.Assistant, Extra: map[string]any{"k": nil}},
		{Role: schema.Assistant, Extra: map[string]any{"k": nil}},
	})
	if err == nil {
		t.Log("no error (value returned)")
	} else {
		t.Log("error:", err)
	}
}
