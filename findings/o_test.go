package exp

import (
	"context"
	"testing"

	"github.com/cloudwego/eino/compose"
)

type oSrc struct{ M map[string]any }

// observation 2: FromField (whole successor input taken from a field) on one edge plus ToField on another
func TestFromFieldWholeInputPlusToField(t *testing.T) {
	defer func() {
		if e := recover(); e != nil {
			t.Fatalf("panic: %v", e)
		}
	}()
	shared := map[string]any{"k": "v"}
	a := compose.InvokableLambda(func(ctx context.Context, in string) (oSrc, error) { return oSrc{M: shared}, nil })
	b := compose.InvokableLambda(func(ctx context.Context, in string) (string, error) { return "fromB", nil })
	j := compose.InvokableLambda(func(ctx context.Context, in map[string]any) (string, error) { return "ok", nil })
	for _, order := range []int{0, 1} {
		wf := compose.NewWorkflow[string, string]()
		wf.AddLambdaNode("a", a).AddInput(compose.START)
		wf.AddLambdaNode("b", b).AddInput(compose.START)
		n := wf.AddLambdaNode("j", j)
		if order == 0 {
			n.AddInput("a", compose.FromField("M")).AddInput("b", compose.ToField("y"))
		} else {
			n.AddInput("b", compose.ToField("y")).AddInput("a", compose.FromField("M"))
		}
		wf.End().AddInput("j")
		r, err := wf.Compile(context.Background())
		if err != nil {
			t.Logf("order %d: compile rejected: %v", order, err)
			continue
		}
		_, err = r.Invoke(context.Background(), "x")
		t.Logf("order %d: accepted; run err=%v; predecessor's map afterwards: %v", order, err, shared)
		if len(shared) != 1 {
			t.Errorf("order %d: the predecessor's output map was modified: %v", order, shared)
		}
	}
}
