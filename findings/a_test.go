package exp

import (
	"context"
	"errors"
	"fmt"
	"testing"

	"github.com/cloudwego/eino/compose"
	"github.com/cloudwego/eino/schema"
)

// C13: sentinel match
func TestMaxSteps(t *testing.T) {
	g := compose.NewGraph[string, string]()
	_ = g.AddLambdaNode("a", compose.InvokableLambda(func(ctx context.Context, in string) (string, error) { return in, nil }))
	_ = g.AddLambdaNode("b", compose.InvokableLambda(func(ctx context.Context, in string) (string, error) { return in, nil }))
	_ = g.AddEdge(compose.START, "a")
	_ = g.AddEdge("a", "b")
	_ = g.AddBranch("b", compose.NewGraphBranch(func(ctx context.Context, in string) (string, error) { return "a", nil }, map[string]bool{"a": true, compose.END: true}))
	r, err := g.Compile(context.Background(), compose.WithMaxRunSteps(5))
	if err != nil {
		t.Fatal(err)
	}
	_, err = r.Invoke(context.Background(), "x")
	fmt.Println("err:", err)
	fmt.Println("errors.Is(ErrExceedMaxSteps):", errors.Is(err, compose.ErrExceedMaxSteps))
}

var myErr = errors.New("my sentinel")

func TestNodeErr(t *testing.T) {
	g := compose.NewGraph[string, string]()
	_ = g.AddLambdaNode("a", compose.InvokableLambda(func(ctx context.Context, in string) (string, error) { return "", myErr }))
	_ = g.AddEdge(compose.START, "a")
	_ = g.AddEdge("a", compose.END)
	r, err := g.Compile(context.Background())
	if err != nil {
		t.Fatal(err)
	}
	_, err = r.Invoke(context.Background(), "x")
	fmt.Println("errors.Is(myErr):", errors.Is(err, myErr))
	ctx, cancel := context.WithCancel(context.Background())
	cancel()
	_, err = r.Invoke(ctx, "x")
	fmt.Println("cancel err:", err, "| errors.Is(context.Canceled):", errors.Is(err, context.Canceled))
}

// C14
func TestConcatNilExtra(t *testing.T) {
	defer func() { fmt.Println("recovered:", recover()) }()
	m, err := schema.ConcatMessages([]*schema.Message{
		{Role: schema.Assistant, Extra: map[string]any{"k": nil}},
		{Role: schema.Assistant, Extra: map[string]any{"k": nil}},
	})
	fmt.Println(m, err)
}
