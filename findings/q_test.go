package exp

import (
	"context"
	"sync"
	"sync/atomic"
	"testing"

	"github.com/cloudwego/eino/compose"
)

// C03/C05: eager Workflow START->P; P->A; P->C; N<-{P,A}; END<-{N,C}. A is interrupt-after, C asks for a rerun
// and is still running when A's completion is handled. Before the fix the resumed run died with
// "no tasks to execute" (A resolved twice, N's pending input dropped) — only in this completion order.
type qState struct{ CIn string }

func init() { _ = compose.RegisterSerializableType[qState]("q_state") }

func TestEagerInterruptAfterPlusLateRerun(t *testing.T) {
	build := func(interrupting bool, opts ...compose.GraphCompileOption) compose.Runnable[string, map[string]any] {
		var cCalls int32
		aHandled := make(chan struct{})
		var once sync.Once
		wf := compose.NewWorkflow[string, map[string]any](compose.WithGenLocalState(func(ctx context.Context) *qState { return &qState{} }))
		wf.AddLambdaNode("P", compose.InvokableLambda(func(ctx context.Context, in string) (string, error) { return in + "-P", nil })).AddInput(compose.START)
		wf.AddLambdaNode("A", compose.InvokableLambda(func(ctx context.Context, in string) (string, error) { return in + "-A", nil }),
			compose.WithStatePostHandler(func(ctx context.Context, out string, s *qState) (string, error) {
				once.Do(func() { close(aHandled) })
				return out, nil
			})).AddInput("P")
		wf.AddLambdaNode("C", compose.InvokableLambda(func(ctx context.Context, in string) (string, error) {
			if interrupting && atomic.AddInt32(&cCalls, 1) == 1 {
				<-aHandled
				return "", compose.InterruptAndRerun
			}
			return in + "-C", nil
		}), compose.WithStatePreHandler(func(ctx context.Context, in string, s *qState) (string, error) {
			if in == "" {
				return s.CIn, nil
			}
			s.CIn = in
			return in, nil
		})).AddInput("P")
		wf.AddLambdaNode("N", compose.InvokableLambda(func(ctx context.Context, in map[string]any) (string, error) {
			p, _ := in["p"].(string)
			a, _ := in["a"].(string)
			return "N(" + p + "," + a + ")", nil
		})).AddInput("P", compose.ToField("p")).AddInput("A", compose.ToField("a"))
		wf.End().AddInput("N", compose.ToField("n")).AddInput("C", compose.ToField("c"))
		r, err := wf.Compile(context.Background(), opts...)
		if err != nil {
			t.Fatal(err)
		}
		return r
	}
	ctx := context.Background()
	want, err := build(false).Invoke(ctx, "in")
	if err != nil {
		t.Fatal(err)
	}
	r := build(true, compose.WithCheckPointStore(&lStore{m: map[string][]byte{}}), compose.WithInterruptAfterNodes([]string{"A"}))
	var got map[string]any
	for i := 0; ; i++ {
		got, err = r.Invoke(ctx, "in", compose.WithCheckPointID("cp"))
		if err == nil {
			break
		}
		if _, ok := compose.ExtractInterruptInfo(err); !ok || i > 5 {
			t.Fatalf("call %d: neither completed nor interrupted: %v", i, err)
		}
	}
	if got["n"] != want["n"] || got["c"] != want["c"] {
		t.Fatalf("resumed %v, uninterrupted %v", got, want)
	}
}
