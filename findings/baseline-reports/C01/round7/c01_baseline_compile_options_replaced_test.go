package compose

import (
	"context"
	"errors"
	"testing"
)

// WithGraphCompileOptions given twice to AddGraphNode: the second one REPLACES the first instead of adding to it, so a
// step limit configured for the nested graph is silently dropped when any other compile option (a name, here) is
// passed in a separate WithGraphCompileOptions. The nested cyclic graph then runs 8 supersteps although it was
// configured with WithMaxRunSteps(3).
func TestC01BaselineNestedStepLimitDroppedBySecondCompileOptions(t *testing.T) {
	ctx := context.Background()

	newLoop := func() *Graph[string, string] {
		inner := NewGraph[string, string]()
		_ = inner.AddLambdaNode("a", InvokableLambda(func(ctx context.Context, in string) (string, error) {
			return in + "a", nil
		}))
		_ = inner.AddEdge(START, "a")
		_ = inner.AddBranch("a", NewGraphBranch(func(ctx context.Context, in string) (string, error) {
			if len(in) > 8 {
				return END, nil
			}
			return "a", nil
		}, map[string]bool{"a": true, END: true}))
		return inner
	}

	wrap := func(opts ...GraphAddNodeOpt) Runnable[string, string] {
		g := NewGraph[string, string]()
		if err := g.AddGraphNode("sub", newLoop(), opts...); err != nil {
			t.Fatal(err)
		}
		_ = g.AddEdge(START, "sub")
		_ = g.AddEdge("sub", END)
		r, err := g.Compile(ctx)
		if err != nil {
			t.Fatal(err)
		}
		return r
	}

	// one WithGraphCompileOptions: the limit holds
	_, err := wrap(WithGraphCompileOptions(WithMaxRunSteps(3), WithGraphName("sub"))).Invoke(ctx, "x")
	if !errors.Is(err, ErrExceedMaxSteps) {
		t.Fatalf("limit and name in one option: want ErrExceedMaxSteps, got %v", err)
	}

	// the same two compile options, given separately: the limit is gone
	out, err := wrap(WithGraphCompileOptions(WithMaxRunSteps(3)), WithGraphCompileOptions(WithGraphName("sub"))).Invoke(ctx, "x")
	if !errors.Is(err, ErrExceedMaxSteps) {
		t.Errorf("limit and name in two options: the nested graph was configured with WithMaxRunSteps(3) but ran to the end: out=%q err=%v", out, err)
	}
}
