package compose

import (
	"context"
	"errors"
	"strings"
	"testing"
)

// B1: a node delivers a nil value of an interface type to END. END did receive a value in that step, so the run
// has to return it (nil). Instead the run loop takes "result == nil" for "END not reached", drops the tasks that
// were scheduled in the same step and fails with "no tasks to execute".
func TestC01Baseline_NilValueDeliveredToEND(t *testing.T) {
	ctx := context.Background()
	g := NewGraph[string, any]()
	_ = g.AddLambdaNode("a", InvokableLambda(func(ctx context.Context, in string) (any, error) { return nil, nil }))
	_ = g.AddEdge(START, "a")
	_ = g.AddEdge("a", END)
	r, err := g.Compile(ctx)
	if err != nil {
		t.Fatal(err)
	}
	out, err := r.Invoke(ctx, "x")
	if err != nil {
		t.Fatalf("END received a (nil) value in step 1, the run must return it; got error: %v", err)
	}
	if out != nil {
		t.Fatalf("want nil, got %v", out)
	}
}

// B1b: same with an error-typed (interface) output, a natural "validation" graph: nil error == fine.
func TestC01Baseline_NilErrorDeliveredToEND(t *testing.T) {
	ctx := context.Background()
	g := NewGraph[string, error]()
	_ = g.AddLambdaNode("validate", InvokableLambda(func(ctx context.Context, in string) (error, error) {
		if in == "" {
			return errors.New("empty"), nil
		}
		return nil, nil
	}))
	_ = g.AddEdge(START, "validate")
	_ = g.AddEdge("validate", END)
	r, err := g.Compile(ctx)
	if err != nil {
		t.Fatal(err)
	}
	if out, err := r.Invoke(ctx, ""); err != nil || out == nil {
		t.Fatalf("non-nil result must come back: %v %v", out, err)
	}
	if _, err := r.Invoke(ctx, "ok"); err != nil {
		t.Fatalf("END received a (nil) value, the run must return it; got error: %v", err)
	}
}

// B2: a multi-way branch condition returns map[string]bool; an entry with value false is treated as selected
// (only the keys are looked at), so a target the condition explicitly did NOT choose receives the value and runs.
func TestC01Baseline_MultiBranchFalseEntryIsSelected(t *testing.T) {
	ctx := context.Background()
	g := NewGraph[string, map[string]any]()
	ran := map[string]bool{}
	_ = g.AddLambdaNode("a", InvokableLambda(func(ctx context.Context, in string) (map[string]any, error) {
		ran["a"] = true
		return map[string]any{"a": 1}, nil
	}))
	_ = g.AddLambdaNode("b", InvokableLambda(func(ctx context.Context, in string) (map[string]any, error) {
		ran["b"] = true
		return map[string]any{"b": 1}, nil
	}))
	_ = g.AddBranch(START, NewGraphMultiBranch(func(ctx context.Context, in string) (map[string]bool, error) {
		return map[string]bool{"a": true, "b": false}, nil
	}, map[string]bool{"a": true, "b": true}))
	_ = g.AddEdge("a", END)
	_ = g.AddEdge("b", END)
	r, err := g.Compile(ctx)
	if err != nil {
		t.Fatal(err)
	}
	out, err := r.Invoke(ctx, "x")
	if err != nil {
		t.Fatal(err)
	}
	if ran["b"] || len(out) != 1 {
		t.Fatalf("the condition returned b:false, yet b ran; out=%v", out)
	}
}

// B3: WithRuntimeMaxSteps(n).DesignateNode("sub") is not handed to the nested graph "sub" (options without
// component options are dropped when addressed to a sub graph) and IS applied to the graph being called (the run
// loop looks at every option's maxRunSteps without looking at its paths). So the limit configured for "sub" does not
// bound "sub", and bounds the outer graph instead.
func TestC01Baseline_DesignatedRuntimeMaxSteps(t *testing.T) {
	ctx := context.Background()
	incRuns := 0
	sub := NewGraph[int, int]()
	_ = sub.AddLambdaNode("inc", InvokableLambda(func(ctx context.Context, in int) (int, error) { incRuns++; return in + 1, nil }))
	_ = sub.AddEdge(START, "inc")
	_ = sub.AddBranch("inc", NewGraphBranch(func(ctx context.Context, in int) (string, error) {
		if in >= 8 {
			return END, nil
		}
		return "inc", nil
	}, map[string]bool{"inc": true, END: true}))

	g := NewGraph[int, int]()
	_ = g.AddGraphNode("sub", sub)
	for _, k := range []string{"p1", "p2", "p3"} {
		_ = g.AddLambdaNode(k, InvokableLambda(func(ctx context.Context, in int) (int, error) { return in, nil }))
	}
	_ = g.AddEdge(START, "sub")
	_ = g.AddEdge("sub", "p1")
	_ = g.AddEdge("p1", "p2")
	_ = g.AddEdge("p2", "p3")
	_ = g.AddEdge("p3", END)
	r, err := g.Compile(ctx)
	if err != nil {
		t.Fatal(err)
	}

	// (a) limit 5 for "sub", which needs 8 supersteps: the nested run must fail after 5 supersteps
	incRuns = 0
	out, err := r.Invoke(ctx, 0, WithRuntimeMaxSteps(5).DesignateNode("sub"))
	if err == nil {
		t.Errorf("(a) sub was limited to 5 supersteps but ran %d supersteps and the run returned %d", incRuns, out)
	} else if !errors.Is(err, ErrExceedMaxSteps) || !strings.Contains(err.Error(), "sub") || incRuns != 5 {
		t.Errorf("(a) want max-steps error from node sub after 5 supersteps, got incRuns=%d err=%v", incRuns, err)
	}

	// (b) limit 20 for "sub" only; the outer graph (4 supersteps, default budget 14) is not concerned ... and
	// limit 3 for "sub" only must not make the OUTER graph fail before sub even exceeded anything
	incRuns = 0
	_, err = r.Invoke(ctx, 0, WithRuntimeMaxSteps(3).DesignateNode("sub"))
	if err == nil || !strings.Contains(err.Error(), "sub") {
		t.Errorf("(b) want the max-steps error to come from node sub (after 3 supersteps), got incRuns=%d err=%v", incRuns, err)
	}
}
