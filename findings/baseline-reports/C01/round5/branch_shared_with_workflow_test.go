package compose

import (
	"context"
	"testing"
)

// The same *GraphBranch (a routing condition) is handed to a Workflow and to an ordinary any-predecessor Graph.
// Workflow.Compile pushes the branch into its inner graph with addBranch(..., skipData=true), which sets
// branch.noDataFlow = true ON THE CALLER'S OBJECT. A Graph that is compiled afterwards with the same branch object
// leaves the branch targets out of its data predecessors (graph.compile: `if !branch.noDataFlow`), so
// channelManager.updateValues throws away the value the branch condition routed to the selected node: the target
// the condition picked receives nothing, the run dies with "no tasks to execute".
//
//	START -> a ; a --router--> {b, c} ; b -> END ; c -> END        router always picks b: the run must return "ab"
func TestGraphBranchSharedWithWorkflow(t *testing.T) {
	ctx := context.Background()

	router := NewGraphBranch(func(ctx context.Context, in string) (string, error) {
		return "b", nil
	}, map[string]bool{"b": true, "c": true})

	node := func(suffix string) *Lambda {
		return InvokableLambda(func(ctx context.Context, in string) (string, error) { return in + suffix, nil })
	}

	buildGraph := func() Runnable[string, string] {
		t.Helper()
		g := NewGraph[string, string]()
		for _, err := range []error{
			g.AddLambdaNode("a", node("a")),
			g.AddLambdaNode("b", node("b")),
			g.AddLambdaNode("c", node("c")),
			g.AddEdge(START, "a"),
			g.AddBranch("a", router),
			g.AddEdge("b", END),
			g.AddEdge("c", END),
		} {
			if err != nil {
				t.Fatal(err)
			}
		}
		r, err := g.Compile(ctx)
		if err != nil {
			t.Fatal(err)
		}
		return r
	}

	// before the workflow exists the graph behaves
	out, err := buildGraph().Invoke(ctx, "")
	if err != nil || out != "ab" {
		t.Fatalf("graph built before the workflow: out=%q err=%v", out, err)
	}

	wf := NewWorkflow[string, string]()
	wf.AddLambdaNode("a", node("a")).AddInput(START)
	wf.AddLambdaNode("b", node("b")).AddInput("a")
	wf.AddLambdaNode("c", node("c")).AddInput("a")
	wf.AddBranch("a", router)
	wf.End().AddInput("b")
	if _, err = wf.Compile(ctx); err != nil {
		t.Fatal(err)
	}

	// the very same graph definition, compiled after the workflow used the router
	out, err = buildGraph().Invoke(ctx, "")
	if err != nil || out != "ab" {
		t.Fatalf("graph built after a Workflow used the same *GraphBranch: out=%q err=%v, want \"ab\"", out, err)
	}
}
