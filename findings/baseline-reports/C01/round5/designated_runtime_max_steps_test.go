package compose

import (
	"context"
	"errors"
	"sync/atomic"
	"testing"
)

// A run-time step limit that is addressed to a nested graph with DesignateNode:
//
//	top:  START -> p1 -> p2 -> sub -> END            (3 supersteps)
//	sub:  START -> a ; a --branch--> {a, END}         (6 supersteps: leaves the loop at 6 characters)
//
// Whatever reading one takes of WithRuntimeMaxSteps(n).DesignateNode("sub"), the option names the node "sub":
// it must bound the run of the nested graph, and it must not become the budget of the top-level run, which it does
// not address.
//
// On the unmodified tree both halves fail:
//   - n = 2: the TOP-LEVEL run dies with ErrExceedMaxSteps after two supersteps (p1, p2) - the nested graph is
//     never started;
//   - n = 4: the nested graph ignores the limit and executes all 6 supersteps (the top-level run, 3 supersteps,
//     fits into 4 and so the option goes unnoticed).
func TestRuntimeMaxStepsDesignatedToNestedGraph(t *testing.T) {
	ctx := context.Background()

	var subSteps int32
	sub := NewGraph[string, string]()
	must := func(err error) {
		t.Helper()
		if err != nil {
			t.Fatal(err)
		}
	}
	must(sub.AddLambdaNode("a", InvokableLambda(func(ctx context.Context, in string) (string, error) {
		atomic.AddInt32(&subSteps, 1)
		return in + "a", nil
	})))
	must(sub.AddEdge(START, "a"))
	must(sub.AddBranch("a", NewGraphBranch(func(ctx context.Context, in string) (string, error) {
		if len(in) >= 6 {
			return END, nil
		}
		return "a", nil
	}, map[string]bool{"a": true, END: true})))

	id := func(ctx context.Context, in string) (string, error) { return in, nil }
	g := NewGraph[string, string]()
	must(g.AddLambdaNode("p1", InvokableLambda(id)))
	must(g.AddLambdaNode("p2", InvokableLambda(id)))
	must(g.AddGraphNode("sub", sub))
	must(g.AddEdge(START, "p1"))
	must(g.AddEdge("p1", "p2"))
	must(g.AddEdge("p2", "sub"))
	must(g.AddEdge("sub", END))
	r, err := g.Compile(ctx)
	must(err)

	// sanity: without the option the run takes 3 + 6 supersteps and succeeds
	out, err := r.Invoke(ctx, "")
	if err != nil || out != "aaaaaa" || atomic.LoadInt32(&subSteps) != 6 {
		t.Fatalf("plain run: out=%q err=%v subSteps=%d", out, err, subSteps)
	}

	for _, limit := range []int32{2, 4} {
		atomic.StoreInt32(&subSteps, 0)
		out, err = r.Invoke(ctx, "", WithRuntimeMaxSteps(int(limit)).DesignateNode("sub"))
		got := atomic.LoadInt32(&subSteps)
		if !errors.Is(err, ErrExceedMaxSteps) || got != limit {
			t.Errorf("limit %d designated to the nested graph: the nested graph executed %d supersteps, out=%q err=%v; "+
				"want the nested graph stopped by ErrExceedMaxSteps after exactly %d supersteps", limit, got, out, err, limit)
		}
	}
}
