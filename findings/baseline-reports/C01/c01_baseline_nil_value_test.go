package compose

import (
	"context"
	"testing"
)

// All tests in this file FAIL on the UNMODIFIED tree.
//
// They exercise a nil interface value travelling through an any-predecessor (Pregel) graph.
// `nil` is a perfectly legal value of an interface-typed output (`any`, `error`, an interface
// of the application ...), yet the engine treats "the value is nil" as "there is no value".

// B1: a node delivers nil to END. The run must return (nil, nil) in the step in which END
// receives the value; instead it fails with "no tasks to execute".
func TestC01Baseline_NilValueDeliveredToEND(t *testing.T) {
	ctx := context.Background()
	g := NewGraph[string, any]()
	_ = g.AddLambdaNode("a", InvokableLambda(func(ctx context.Context, in string) (any, error) {
		return nil, nil
	}))
	_ = g.AddEdge(START, "a")
	_ = g.AddEdge("a", END)
	r, err := g.Compile(ctx)
	if err != nil {
		t.Fatal(err)
	}
	out, err := r.Invoke(ctx, "x")
	if err != nil {
		t.Fatalf("END received a value (nil) in step 1, the run must return it; got error: %v", err)
	}
	if out != nil {
		t.Fatalf("want nil, got %v", out)
	}
}

// B2: same with the graph input: START -> passthrough -> END on Graph[any, any] and a nil input.
func TestC01Baseline_NilInputPassthrough(t *testing.T) {
	ctx := context.Background()
	g := NewGraph[any, any]()
	_ = g.AddPassthroughNode("p")
	_ = g.AddEdge(START, "p")
	_ = g.AddEdge("p", END)
	r, err := g.Compile(ctx)
	if err != nil {
		t.Fatal(err)
	}
	defer func() {
		if p := recover(); p != nil {
			t.Fatalf("Invoke panicked: %v", p)
		}
	}()
	out, err := r.Invoke(ctx, nil)
	if err != nil {
		t.Fatalf("identity graph on nil input must return nil, got error: %v", err)
	}
	if out != nil {
		t.Fatalf("want nil, got %v", out)
	}
}

// B3: a node whose input type is `any` is sent nil by its predecessor. It must run on that
// value; instead the task dies with "unexpected input type. expected: interface {}, got: <nil>".
func TestC01Baseline_NilValueDeliveredToNode(t *testing.T) {
	ctx := context.Background()
	g := NewGraph[string, string]()
	_ = g.AddLambdaNode("a", InvokableLambda(func(ctx context.Context, in string) (any, error) {
		return nil, nil
	}))
	ran := false
	_ = g.AddLambdaNode("b", InvokableLambda(func(ctx context.Context, in any) (string, error) {
		ran = true
		if in != nil {
			t.Errorf("b: want nil input, got %v", in)
		}
		return "ok", nil
	}))
	_ = g.AddEdge(START, "a")
	_ = g.AddEdge("a", "b")
	_ = g.AddEdge("b", END)
	r, err := g.Compile(ctx)
	if err != nil {
		t.Fatal(err)
	}
	out, err := r.Invoke(ctx, "x")
	if err != nil || out != "ok" || !ran {
		t.Fatalf("b was sent a value in step 1 and must run on it in step 2; out=%q ran=%v err=%v", out, ran, err)
	}
}

// B4: the same value reaching a branch whose condition takes `any`: the type assertion in
// newGraphBranch panics, and because branch conditions are evaluated on the caller's
// goroutine outside of any recover, the panic escapes from Runnable.Invoke.
func TestC01Baseline_NilValueDeliveredToBranch(t *testing.T) {
	ctx := context.Background()
	g := NewGraph[string, string]()
	_ = g.AddLambdaNode("a", InvokableLambda(func(ctx context.Context, in string) (any, error) {
		return nil, nil
	}))
	_ = g.AddLambdaNode("b", InvokableLambda(func(ctx context.Context, in any) (string, error) { return "b", nil }))
	_ = g.AddLambdaNode("c", InvokableLambda(func(ctx context.Context, in any) (string, error) { return "c", nil }))
	_ = g.AddEdge(START, "a")
	_ = g.AddBranch("a", NewGraphBranch(func(ctx context.Context, in any) (string, error) {
		return "b", nil
	}, map[string]bool{"b": true, "c": true}))
	_ = g.AddEdge("b", END)
	_ = g.AddEdge("c", END)
	r, err := g.Compile(ctx)
	if err != nil {
		t.Fatal(err)
	}
	defer func() {
		if p := recover(); p != nil {
			t.Fatalf("Invoke panicked instead of returning: %v", p)
		}
	}()
	out, err := r.Invoke(ctx, "x")
	if err != nil || out != "b" {
		t.Fatalf("the branch must route the (nil) value to b; out=%q err=%v", out, err)
	}
}
