package compose

import (
	"context"
	"errors"
	"testing"
)

// Both tests in this file FAIL on the UNMODIFIED tree.

func c01BaselinePanickyBranchGraph() *Graph[string, string] {
	g := NewGraph[string, string]()
	id := func(name string) *Lambda {
		return InvokableLambda(func(ctx context.Context, in string) (string, error) { return in + name, nil })
	}
	_ = g.AddLambdaNode("a", id("a"))
	_ = g.AddLambdaNode("b", id("b"))
	_ = g.AddLambdaNode("c", id("c"))
	_ = g.AddEdge(START, "a")
	_ = g.AddBranch("a", NewGraphBranch(func(ctx context.Context, in string) (string, error) {
		var m map[string]int
		m[in] = 1 // a bug in user code: panics
		return "b", nil
	}, map[string]bool{"b": true, "c": true}))
	_ = g.AddEdge("b", END)
	_ = g.AddEdge("c", END)
	return g
}

// B5: "a graph used as a node behaves like the same graph compiled alone".
// A panic in a NODE is converted into an error by the task executor. A panic in a BRANCH
// CONDITION (equally user code) is evaluated by the run loop without recover:
//   - graph compiled alone: the panic escapes from Runnable.Invoke into the caller;
//   - the same graph used as a node: the enclosing graph's executor recovers it and the
//     outer Invoke returns an error.
// The two must behave alike (and a run is supposed to return or fail, not to unwind the caller).
func TestC01Baseline_BranchConditionPanic_AloneVsNested(t *testing.T) {
	ctx := context.Background()

	// nested
	outer := NewGraph[string, string]()
	_ = outer.AddGraphNode("sub", c01BaselinePanickyBranchGraph())
	_ = outer.AddEdge(START, "sub")
	_ = outer.AddEdge("sub", END)
	ro, err := outer.Compile(ctx)
	if err != nil {
		t.Fatal(err)
	}
	_, nestedErr := ro.Invoke(ctx, "x")
	if nestedErr == nil {
		t.Fatal("nested: expected an error")
	}
	t.Logf("nested: Invoke returned error (fine): %.80s...", nestedErr.Error())

	// alone
	ra, err := c01BaselinePanickyBranchGraph().Compile(ctx)
	if err != nil {
		t.Fatal(err)
	}
	var aloneErr error
	func() {
		defer func() {
			if p := recover(); p != nil {
				t.Errorf("alone: Invoke PANICKED (%v) whereas the same graph used as a node returns an error", p)
				aloneErr = errors.New("panicked")
			}
		}()
		_, aloneErr = ra.Invoke(ctx, "x")
	}()
	if aloneErr == nil {
		t.Fatal("alone: expected an error")
	}
}

// B6 (lower confidence, may be considered a documented quirk of the map-typed result):
// GraphMultiBranchCondition returns map[string]bool, but the bool is ignored: a target mapped
// to false still receives the value. "branch conditions decide which of their targets receive
// the value" - here the condition says "b: false" and b runs anyway.
func TestC01Baseline_MultiBranchFalseEntryStillSelected(t *testing.T) {
	ctx := context.Background()
	g := NewGraph[string, map[string]any]()
	id := func(name string) *Lambda {
		return InvokableLambda(func(ctx context.Context, in string) (string, error) { return in + name, nil })
	}
	_ = g.AddLambdaNode("a", id("a"), WithOutputKey("a"))
	_ = g.AddLambdaNode("b", id("b"), WithOutputKey("b"))
	_ = g.AddBranch(START, NewGraphMultiBranch(func(ctx context.Context, in string) (map[string]bool, error) {
		return map[string]bool{"a": true, "b": false}, nil
	}, map[string]bool{"a": true, "b": true}))
	_ = g.AddEdge("a", END)
	_ = g.AddEdge("b", END)
	r, err := g.Compile(ctx)
	if err != nil {
		t.Fatal(err)
	}
	out, err := r.Invoke(ctx, "x")
	if err != nil {
		t.Fatal(err)
	}
	if _, ok := out["b"]; ok {
		t.Fatalf("b ran although the condition mapped it to false: %v", out)
	}
}
