package compose

import (
	"context"
	"testing"
)

type baselineC15hidden struct{ F, G string }

// BaselineC15Dst promotes the exported fields F and G through an embedded pointer to an unexported struct type.
type BaselineC15Dst struct {
	*baselineC15hidden
	H string
}

type baselineC15Src struct{ S string }

// A mapping to a field that is promoted through an embedded pointer of unexported type passes every compile-time check,
// although the destination type alone tells that it can never be assigned (reflect cannot set the unexported embedded
// pointer of a fresh value): compilation accepts the mapping and then every single run fails.
func TestBaselineC15_PromotedThroughUnexportedEmbeddedPointer(t *testing.T) {
	ctx := context.Background()
	wf := NewWorkflow[baselineC15Src, BaselineC15Dst]()
	wf.End().AddInput(START, MapFields("S", "F"))
	r, err := wf.Compile(ctx)
	if err != nil {
		return // rejected at compile time: consistent
	}
	out, err := r.Invoke(ctx, baselineC15Src{S: "s"})
	if err != nil {
		t.Fatalf("compilation accepted the mapping S -> F, but the run cannot deliver it: %v", err)
	}
	if out.baselineC15hidden == nil || out.F != "s" {
		t.Fatalf("got %+v, want F=s", out)
	}
}
