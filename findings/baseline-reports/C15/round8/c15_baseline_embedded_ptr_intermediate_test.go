package compose

import (
	"context"
	"reflect"
	"testing"
)

// A target path whose INTERMEDIATE element is a field promoted through an embedded pointer.

type C15BInner struct {
	V string
	W string
}

type C15BBase struct {
	Inner C15BInner
	M     map[string]string
	X     string
}

type c15bTarget struct {
	*C15BBase
	H string
}

// the last element of the path is promoted through the embedded pointer: works (the pointer is instantiated)
func TestC15Baseline_EmbeddedPtr_LastElement(t *testing.T) {
	ctx := context.Background()
	wf := NewWorkflow[string, c15bTarget]()
	wf.End().AddInput(START, ToFieldPath(FieldPath{"X"}))
	r, err := wf.Compile(ctx)
	if err != nil {
		t.Fatalf("compile: %v", err)
	}
	out, err := r.Invoke(ctx, "hello")
	if err != nil {
		t.Fatalf("Invoke: %v", err)
	}
	if !reflect.DeepEqual(c15bTarget{C15BBase: &C15BBase{X: "hello"}}, out) {
		t.Fatalf("got %+v", out)
	}
}

// an intermediate element of the path is promoted through the same embedded pointer: Compile accepts the mapping,
// every run fails ("field mapping through an embedded pointer that is nil")
func TestC15Baseline_EmbeddedPtr_IntermediateElement_Struct(t *testing.T) {
	ctx := context.Background()
	wf := NewWorkflow[string, c15bTarget]()
	wf.End().AddInput(START, ToFieldPath(FieldPath{"Inner", "V"}))
	r, err := wf.Compile(ctx)
	if err != nil {
		t.Skipf("compile rejects the mapping (that would be consistent too): %v", err)
	}
	out, err := r.Invoke(ctx, "hello")
	if err != nil {
		t.Fatalf("Compile accepted the mapping, Invoke fails: %v", err)
	}
	if !reflect.DeepEqual(c15bTarget{C15BBase: &C15BBase{Inner: C15BInner{V: "hello"}}}, out) {
		t.Fatalf("got %+v", out)
	}
}

func TestC15Baseline_EmbeddedPtr_IntermediateElement_Map(t *testing.T) {
	ctx := context.Background()
	wf := NewWorkflow[string, *c15bTarget]()
	wf.End().AddInput(START, ToFieldPath(FieldPath{"M", "k"}))
	r, err := wf.Compile(ctx)
	if err != nil {
		t.Skipf("compile rejects the mapping (that would be consistent too): %v", err)
	}
	out, err := r.Invoke(ctx, "hello")
	if err != nil {
		t.Fatalf("Compile accepted the mapping, Invoke fails: %v", err)
	}
	if !reflect.DeepEqual(&c15bTarget{C15BBase: &C15BBase{M: map[string]string{"k": "hello"}}}, out) {
		t.Fatalf("got %+v", out)
	}
}

// the same path spelled with the embedded field's own name works, so the two spellings of one target differ
func TestC15Baseline_EmbeddedPtr_ExplicitSpelling(t *testing.T) {
	ctx := context.Background()
	wf := NewWorkflow[string, c15bTarget]()
	wf.End().AddInput(START, ToFieldPath(FieldPath{"C15BBase", "Inner", "V"}))
	r, err := wf.Compile(ctx)
	if err != nil {
		t.Fatalf("compile: %v", err)
	}
	out, err := r.Invoke(ctx, "hello")
	if err != nil {
		t.Fatalf("Invoke: %v", err)
	}
	if !reflect.DeepEqual(c15bTarget{C15BBase: &C15BBase{Inner: C15BInner{V: "hello"}}}, out) {
		t.Fatalf("got %+v", out)
	}
}
