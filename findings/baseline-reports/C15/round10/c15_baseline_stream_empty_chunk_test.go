package compose

import (
	"context"
	"reflect"
	"testing"

	"github.com/cloudwego/eino/schema"
)

func c15baseTransform[O any](t *testing.T, r Runnable[map[string]any, O], chunks ...map[string]any) (O, error) {
	t.Helper()
	sr, sw := schema.Pipe[map[string]any](len(chunks))
	for _, c := range chunks {
		sw.Send(c, nil)
	}
	sw.Close()
	out, err := r.Transform(context.Background(), sr)
	if err != nil {
		var zero O
		return zero, err
	}
	return concatStreamReader(out)
}

// A map-typed source arrives in two chunks, the mapped key is in the first one. The chunk that has none of the mapped
// keys is still turned into a (zero-valued) successor input, which then takes part in the concatenation: for the kinds
// that are concatenated by "use the last one" (numbers, bool, time) the zero value replaces the mapped one.
func TestC15Baseline_StreamChunkWithoutMappedKey_Int(t *testing.T) {
	ctx := context.Background()
	wf := NewWorkflow[map[string]any, int]()
	wf.End().AddInput(START, FromField("a"))
	r, err := wf.Compile(ctx)
	if err != nil {
		t.Fatal(err)
	}

	got, err := r.Invoke(ctx, map[string]any{"a": 5, "b": 1})
	if err != nil || got != 5 {
		t.Fatalf("invoke: got %v, %v; want 5", got, err)
	}

	// the key comes last: fine
	got, err = c15baseTransform(t, r, map[string]any{"b": 1}, map[string]any{"a": 5})
	if err != nil || got != 5 {
		t.Fatalf("transform, mapped key in the last chunk: got %v, %v; want 5", got, err)
	}

	// the key comes first: the mapped value is lost
	got, err = c15baseTransform(t, r, map[string]any{"a": 5}, map[string]any{"b": 1})
	if err != nil || got != 5 {
		t.Fatalf("transform, mapped key in the first chunk: got %v, %v; want 5", got, err)
	}
}

func TestC15Baseline_StreamChunkWithoutMappedKey_InnerNodeBool(t *testing.T) {
	ctx := context.Background()
	wf := NewWorkflow[map[string]any, string]()
	wf.AddLambdaNode("n", InvokableLambda(func(ctx context.Context, in bool) (string, error) {
		if in {
			return "yes", nil
		}
		return "no", nil
	})).AddInput(START, FromField("flag"))
	wf.End().AddInput("n")
	r, err := wf.Compile(ctx)
	if err != nil {
		t.Fatal(err)
	}

	got, err := r.Invoke(ctx, map[string]any{"flag": true, "other": 1})
	if err != nil || got != "yes" {
		t.Fatalf("invoke: got %v, %v; want yes", got, err)
	}
	got, err = c15baseTransform(t, r, map[string]any{"flag": true}, map[string]any{"other": 1})
	if err != nil || got != "yes" {
		t.Fatalf("transform: got %v, %v; want yes", got, err)
	}
}

type c15baseTarget struct {
	F string
}

// With a pointer-typed successor input the zero-valued chunk is a second non-nil pointer: the run fails.
func TestC15Baseline_StreamChunkWithoutMappedKey_PointerTarget(t *testing.T) {
	ctx := context.Background()
	wf := NewWorkflow[map[string]any, *c15baseTarget]()
	wf.End().AddInput(START, MapFields("a", "F"))
	r, err := wf.Compile(ctx)
	if err != nil {
		t.Fatal(err)
	}

	want := &c15baseTarget{F: "x"}
	got, err := r.Invoke(ctx, map[string]any{"a": "x", "b": 1})
	if err != nil || !reflect.DeepEqual(got, want) {
		t.Fatalf("invoke: got %v, %v; want %v", got, err, want)
	}
	got, err = c15baseTransform(t, r, map[string]any{"a": "x"}, map[string]any{"b": 1})
	if err != nil || !reflect.DeepEqual(got, want) {
		t.Fatalf("transform: got %v, %v; want %v", got, err, want)
	}
}
