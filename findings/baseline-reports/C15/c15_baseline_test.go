package compose

import (
	"context"
	"fmt"
	"reflect"
	"testing"
)

// Reproducers for violations of property C15 on the UNMODIFIED tree.

type c15bInner struct {
	X string
	Y int
}

type c15bSrc struct {
	A  any
	P  *c15bInner
	PP **c15bInner
	X  string
	Y  string
	Ar [2]string
}

type c15bDst struct {
	S  string
	N  int
	PP **c15bInner
}

// c15bNoPanic compiles START->END with the mappings; if compilation accepts them, a run may return a
// value or an error but must not panic.
func c15bNoPanic[I, O any](t *testing.T, in I, mappings ...*FieldMapping) {
	t.Helper()
	wf := NewWorkflow[I, O]()
	wf.End().AddInput(START, mappings...)
	r, err := wf.Compile(context.Background())
	if err != nil {
		t.Logf("rejected at compile time (fine): %v", err)
		return
	}
	var panicked any
	func() {
		defer func() { panicked = recover() }()
		out, err := r.Invoke(context.Background(), in)
		t.Logf("invoke: out=%+v err=%v", out, err)
	}()
	if panicked != nil {
		t.Errorf("Invoke PANICKED on a mapping set accepted by Compile: %.250s", fmt.Sprint(panicked))
	}
}

// 1. A source path that goes through an interface-typed field can only be checked at run time. Only the
// "value is not a struct/map" case is turned into an error; every other run-time mismatch panics out of Invoke.
func TestC15BaselineRuntimeCheckedSourcePanics(t *testing.T) {
	m := MapFieldPaths(FieldPath{"A", "X"}, FieldPath{"S"})
	var nilInner *c15bInner
	pp := &c15bInner{X: "x"}

	t.Run("interface holds typed nil pointer", func(t *testing.T) {
		c15bNoPanic[c15bSrc, c15bDst](t, c15bSrc{A: nilInner}, m)
	})
	t.Run("interface holds pointer to pointer", func(t *testing.T) {
		c15bNoPanic[c15bSrc, c15bDst](t, c15bSrc{A: &pp}, m)
	})
	t.Run("interface holds map with non-string key", func(t *testing.T) {
		c15bNoPanic[c15bSrc, c15bDst](t, c15bSrc{A: map[int]string{1: "a"}}, m)
	})
	t.Run("interface holds struct without the field", func(t *testing.T) {
		c15bNoPanic[c15bSrc, c15bDst](t, c15bSrc{A: struct{ Z int }{1}}, m)
	})
	t.Run("interface holds struct with unexported field", func(t *testing.T) {
		c15bNoPanic[c15bSrc, c15bDst](t, c15bSrc{A: struct{ x string }{"x"}}, MapFieldPaths(FieldPath{"A", "x"}, FieldPath{"S"}))
	})
	t.Run("statically typed nil pointer intermediate", func(t *testing.T) {
		c15bNoPanic[c15bSrc, c15bDst](t, c15bSrc{}, MapFieldPaths(FieldPath{"P", "X"}, FieldPath{"S"}))
	})
}

// 2. The static check dereferences any number of pointer levels, the run-time code only one:
// paths through a **T are accepted by Compile and panic at run time.
func TestC15BaselinePointerToPointerPanics(t *testing.T) {
	p := &c15bInner{X: "x"}
	t.Run("target path through **T", func(t *testing.T) {
		c15bNoPanic[c15bSrc, c15bDst](t, c15bSrc{X: "x"}, MapFieldPaths(FieldPath{"X"}, FieldPath{"PP", "X"}))
	})
	t.Run("source path through **T", func(t *testing.T) {
		c15bNoPanic[c15bSrc, c15bDst](t, c15bSrc{PP: &p}, MapFieldPaths(FieldPath{"PP", "X"}, FieldPath{"S"}))
	})
}

// 3. A nil value found behind a run-time-checked source passes the run-time checker for a nil-able
// target type, and then the assignment into a typed map panics ("convertTo failed when must succeed").
func TestC15BaselineNilIntoTypedMapPanics(t *testing.T) {
	c15bNoPanic[map[string]any, map[string]*c15bInner](t, map[string]any{"a": nil}, MapFields("a", "x"))
}

// 4. An array-typed successor input (or array pointer) cannot even be instantiated: newInstanceByType
// calls reflect.MakeSlice on an array type.
func TestC15BaselineArrayInputPanics(t *testing.T) {
	c15bNoPanic[c15bSrc, [2]string](t, c15bSrc{Ar: [2]string{"a", "b"}}, FromField("Ar"))
}

type c15bLeaf struct {
	B string
	C string
}
type c15bEntry struct {
	A c15bLeaf // non-pointer struct below a map entry
	N string
}
type c15bMapDst struct {
	M map[string]c15bEntry
}

// 5. Target path map-entry -> struct field -> struct field: the struct stored in the map is written back
// BEFORE the nested field is assigned, so the mapped value is lost.
func TestC15BaselineValueLostBelowStructMapEntry(t *testing.T) {
	wf := NewWorkflow[c15bSrc, c15bMapDst]()
	wf.End().AddInput(START,
		MapFieldPaths(FieldPath{"X"}, FieldPath{"M", "k", "A", "B"}),
		MapFieldPaths(FieldPath{"Y"}, FieldPath{"M", "k", "N"}))
	r, err := wf.Compile(context.Background())
	if err != nil {
		t.Logf("rejected at compile time (fine): %v", err)
		return
	}
	want := c15bMapDst{M: map[string]c15bEntry{"k": {A: c15bLeaf{B: "x"}, N: "y"}}}
	for i := 0; i < 20; i++ {
		out, err := r.Invoke(context.Background(), c15bSrc{X: "x", Y: "y"})
		if err != nil {
			t.Fatalf("invoke: %v", err)
		}
		if !reflect.DeepEqual(out, want) {
			t.Fatalf("run %d: got %+v, want %+v", i, out, want)
		}
	}
}

type c15bFanDst struct {
	S string
	N string
}

// 6. Two predecessors mapping into different fields of a struct-typed successor input: fine with Invoke,
// fails with Stream (each predecessor's chunk is converted to the struct separately and the two partial
// structs cannot be concatenated).
func TestC15BaselineFanInStructStreamVsInvoke(t *testing.T) {
	ctx := context.Background()
	wf := NewWorkflow[c15bSrc, c15bFanDst]()
	id := func(ctx context.Context, in c15bSrc) (c15bSrc, error) { return in, nil }
	wf.AddLambdaNode("n1", InvokableLambda(id)).AddInput(START)
	wf.AddLambdaNode("n2", InvokableLambda(id)).AddInput(START)
	wf.AddLambdaNode("n3", InvokableLambda(func(ctx context.Context, in c15bFanDst) (c15bFanDst, error) { return in, nil })).
		AddInput("n1", MapFields("X", "S")).
		AddInput("n2", MapFields("Y", "N"))
	wf.End().AddInput("n3")
	r, err := wf.Compile(ctx)
	if err != nil {
		t.Fatal(err)
	}
	want := c15bFanDst{S: "x", N: "y"}
	out, err := r.Invoke(ctx, c15bSrc{X: "x", Y: "y"})
	if err != nil || out != want {
		t.Fatalf("invoke: out=%+v err=%v", out, err)
	}
	sr, err := r.Stream(ctx, c15bSrc{X: "x", Y: "y"})
	if err != nil {
		t.Fatalf("stream: same workflow, same input, Invoke succeeded but Stream failed: %v", err)
	}
	out, err = concatStreamReader(sr)
	if err != nil || out != want {
		t.Fatalf("stream: out=%+v err=%v", out, err)
	}
}

type c15bEndDst struct {
	A c15bLeaf
}

// 7. The (deprecated but public) Workflow.AddEnd bypasses the overlap check: a path and one of its
// prefixes are both accepted, and the result differs from run to run (map iteration order in convertTo).
func TestC15BaselineAddEndOverlapAccepted(t *testing.T) {
	ctx := context.Background()
	wf := NewWorkflow[c15bSrc, c15bEndDst]()
	wf.AddLambdaNode("n1", InvokableLambda(func(ctx context.Context, in c15bSrc) (c15bLeaf, error) {
		return c15bLeaf{B: "n1B", C: "n1C"}, nil
	})).AddInput(START)
	wf.AddLambdaNode("n2", InvokableLambda(func(ctx context.Context, in c15bSrc) (c15bSrc, error) {
		return c15bSrc{X: "n2X"}, nil
	})).AddInput(START)
	wf.AddEnd("n1", ToField("A"))
	wf.AddEnd("n2", MapFieldPaths(FieldPath{"X"}, FieldPath{"A", "B"}))
	r, err := wf.Compile(ctx)
	if err != nil {
		t.Logf("overlap rejected at compile time (fine): %v", err)
		return
	}
	seen := map[c15bEndDst]int{}
	for i := 0; i < 200; i++ {
		out, err := r.Invoke(ctx, c15bSrc{})
		if err != nil {
			t.Fatalf("invoke: %v", err)
		}
		seen[out]++
	}
	t.Errorf("overlapping targets [A] and [A B] were accepted by Compile; distinct results over 200 runs: %v", seen)
}
