package compose

import (
	"context"
	"reflect"
	"testing"
)

// AddInputWithOptions takes the mappings as a slice and only applies them when the Workflow is compiled; until then it
// keeps the CALLER's slice. A caller that reuses its slice for the next declaration (a scratch buffer filled in a loop)
// silently rewrites the declaration it made before: node n1 below was declared with A->X, and is run with B->Y.
func TestC15BaselineAddInputWithOptionsKeepsCallersSlice(t *testing.T) {
	type in struct{ A, B string }
	type out struct{ X, Y string }
	echo := func(ctx context.Context, i out) (out, error) { return i, nil }

	wf := NewWorkflow[in, map[string]any]()

	buf := []*FieldMapping{MapFields("A", "X")}
	wf.AddLambdaNode("n1", InvokableLambda(echo)).AddInputWithOptions(START, buf)

	buf[0] = MapFields("B", "Y") // the buffer is reused for the next node
	wf.AddLambdaNode("n2", InvokableLambda(echo)).AddInputWithOptions(START, buf)

	wf.End().AddInput("n1", ToField("n1")).AddInput("n2", ToField("n2"))

	r, err := wf.Compile(context.Background())
	if err != nil {
		t.Fatal(err)
	}
	got, err := r.Invoke(context.Background(), in{A: "a", B: "b"})
	if err != nil {
		t.Fatal(err)
	}
	want := map[string]any{"n1": out{X: "a"}, "n2": out{Y: "b"}}
	if !reflect.DeepEqual(got, want) {
		t.Fatalf("got %+v, want %+v", got, want)
	}
}
