package compose

import (
	"context"
	"testing"
)

// C15BaseEmb is embedded BY POINTER in the successor's input type below.
type C15BaseEmb struct {
	F string
	G int
}

type c15BaseDst struct {
	*C15BaseEmb
	H string
}

type c15BaseMid struct {
	Inner c15BaseDst
}

type c15BaseSrc struct {
	A string
	B int
}

// A mapping whose target is a field promoted through an embedded pointer ("F" of struct{ *C15BaseEmb; H string }) is
// accepted by Compile, but no run can ever deliver it: the destination is built fresh by convertTo, its embedded pointer
// is nil, and assignOne/checkAndExtractToField refuse to walk through it. The same target spelled out in full
// (FieldPath{"C15BaseEmb", "F"}) is accepted too and works, because there the pointer is instantiated on the way down.
func TestC15BaselineTargetPromotedThroughEmbeddedPointer(t *testing.T) {
	ctx := context.Background()
	in := c15BaseSrc{A: "a", B: 7}

	check := func(t *testing.T, got c15BaseDst, err error) {
		t.Helper()
		if err != nil {
			t.Fatalf("the mapping set was accepted by Compile, the run must deliver it: %v", err)
		}
		if got.C15BaseEmb == nil || got.F != "a" || got.G != 7 || got.H != "a" {
			t.Fatalf("got %+v (embedded: %+v)", got, got.C15BaseEmb)
		}
	}

	t.Run("control: full path through the embedded pointer", func(t *testing.T) {
		wf := NewWorkflow[c15BaseSrc, c15BaseDst]()
		wf.End().AddInput(START,
			MapFieldPaths(FieldPath{"A"}, FieldPath{"C15BaseEmb", "F"}),
			MapFieldPaths(FieldPath{"B"}, FieldPath{"C15BaseEmb", "G"}),
			MapFields("A", "H"))
		r, err := wf.Compile(ctx)
		if err != nil {
			t.Fatal(err)
		}
		got, err := r.Invoke(ctx, in)
		check(t, got, err)
	})

	t.Run("promoted name, terminal step, Invoke", func(t *testing.T) {
		wf := NewWorkflow[c15BaseSrc, c15BaseDst]()
		wf.End().AddInput(START, MapFields("A", "F"), MapFields("B", "G"), MapFields("A", "H"))
		r, err := wf.Compile(ctx)
		if err != nil {
			t.Skipf("rejected at compile time, which would be fine: %v", err)
		}
		got, err := r.Invoke(ctx, in)
		check(t, got, err)
	})

	t.Run("promoted name, terminal step, Stream", func(t *testing.T) {
		wf := NewWorkflow[c15BaseSrc, c15BaseDst]()
		wf.End().AddInput(START, MapFields("A", "F"), MapFields("B", "G"), MapFields("A", "H"))
		r, err := wf.Compile(ctx)
		if err != nil {
			t.Skipf("rejected at compile time, which would be fine: %v", err)
		}
		sr, err := r.Stream(ctx, in)
		var got c15BaseDst
		if err == nil {
			got, err = concatStreamReader(sr)
		}
		check(t, got, err)
	})

	t.Run("promoted name below another field", func(t *testing.T) {
		wf := NewWorkflow[c15BaseSrc, c15BaseMid]()
		wf.End().AddInput(START,
			MapFieldPaths(FieldPath{"A"}, FieldPath{"Inner", "F"}),
			MapFieldPaths(FieldPath{"B"}, FieldPath{"Inner", "G"}),
			MapFieldPaths(FieldPath{"A"}, FieldPath{"Inner", "H"}))
		r, err := wf.Compile(ctx)
		if err != nil {
			t.Skipf("rejected at compile time, which would be fine: %v", err)
		}
		got, err := r.Invoke(ctx, in)
		check(t, got.Inner, err)
	})
}
