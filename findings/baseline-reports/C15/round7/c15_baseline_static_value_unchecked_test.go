package compose

import (
	"context"
	"testing"
)

// SetStaticValue declares (path, value) pairs that are merged with the mapped fields of a node's input. Path and value
// are both known when the Workflow is compiled, yet neither is looked at: a path the input type does not have, a path
// that descends into a non-struct, and a value whose type the target field cannot hold are all accepted by Compile, and
// then every single run fails in convertTo. (A field MAPPING with the same target path / the same types is rejected by
// Compile.)
func TestC15BaselineStaticValuesAreNotCheckedAtCompileTime(t *testing.T) {
	type in struct{ A string }
	type out struct {
		X, Y string
		M    map[string]int
	}
	ctx := context.Background()

	cases := []struct {
		name  string
		path  FieldPath
		value any
	}{
		{"value type the field cannot hold", FieldPath{"Y"}, 5},
		{"field the input type does not have", FieldPath{"Nope"}, "v"},
		{"path descending into an int", FieldPath{"M", "k", "z"}, 5},
	}
	for _, c := range cases {
		c := c
		t.Run(c.name, func(t *testing.T) {
			wf := NewWorkflow[in, out]()
			wf.End().AddInput(START, MapFields("A", "X")).SetStaticValue(c.path, c.value)
			r, err := wf.Compile(ctx)
			if err != nil {
				return // rejected when compiled: fine
			}
			if _, err = r.Invoke(ctx, in{A: "a"}); err != nil {
				t.Fatalf("accepted by Compile, but no run can succeed: %v", err)
			}
		})
	}

	// for comparison: the same targets as field mappings are compile-time errors
	t.Run("control: mappings are checked", func(t *testing.T) {
		type in2 struct {
			A string
			N int
		}
		wf := NewWorkflow[in2, out]()
		wf.End().AddInput(START, MapFields("N", "Y"))
		if _, err := wf.Compile(ctx); err == nil {
			t.Fatalf("int -> string mapping accepted")
		}
		wf2 := NewWorkflow[in2, out]()
		wf2.End().AddInput(START, MapFields("A", "Nope"))
		if _, err := wf2.Compile(ctx); err == nil {
			t.Fatalf("mapping to a missing field accepted")
		}
	})
}
