package compose

import (
	"context"
	"io"
	"testing"

	"github.com/cloudwego/eino/schema"
)

// ---------------------------------------------------------------------------------------------------------------
// B3: a node (here END) whose input type is an array, fed by a whole-input mapping (FromField). Compile accepts
// it - the types match exactly - and every run panics: convertTo -> newInstanceByType handles reflect.Array
// in the reflect.Slice case and calls reflect.MakeSlice on the array type
// ("reflect.MakeSlice of non-slice type").
// ---------------------------------------------------------------------------------------------------------------

type c15bArrIn struct {
	A [3]int
}

func TestC15BaselineArrayInputPanics(t *testing.T) {
	ctx := context.Background()
	wf := NewWorkflow[c15bArrIn, [3]int]()
	wf.End().AddInput(START, FromField("A"))
	r, err := wf.Compile(ctx)
	if err != nil {
		t.Logf("compile rejected (fine): %v", err)
		return
	}

	var (
		out      [3]int
		panicked any
	)
	func() {
		defer func() { panicked = recover() }()
		out, err = r.Invoke(ctx, c15bArrIn{A: [3]int{1, 2, 3}})
	}()
	if panicked != nil {
		t.Fatalf("compile accepted the mapping, the run panicked: %v", panicked)
	}
	if err != nil {
		t.Fatalf("compile accepted the mapping, the run failed: %v", err)
	}
	if out != [3]int{1, 2, 3} {
		t.Fatalf("got %v", out)
	}
}

// ---------------------------------------------------------------------------------------------------------------
// B4 (lower priority - it ends in a nil interface, so it may be counted with the known nil family, but no input
// value is nil and the symptom is a panic in the reader of the output stream):
// stream mode, the successor's input type is an interface (any), the source is a map. A chunk that carries none of
// the mapped keys is legal in stream mode (missing keys are skipped per chunk) and yields an empty mapping set;
// convertTo then returns the nil interface and buildStreamFieldMappingConverter's unchecked t.(I) panics
// ("interface conversion: interface is nil, not interface {}") inside Recv of whoever reads the stream.
// ---------------------------------------------------------------------------------------------------------------

func TestC15BaselineStreamChunkWithoutMappedKeysPanicsForInterfaceInput(t *testing.T) {
	ctx := context.Background()
	wf := NewWorkflow[map[string]any, any]()
	wf.End().AddInput(START, MapFields("a", "x"))
	r, err := wf.Compile(ctx)
	if err != nil {
		t.Fatal(err)
	}

	in := schema.StreamReaderFromArray([]map[string]any{{"a": 1}, {"b": 2}})
	var panicked any
	var chunks []any
	func() {
		defer func() { panicked = recover() }()
		out, err := r.Transform(ctx, in)
		if err != nil {
			t.Logf("Transform returned an error (fine): %v", err)
			return
		}
		defer out.Close()
		for {
			c, err := out.Recv()
			if err == io.EOF {
				return
			}
			if err != nil {
				t.Logf("the stream reported an error (fine): %v", err)
				return
			}
			chunks = append(chunks, c)
		}
	}()
	if panicked != nil {
		t.Fatalf("reading the output stream panicked after chunks %v: %v", chunks, panicked)
	}
}
