package compose

import (
	"context"
	"testing"
)

// ---------------------------------------------------------------------------------------------------------------
// B5: whether Compile accepts a set of declarations depends on the iteration order of a Go map.
// A pass-through node has no type of its own; updateToValidateMap gives it the output type of its predecessor or
// the input type of its successor, whichever edge is looked at first - and when it is the predecessor edge, the
// field mappings on that edge are ignored for the inference (the node becomes `string` here although its input is
// built by ToField("a")). Workflow.compile applies the deferred AddInput declarations in `range wf.workflowNodes`
// order, i.e. randomly, so the very same program compiles in some processes/attempts and fails in others with
// "static check fail: successor input type should be struct or map, actual: string".
// ---------------------------------------------------------------------------------------------------------------

func TestC15BaselineCompileAcceptanceDependsOnMapOrder(t *testing.T) {
	ctx := context.Background()
	accepted, rejected := 0, 0
	var lastErr error
	for i := 0; i < 200; i++ {
		wf := NewWorkflow[string, map[string]any]()
		wf.AddPassthroughNode("p").AddInput(START, ToField("a"))
		wf.AddLambdaNode("n", InvokableLambda(func(ctx context.Context, in map[string]any) (map[string]any, error) {
			return in, nil
		})).AddInput("p")
		wf.End().AddInput("n")
		r, err := wf.Compile(ctx)
		if err != nil {
			rejected++
			lastErr = err
			continue
		}
		accepted++
		out, err := r.Invoke(ctx, "v")
		if err != nil || len(out) != 1 || out["a"] != "v" {
			t.Fatalf("accepted, but the run gave %v, %v", out, err)
		}
	}
	if accepted > 0 && rejected > 0 {
		t.Fatalf("the same declarations were accepted %d times and rejected %d times (last error: %v)", accepted, rejected, lastErr)
	}
}
