package compose

import (
	"context"
	"fmt"
	"testing"
)

// ---------------------------------------------------------------------------------------------------------------
// B1: a mapping to an embedded struct together with a mapping to one of its promoted fields.
// The two target paths ["C15BBase"] and ["F"] are not prefixes of each other as strings, but ["F"] IS
// ["C15BBase","F"]: they overlap. Compile accepts the pair, and which value the successor sees depends on the
// iteration order of a Go map (convertTo ranges over map[string]any), so it changes from run to run.
// ---------------------------------------------------------------------------------------------------------------

type C15BBase struct {
	F string
	G string
}

type c15bEmbeddingOut struct {
	C15BBase
	H string
}

type c15bEmbeddingIn struct {
	B C15BBase
	S string
}

func TestC15BaselinePromotedFieldOverlapsEmbeddedStruct(t *testing.T) {
	ctx := context.Background()
	wf := NewWorkflow[c15bEmbeddingIn, c15bEmbeddingOut]()
	wf.End().AddInput(START, MapFields("B", "C15BBase"), MapFields("S", "F"))
	r, err := wf.Compile(ctx)
	if err != nil {
		t.Logf("compile rejected the overlapping targets (fine): %v", err)
		return
	}

	seen := map[string]int{}
	for i := 0; i < 300; i++ {
		out, err := r.Invoke(ctx, c15bEmbeddingIn{B: C15BBase{F: "fromB", G: "g"}, S: "fromS"})
		if err != nil {
			t.Fatal(err)
		}
		seen[fmt.Sprintf("%+v", out)]++
	}
	if len(seen) != 1 {
		t.Fatalf("compile accepted overlapping targets (embedded struct + its promoted field) and the runs disagree: %v", seen)
	}
}

// ---------------------------------------------------------------------------------------------------------------
// B2: the deprecated but still exported Workflow.AddEnd adds its mappings without registering their target paths
// in END's mapped-path trie, so a path declared through AddEnd and one of its sub-paths declared through
// End().AddInput (or the other way round) are both accepted. Depending on map iteration order the sub-path
// assignment is lost, or it is written INTO the predecessor's output map (the map that was mapped as a whole).
// ---------------------------------------------------------------------------------------------------------------

type c15bEndOut struct {
	M map[string]string
}

type c15bEndIn struct {
	A map[string]string
	B string
}

func TestC15BaselineAddEndBypassesOverlapCheck(t *testing.T) {
	ctx := context.Background()
	wf := NewWorkflow[c15bEndIn, c15bEndOut]()
	wf.AddLambdaNode("n", InvokableLambda(func(ctx context.Context, in c15bEndIn) (c15bEndIn, error) { return in, nil })).AddInput(START)
	wf.AddEnd(START, MapFields("A", "M"))
	wf.End().AddInput("n", MapFieldPaths(FieldPath{"B"}, FieldPath{"M", "k"}))
	r, err := wf.Compile(ctx)
	if err != nil {
		t.Logf("compile rejected the overlapping targets (fine): %v", err)
		return
	}

	seen := map[string]int{}
	modified := 0
	for i := 0; i < 300; i++ {
		in := c15bEndIn{A: map[string]string{"a": "1"}, B: "b"}
		out, err := r.Invoke(ctx, in)
		if err != nil {
			t.Fatal(err)
		}
		seen[fmt.Sprintf("%+v", out)]++
		if len(in.A) != 1 {
			modified++
		}
	}
	if len(seen) != 1 || modified > 0 {
		t.Fatalf("compile accepted a path (via AddEnd) together with one of its sub-paths; outputs over 300 runs: %v; "+
			"runs in which the predecessor's own output map was modified: %d", seen, modified)
	}
}
