package compose

import (
	"context"
	"testing"
)

// C15bEmb is embedded by pointer: its field X is promoted, reflect.Type.FieldByName finds it at compile time,
// reflect.Value.FieldByName panics at run time when the embedded pointer is nil.
type C15bEmb struct{ X string }

type c15bEmbSrc struct {
	*C15bEmb
	Y string
}

type c15bEmbDst struct {
	*C15bEmb
	Y string
}

func c15bNoPanic(t *testing.T, what string, f func()) {
	t.Helper()
	defer func() {
		if p := recover(); p != nil {
			t.Fatalf("%s panicked instead of returning an error: %v", what, p)
		}
	}()
	f()
}

// source side: the mapping is accepted, works for a non-nil embedded pointer and panics for a nil one
func TestC15BaselinePromotedFieldFromNilEmbeddedPointer(t *testing.T) {
	ctx := context.Background()
	wf := NewWorkflow[c15bEmbSrc, string]()
	wf.End().AddInput(START, FromField("X"))
	r, err := wf.Compile(ctx)
	if err != nil {
		t.Skipf("rejected at compile time (fine): %v", err)
	}

	out, err := r.Invoke(ctx, c15bEmbSrc{C15bEmb: &C15bEmb{X: "x"}})
	if err != nil || out != "x" {
		t.Fatalf("non-nil embedded pointer: out=%q err=%v", out, err)
	}

	c15bNoPanic(t, "Invoke with a nil embedded pointer in the predecessor's output", func() {
		_, err = r.Invoke(ctx, c15bEmbSrc{Y: "y"})
		t.Logf("err=%v", err)
	})
}

// target side: the successor input is built from its zero value, so the embedded pointer is always nil
func TestC15BaselinePromotedFieldToNilEmbeddedPointer(t *testing.T) {
	ctx := context.Background()
	wf := NewWorkflow[string, c15bEmbDst]()
	wf.End().AddInput(START, ToField("X"))
	r, err := wf.Compile(ctx)
	if err != nil {
		t.Skipf("rejected at compile time (fine): %v", err)
	}

	c15bNoPanic(t, "Invoke of a mapping to a field promoted through an embedded pointer", func() {
		out, err := r.Invoke(ctx, "x")
		if err == nil && (out.C15bEmb == nil || out.X != "x") {
			t.Fatalf("no error and the value did not arrive: %+v", out)
		}
		t.Logf("out=%+v err=%v", out, err)
	})
}
