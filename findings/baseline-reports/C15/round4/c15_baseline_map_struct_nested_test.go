package compose

import (
	"context"
	"reflect"
	"testing"
)

type c15bInner struct{ G string }

type c15bEntry struct {
	F c15bInner
	A any
	H string
}

type c15bTarget struct {
	M map[string]c15bEntry
}

// A target path that goes through a struct-valued (non-pointer) map entry and then through at least one more
// struct level: Compile accepts the mapping, the run reports no error, and the value never arrives.
func TestC15BaselineValueLostBelowStructMapEntry(t *testing.T) {
	ctx := context.Background()

	t.Run("map entry . struct field . field", func(t *testing.T) {
		wf := NewWorkflow[string, c15bTarget]()
		wf.End().AddInput(START, ToFieldPath(FieldPath{"M", "k", "F", "G"}))
		r, err := wf.Compile(ctx)
		if err != nil {
			t.Fatal(err)
		}
		out, err := r.Invoke(ctx, "hello")
		if err != nil {
			t.Fatal(err)
		}
		want := c15bTarget{M: map[string]c15bEntry{"k": {F: c15bInner{G: "hello"}}}}
		if !reflect.DeepEqual(want, out) {
			t.Fatalf("want %+v, got %+v", want, out)
		}
	})

	t.Run("top-level map entry . struct field . field", func(t *testing.T) {
		wf := NewWorkflow[string, map[string]c15bEntry]()
		wf.End().AddInput(START, ToFieldPath(FieldPath{"k", "F", "G"}))
		r, err := wf.Compile(ctx)
		if err != nil {
			t.Fatal(err)
		}
		out, err := r.Invoke(ctx, "hello")
		if err != nil {
			t.Fatal(err)
		}
		want := map[string]c15bEntry{"k": {F: c15bInner{G: "hello"}}}
		if !reflect.DeepEqual(want, out) {
			t.Fatalf("want %+v, got %+v", want, out)
		}
	})

	t.Run("map entry . any field . key", func(t *testing.T) {
		wf := NewWorkflow[string, map[string]c15bEntry]()
		wf.End().AddInput(START, ToFieldPath(FieldPath{"k", "A", "x"}))
		r, err := wf.Compile(ctx)
		if err != nil {
			t.Fatal(err)
		}
		out, err := r.Invoke(ctx, "hello")
		if err != nil {
			t.Fatal(err)
		}
		want := map[string]c15bEntry{"k": {A: map[string]any{"x": "hello"}}}
		if !reflect.DeepEqual(want, out) {
			t.Fatalf("want %+v, got %+v", want, out)
		}
	})

	// control: one level less works
	t.Run("control: map entry . field", func(t *testing.T) {
		wf := NewWorkflow[string, map[string]c15bEntry]()
		wf.End().AddInput(START, ToFieldPath(FieldPath{"k", "H"}))
		r, err := wf.Compile(ctx)
		if err != nil {
			t.Fatal(err)
		}
		out, err := r.Invoke(ctx, "hello")
		if err != nil {
			t.Fatal(err)
		}
		want := map[string]c15bEntry{"k": {H: "hello"}}
		if !reflect.DeepEqual(want, out) {
			t.Fatalf("want %+v, got %+v", want, out)
		}
	})
}
