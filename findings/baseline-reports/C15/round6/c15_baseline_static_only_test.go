package compose

import (
	"context"
	"reflect"
	"testing"
)

type c15bCfg struct {
	Greeting string
	Times    int
}

// A node whose input is filled from static values only (SetStaticValue) and that is scheduled by a control-only
// dependency (AddDependency). Compile accepts it. The node must then get an input holding exactly the static values.
func TestC15BaselineStaticValuesOnly(t *testing.T) {
	ctx := context.Background()

	t.Run("map input (control: works)", func(t *testing.T) {
		wf := NewWorkflow[string, map[string]any]()
		wf.AddLambdaNode("n", InvokableLambda(func(ctx context.Context, in map[string]any) (map[string]any, error) {
			return in, nil
		})).AddDependency(START).
			SetStaticValue(FieldPath{"Greeting"}, "hi").
			SetStaticValue(FieldPath{"Times"}, 2)
		wf.End().AddInput("n")
		r, err := wf.Compile(ctx)
		if err != nil {
			t.Fatalf("compile: %v", err)
		}
		want := map[string]any{"Greeting": "hi", "Times": 2}

		got, err := r.Invoke(ctx, "x")
		if err != nil || !reflect.DeepEqual(got, want) {
			t.Errorf("Invoke = %v, %v; want %v", got, err, want)
		}
		sr, err := r.Stream(ctx, "x")
		if err != nil {
			t.Fatalf("Stream: %v", err)
		}
		got, err = concatStreamReader(sr)
		if err != nil || !reflect.DeepEqual(got, want) {
			t.Errorf("Stream = %v, %v; want %v", got, err, want)
		}
	})

	t.Run("struct input with one mapped field besides the static one (control: works in Invoke)", func(t *testing.T) {
		wf := NewWorkflow[string, c15bCfg]()
		wf.AddLambdaNode("n", InvokableLambda(func(ctx context.Context, in c15bCfg) (c15bCfg, error) {
			return in, nil
		})).AddInput(START, ToField("Greeting")).
			SetStaticValue(FieldPath{"Times"}, 2)
		wf.End().AddInput("n")
		r, err := wf.Compile(ctx)
		if err != nil {
			t.Fatalf("compile: %v", err)
		}
		want := c15bCfg{Greeting: "hi", Times: 2}
		got, err := r.Invoke(ctx, "hi")
		if err != nil || got != want {
			t.Errorf("Invoke = %+v, %v; want %+v", got, err, want)
		}
	})

	t.Run("struct input, static values only", func(t *testing.T) {
		wf := NewWorkflow[string, c15bCfg]()
		wf.AddLambdaNode("n", InvokableLambda(func(ctx context.Context, in c15bCfg) (c15bCfg, error) {
			return in, nil
		})).AddDependency(START).
			SetStaticValue(FieldPath{"Greeting"}, "hi").
			SetStaticValue(FieldPath{"Times"}, 2)
		wf.End().AddInput("n")
		r, err := wf.Compile(ctx)
		if err != nil {
			t.Skipf("compile rejects it (that would be fine too): %v", err)
		}
		want := c15bCfg{Greeting: "hi", Times: 2}

		got, err := r.Invoke(ctx, "x")
		if err != nil || got != want {
			t.Errorf("Invoke = %+v, %v; want %+v", got, err, want)
		}
		sr, err := r.Stream(ctx, "x")
		if err != nil {
			t.Errorf("Stream: %v", firstLine(err))
			return
		}
		got, err = concatStreamReader(sr)
		if err != nil || got != want {
			t.Errorf("Stream = %+v, %v; want %+v", got, firstLine(err), want)
		}
	})
}

func firstLine(err error) string {
	if err == nil {
		return "<nil>"
	}
	s := err.Error()
	for i := 0; i < len(s); i++ {
		if s[i] == '\n' && i > 40 {
			return s[:i] + " ..."
		}
	}
	return s
}
