package react

import (
	"context"
	"sort"
	"strings"
	"sync"
	"testing"

	"github.com/cloudwego/eino/components/model"
	"github.com/cloudwego/eino/components/tool"
	"github.com/cloudwego/eino/compose"
	"github.com/cloudwego/eino/schema"
)

type c05bStore struct {
	mu sync.Mutex
	m  map[string][]byte
}

func (s *c05bStore) Get(_ context.Context, id string) ([]byte, bool, error) {
	s.mu.Lock()
	defer s.mu.Unlock()
	v, ok := s.m[id]
	if !ok {
		return nil, false, nil
	}
	return append([]byte(nil), v...), true, nil
}

func (s *c05bStore) Set(_ context.Context, id string, data []byte) error {
	s.mu.Lock()
	defer s.mu.Unlock()
	s.m[id] = append([]byte(nil), data...)
	return nil
}

type c05bLog struct {
	mu    sync.Mutex
	calls []string
}

func (l *c05bLog) add(s string) {
	l.mu.Lock()
	defer l.mu.Unlock()
	l.calls = append(l.calls, s)
}

func (l *c05bLog) sorted() string {
	l.mu.Lock()
	defer l.mu.Unlock()
	r := append([]string(nil), l.calls...)
	sort.Strings(r)
	return strings.Join(r, " ")
}

// the model asks for the tool once, then answers.
type c05bModel struct{ log *c05bLog }

func (m *c05bModel) Generate(_ context.Context, input []*schema.Message, _ ...model.Option) (*schema.Message, error) {
	roles := make([]string, 0, len(input))
	for _, msg := range input {
		if msg == nil {
			roles = append(roles, "<nil>")
			continue
		}
		roles = append(roles, string(msg.Role))
	}
	m.log.add("model(" + strings.Join(roles, ",") + ")")
	if len(input) > 1 {
		return schema.AssistantMessage("done: "+input[len(input)-1].Content, nil), nil
	}
	return schema.AssistantMessage("", []schema.ToolCall{
		{ID: "call_1", Type: "function", Function: schema.FunctionCall{Name: "approve", Arguments: `{"x":1}`}},
	}), nil
}

func (m *c05bModel) Stream(ctx context.Context, input []*schema.Message, opts ...model.Option) (*schema.StreamReader[*schema.Message], error) {
	msg, err := m.Generate(ctx, input, opts...)
	if err != nil {
		return nil, err
	}
	return schema.StreamReaderFromArray([]*schema.Message{msg}), nil
}

func (m *c05bModel) WithTools(_ []*schema.ToolInfo) (model.ToolCallingChatModel, error) { return m, nil }

// the tool asks for an interrupt (human approval) the first time it is called.
type c05bTool struct {
	log   *c05bLog
	ask   bool
	asked bool
}

func (t *c05bTool) Info(_ context.Context) (*schema.ToolInfo, error) {
	return &schema.ToolInfo{Name: "approve", Desc: "approve"}, nil
}

func (t *c05bTool) InvokableRun(_ context.Context, args string, _ ...tool.Option) (string, error) {
	if t.ask && !t.asked {
		t.asked = true
		return "", compose.InterruptAndRerun
	}
	t.log.add("approve(" + args + ")")
	return "approved", nil
}

func c05bAgent(t *testing.T, l *c05bLog, ask bool) compose.Runnable[[]*schema.Message, *schema.Message] {
	ctx := context.Background()
	agent, err := NewAgent(ctx, &AgentConfig{
		ToolCallingModel: &c05bModel{log: l},
		ToolsConfig:      compose.ToolsNodeConfig{Tools: []tool.BaseTool{&c05bTool{log: l, ask: ask}}},
		MaxStep:          20,
	})
	if err != nil {
		t.Fatal(err)
	}
	agentGraph, opts := agent.ExportGraph()
	g := compose.NewGraph[[]*schema.Message, *schema.Message]()
	if err = g.AddGraphNode("agent", agentGraph, opts...); err != nil {
		t.Fatal(err)
	}
	if err = g.AddEdge(compose.START, "agent"); err != nil {
		t.Fatal(err)
	}
	if err = g.AddEdge("agent", compose.END); err != nil {
		t.Fatal(err)
	}
	r, err := g.Compile(ctx, compose.WithCheckPointStore(&c05bStore{m: map[string][]byte{}}))
	if err != nil {
		t.Fatal(err)
	}
	return r
}

func TestC05BaselineReactToolAsksForInterrupt(t *testing.T) {
	ctx := context.Background()
	in := []*schema.Message{schema.UserMessage("please")}

	refLog := &c05bLog{}
	want, err := c05bAgent(t, refLog, false).Invoke(ctx, in)
	if err != nil {
		t.Fatal(err)
	}

	l := &c05bLog{}
	r := c05bAgent(t, l, true)
	_, err = r.Invoke(ctx, in, compose.WithCheckPointID("cp"))
	info, ok := compose.ExtractInterruptInfo(err)
	if !ok {
		t.Fatalf("expected an interrupt, got %v", err)
	}
	t.Logf("interrupt info: %+v sub: %+v", info, info.SubGraphs["agent"])

	var got *schema.Message
	func() {
		defer func() {
			if p := recover(); p != nil {
				t.Fatalf("resumed run panicked: %v", p)
			}
		}()
		got, err = r.Invoke(ctx, nil, compose.WithCheckPointID("cp"))
	}()
	if err != nil {
		t.Fatalf("resumed run failed: %v", err)
	}
	if got.Content != want.Content {
		t.Errorf("resumed run returned %q, uninterrupted run returned %q", got.Content, want.Content)
	}
	if a, b := l.sorted(), refLog.sorted(); a != b {
		t.Errorf("invocations differ:\n interrupted+resumed: %s\n uninterrupted:       %s", a, b)
	}
}
