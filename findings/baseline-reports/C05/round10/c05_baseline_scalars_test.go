package compose

import (
	"context"
	"fmt"
	"math"
	"testing"
)

type c05bScalarState struct {
	V any
}

// A value of a scalar type that the checkpoint serializer registers itself (_eino_float64, _eino_complex128, ...) is
// kept in the state; the run is interrupted after node "a" and resumed; node "b" reports what it finds in the state.
func TestC05BaselineScalarStateValues(t *testing.T) {
	_ = RegisterSerializableType[c05bScalarState]("c05b_scalar_state")

	desc := func(v any) string {
		if f, ok := v.(float64); ok {
			return fmt.Sprintf("float64 %v signbit=%v", f, math.Signbit(f))
		}
		return fmt.Sprintf("%T %v", v, v)
	}

	for name, v := range map[string]any{
		"float64":       1.5, // control: passes
		"complex128":    complex(1, 2),
		"complex64":     complex64(complex(1, 2)),
		"+Inf":          math.Inf(1),
		"NaN":           math.NaN(),
		"negative zero": math.Copysign(0, -1),
	} {
		v := v
		t.Run(name, func(t *testing.T) {
			build := func(interrupt bool) Runnable[string, string] {
				g := NewGraph[string, string](WithGenLocalState(func(ctx context.Context) *c05bScalarState {
					return &c05bScalarState{V: v}
				}))
				_ = g.AddLambdaNode("a", InvokableLambda(func(ctx context.Context, in string) (string, error) { return in, nil }))
				_ = g.AddLambdaNode("b", InvokableLambda(func(ctx context.Context, in string) (string, error) {
					var out string
					err := ProcessState[*c05bScalarState](ctx, func(ctx context.Context, s *c05bScalarState) error {
						out = desc(s.V)
						return nil
					})
					return out, err
				}))
				_ = g.AddEdge(START, "a")
				_ = g.AddEdge("a", "b")
				_ = g.AddEdge("b", END)
				opts := []GraphCompileOption{WithCheckPointStore(newInMemoryStore())}
				if interrupt {
					opts = append(opts, WithInterruptAfterNodes([]string{"a"}))
				}
				r, err := g.Compile(context.Background(), opts...)
				if err != nil {
					t.Fatal(err)
				}
				return r
			}
			ctx := context.Background()
			want, err := build(false).Invoke(ctx, "x")
			if err != nil {
				t.Fatal(err)
			}
			r := build(true)
			_, err = r.Invoke(ctx, "x", WithCheckPointID("1"))
			if _, ok := ExtractInterruptInfo(err); !ok {
				t.Fatalf("the run could not be interrupted: %v", err)
			}
			got, err := r.Invoke(ctx, "x", WithCheckPointID("1"))
			if err != nil {
				t.Fatalf("resumed run failed: %v", err)
			}
			if got != want {
				t.Errorf("resumed run returned %q, uninterrupted run returned %q", got, want)
			}
		})
	}
}
