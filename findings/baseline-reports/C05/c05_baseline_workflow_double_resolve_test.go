package compose

import (
	"context"
	"sync"
	"sync/atomic"
	"testing"
	"time"
)

// Baseline reproducer 1 (fails on the UNMODIFIED tree).
//
// Workflow (DAG, eager execution):   START -> P ;  P -> A ;  P -> C ;  N <- {P, A} ;  END <- {N, C}
// "A" is configured as an interrupt-after node, "C" asks for an interrupt itself (InterruptAndRerun) and is still
// running when A completes.
//
// runner.run, on A's completion, first calls calculateNextTasks([A]): A's output is written to N's channel, N
// becomes ready, its input (P's and A's values) is TAKEN OUT of the channel into nextTasks and the channel is reset.
// Because A is an interrupt-after node the runner then waits for the in-flight tasks; C reports InterruptAndRerun,
// so the run goes to handleInterruptWithSubGraphAndRerunNodes(append(completedTasks, newCompletedTasks...)), which
// resolves A A SECOND TIME (only A's value is written to N's channel again) and drops nextTasks. The checkpoint
// therefore lacks P's value for N: after the resume N never becomes ready and the run dies with
// "no tasks to execute" instead of producing the output of the uninterrupted run.
// If C finishes before A (control test below) everything works, so the defect depends on the schedule only.

type c05bState struct {
	CIn string
}

func init() {
	_ = RegisterSerializableType[c05bState]("c05_baseline_state")
}

type c05bSchedule int

const (
	c05bCAfterA c05bSchedule = iota // C is still running when the runner handles A's completion
	c05bCBeforeA
)

func buildC05bWorkflow(t *testing.T, interrupting bool, sched c05bSchedule, opts ...GraphCompileOption) Runnable[string, map[string]any] {
	var cCalls int32
	aHandled := make(chan struct{})
	var once sync.Once

	wf := NewWorkflow[string, map[string]any](WithGenLocalState(func(ctx context.Context) *c05bState { return &c05bState{} }))
	wf.AddLambdaNode("P", InvokableLambda(func(ctx context.Context, in string) (string, error) {
		return in + "-P", nil
	})).AddInput(START)
	wf.AddLambdaNode("A", InvokableLambda(func(ctx context.Context, in string) (string, error) {
		if interrupting && sched == c05bCBeforeA {
			time.Sleep(200 * time.Millisecond)
		}
		return in + "-A", nil
	}), WithStatePostHandler(func(ctx context.Context, out string, s *c05bState) (string, error) {
		// runs on the runner's goroutine when it picks up A's completion
		once.Do(func() { close(aHandled) })
		return out, nil
	})).AddInput("P")
	wf.AddLambdaNode("C", InvokableLambda(func(ctx context.Context, in string) (string, error) {
		if interrupting && atomic.AddInt32(&cCalls, 1) == 1 {
			if sched == c05bCAfterA {
				<-aHandled
			}
			return "", InterruptAndRerun
		}
		return in + "-C", nil
	}), WithStatePreHandler(func(ctx context.Context, in string, s *c05bState) (string, error) {
		if in == "" { // re-run after the interrupt: rebuild the input from the state
			return s.CIn, nil
		}
		s.CIn = in
		return in, nil
	})).AddInput("P")
	wf.AddLambdaNode("N", InvokableLambda(func(ctx context.Context, in map[string]any) (string, error) {
		p, _ := in["p"].(string)
		a, _ := in["a"].(string)
		return "N(" + p + "," + a + ")", nil
	})).AddInput("P", ToField("p")).AddInput("A", ToField("a"))
	wf.End().AddInput("N", ToField("n")).AddInput("C", ToField("c"))
	r, err := wf.Compile(context.Background(), opts...)
	if err != nil {
		t.Fatal(err)
	}
	return r
}

func runC05bBaseline(t *testing.T, sched c05bSchedule) {
	ctx := context.Background()
	want, err := buildC05bWorkflow(t, false, sched).Invoke(ctx, "in")
	if err != nil {
		t.Fatalf("reference run failed: %v", err)
	}

	r := buildC05bWorkflow(t, true, sched, WithCheckPointStore(newInMemoryStore()), WithInterruptAfterNodes([]string{"A"}))
	var got map[string]any
	for i := 0; ; i++ {
		got, err = r.Invoke(ctx, "in", WithCheckPointID("cp"))
		if err == nil {
			break
		}
		info, ok := ExtractInterruptInfo(err)
		if !ok {
			t.Fatalf("call %d: the run did not complete and did not interrupt: %v", i, err)
		}
		t.Logf("call %d interrupted: after=%v rerun=%v", i, info.AfterNodes, info.RerunNodes)
		if i > 5 {
			t.Fatal("too many interrupts")
		}
	}
	if len(got) != len(want) || got["n"] != want["n"] || got["c"] != want["c"] {
		t.Fatalf("resumed output %v differs from uninterrupted output %v", got, want)
	}
}

// FAILS on the unmodified tree.
func TestC05BaselineWorkflowInterruptAfterPlusRerunLosesInput(t *testing.T) {
	runC05bBaseline(t, c05bCAfterA)
}

// Control: same workflow, C completes before A. Passes.
func TestC05BaselineWorkflowControlOtherSchedule(t *testing.T) {
	runC05bBaseline(t, c05bCBeforeA)
}
