package compose

import (
	"context"
	"fmt"
	"testing"

	"github.com/cloudwego/eino/schema"
)

type c05bStore struct{ m map[string][]byte }

func (s *c05bStore) Get(_ context.Context, id string) ([]byte, bool, error) {
	v, ok := s.m[id]
	return v, ok, nil
}

func (s *c05bStore) Set(_ context.Context, id string, cp []byte) error {
	s.m[id] = append([]byte(nil), cp...)
	return nil
}

// runs to completion, resuming after every interrupt
func c05bRun[O any](t *testing.T, r Runnable[string, O], in string, opts ...Option) (O, int, error) {
	t.Helper()
	var zero O
	for n := 0; n < 10; n++ {
		out, err := r.Invoke(context.Background(), in, opts...)
		if err == nil {
			return out, n, nil
		}
		if _, ok := ExtractInterruptInfo(err); !ok {
			return zero, n, err
		}
	}
	return zero, 10, fmt.Errorf("too many interrupts")
}

// 1. A message with multi-modal content (or with log probs) is a built-in eino type; RegisterSerializableType's doc
// says "All built-in eino types are already registered". A run whose pending input (or state) holds such a message
// cannot be interrupted: saving the checkpoint fails with "unknown type: schema.ChatMessagePartType" /
// "unknown type: schema.LogProb", the caller gets a plain error instead of the interrupt and nothing can be resumed.
func TestC05BaselineBuiltInMessageTypesNotRegistered(t *testing.T) {
	msgs := map[string]*schema.Message{
		"multi content": {
			Role: schema.User,
			MultiContent: []schema.ChatMessagePart{
				{Type: schema.ChatMessagePartTypeText, Text: "what is in the picture"},
				{Type: schema.ChatMessagePartTypeImageURL, ImageURL: &schema.ChatMessageImageURL{URL: "https://example.invalid/a.png", Detail: schema.ImageURLDetailAuto}},
			},
		},
		"log probs": {
			Role:    schema.Assistant,
			Content: "hi",
			ResponseMeta: &schema.ResponseMeta{
				FinishReason: "stop",
				LogProbs:     &schema.LogProbs{Content: []schema.LogProb{{Token: "hi", LogProb: -0.1, TopLogProbs: []schema.TopLogProb{{Token: "hi", LogProb: -0.1}}}}},
			},
		},
	}
	for name, msg := range msgs {
		t.Run(name, func(t *testing.T) {
			build := func(interrupt bool) Runnable[string, string] {
				g := NewGraph[string, string]()
				_ = g.AddLambdaNode("make", InvokableLambda(func(ctx context.Context, in string) (*schema.Message, error) {
					return msg, nil
				}))
				_ = g.AddLambdaNode("use", InvokableLambda(func(ctx context.Context, in *schema.Message) (string, error) {
					s := in.Content
					for _, p := range in.MultiContent {
						s += "|" + string(p.Type) + ":" + p.Text
						if p.ImageURL != nil {
							s += p.ImageURL.URL
						}
					}
					if in.ResponseMeta != nil && in.ResponseMeta.LogProbs != nil {
						s += fmt.Sprint(in.ResponseMeta.LogProbs.Content[0].LogProb)
					}
					return s, nil
				}))
				_ = g.AddEdge(START, "make")
				_ = g.AddEdge("make", "use")
				_ = g.AddEdge("use", END)
				opts := []GraphCompileOption{WithCheckPointStore(&c05bStore{m: map[string][]byte{}})}
				if interrupt {
					opts = append(opts, WithInterruptBeforeNodes([]string{"use"}))
				}
				r, err := g.Compile(context.Background(), opts...)
				if err != nil {
					t.Fatal(err)
				}
				return r
			}
			want, _, err := c05bRun(t, build(false), "in")
			if err != nil {
				t.Fatal(err)
			}
			got, n, err := c05bRun(t, build(true), "in", WithCheckPointID("cp"))
			if err != nil {
				t.Fatalf("interrupted run (after %d interrupts): %v", n, err)
			}
			if n != 1 || got != want {
				t.Errorf("interrupted %d times, got %q, the uninterrupted run returns %q", n, got, want)
			}
		})
	}
}

type c05bBase struct {
	Count int
	Notes []string
}

type c05bState struct {
	c05bBase // embedded, the type is not exported: Count and Notes are promoted, exported fields of c05bState
	Name     string
}

// 2. The fields a state struct gets from an embedded struct whose type name is not exported are silently dropped by
// the checkpoint serializer (encoding/json, and every other Go encoder, treats them as exported fields of the outer
// struct): after a resume they are back to their zero values, everything else is kept, no error anywhere.
func TestC05BaselineEmbeddedUnexportedStructInStateIsLost(t *testing.T) {
	_ = RegisterSerializableType[c05bState]("c05b_state")
	_ = RegisterSerializableType[c05bBase]("c05b_base")

	build := func(interrupt bool) Runnable[string, string] {
		g := NewGraph[string, string](WithGenLocalState(func(ctx context.Context) *c05bState { return &c05bState{} }))
		_ = g.AddLambdaNode("count", InvokableLambda(func(ctx context.Context, in string) (string, error) {
			return in, ProcessState[*c05bState](ctx, func(ctx context.Context, s *c05bState) error {
				s.Count = len(in)
				s.Notes = append(s.Notes, "counted "+in)
				s.Name = "n:" + in
				return nil
			})
		}))
		_ = g.AddLambdaNode("report", InvokableLambda(func(ctx context.Context, in string) (string, error) {
			var out string
			err := ProcessState[*c05bState](ctx, func(ctx context.Context, s *c05bState) error {
				out = fmt.Sprintf("%s count=%d notes=%v name=%s", in, s.Count, s.Notes, s.Name)
				return nil
			})
			return out, err
		}))
		_ = g.AddEdge(START, "count")
		_ = g.AddEdge("count", "report")
		_ = g.AddEdge("report", END)
		opts := []GraphCompileOption{WithCheckPointStore(&c05bStore{m: map[string][]byte{}})}
		if interrupt {
			opts = append(opts, WithInterruptAfterNodes([]string{"count"}))
		}
		r, err := g.Compile(context.Background(), opts...)
		if err != nil {
			t.Fatal(err)
		}
		return r
	}
	want, _, err := c05bRun(t, build(false), "input")
	if err != nil {
		t.Fatal(err)
	}
	got, n, err := c05bRun(t, build(true), "input", WithCheckPointID("cp"))
	if err != nil {
		t.Fatalf("interrupted run (after %d interrupts): %v", n, err)
	}
	if n != 1 || got != want {
		t.Errorf("interrupted %d times\n got  %q\n want %q (uninterrupted run)", n, got, want)
	}
}
