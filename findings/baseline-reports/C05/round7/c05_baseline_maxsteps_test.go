package compose

import (
	"context"
	"errors"
	"testing"
)

type c05bState struct {
	N int
}

func init() {
	_ = RegisterSerializableType[c05bState]("c05_baseline_maxsteps_state")
}

type c05bStore struct{ m map[string][]byte }

func (s *c05bStore) Get(_ context.Context, id string) ([]byte, bool, error) {
	v, ok := s.m[id]
	return append([]byte(nil), v...), ok, nil
}

func (s *c05bStore) Set(_ context.Context, id string, data []byte) error {
	s.m[id] = append([]byte(nil), data...)
	return nil
}

// c05bBuild: START -> A -> branch{A, END}; A is executed six times (the count is kept in the state), the graph
// is compiled with WithMaxRunSteps(3).
func c05bBuild(t *testing.T, interruptBefore []string) Runnable[string, string] {
	g := NewGraph[string, string](WithGenLocalState(func(ctx context.Context) *c05bState { return &c05bState{} }))
	err := g.AddLambdaNode("A", InvokableLambda(func(ctx context.Context, in string) (string, error) {
		e := ProcessState(ctx, func(ctx context.Context, s *c05bState) error { s.N++; return nil })
		return in + "A", e
	}))
	if err != nil {
		t.Fatal(err)
	}
	if err = g.AddEdge(START, "A"); err != nil {
		t.Fatal(err)
	}
	err = g.AddBranch("A", NewGraphBranch(func(ctx context.Context, in string) (string, error) {
		next := "A"
		e := ProcessState(ctx, func(ctx context.Context, s *c05bState) error {
			if s.N >= 6 {
				next = END
			}
			return nil
		})
		return next, e
	}, map[string]bool{"A": true, END: true}))
	if err != nil {
		t.Fatal(err)
	}
	r, err := g.Compile(context.Background(),
		WithCheckPointStore(&c05bStore{m: map[string][]byte{}}),
		WithMaxRunSteps(3),
		WithInterruptBeforeNodes(interruptBefore))
	if err != nil {
		t.Fatal(err)
	}
	return r
}

// TestC05BaselineMaxStepsResetByResume: the uninterrupted run needs 6 steps and is refused by the limit of 3
// (ErrExceedMaxSteps). The same run, interrupted before every execution of A and resumed, completes: every resume starts
// counting its steps from zero again, so the interrupted+resumed run is NOT equivalent to the uninterrupted one (the
// step limit, which exists to stop runaway loops, is defeated by interrupt points inside the loop).
func TestC05BaselineMaxStepsResetByResume(t *testing.T) {
	ctx := context.Background()

	_, refErr := c05bBuild(t, nil).Invoke(ctx, "x")
	if !errors.Is(refErr, ErrExceedMaxSteps) {
		t.Fatalf("uninterrupted run: expected ErrExceedMaxSteps, got %v", refErr)
	}

	r := c05bBuild(t, []string{"A"})
	var out string
	var err error
	calls := 0
	for ; calls < 20; calls++ {
		out, err = r.Invoke(ctx, "x", WithCheckPointID("cp"))
		if err == nil {
			break
		}
		if _, ok := ExtractInterruptInfo(err); !ok {
			break
		}
	}
	if !errors.Is(err, ErrExceedMaxSteps) {
		t.Errorf("the uninterrupted run fails with ErrExceedMaxSteps (limit 3, 6 steps needed), "+
			"but the interrupted+resumed run ended after %d calls with output %q, err %v", calls+1, out, err)
	}
}
