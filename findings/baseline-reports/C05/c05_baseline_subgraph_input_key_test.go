package compose

import (
	"context"
	"io"
	"testing"
)

// Baseline reproducer 2 (fails on the UNMODIFIED tree).
//
// A nested graph added with WithInputKey that is interrupted inside cannot be resumed through Invoke.
// On the interrupt the parent stores the node's zero input (a nil map[string]any) for the nested-graph task and
// marks it skipPreHandler; on the resume the task is re-created with that input and run through
// inputKeyedComposableRunnable, whose Invoke form looks the key up in the (empty) map BEFORE calling the nested
// runner and fails with "cannot find input key: k" - although the nested runner ignores its input when it resumes
// from a checkpoint. The Stream form of the same wrapper tolerates the missing key (the stream filter just yields
// an empty stream), so the very same checkpoint resumes fine through Stream: the paradigms are not equivalent.

func buildC05bInputKeyGraph(t *testing.T, subOpts ...GraphCompileOption) Runnable[string, string] {
	ctx := context.Background()
	sub := NewGraph[string, string]()
	_ = sub.AddLambdaNode("s1", InvokableLambda(func(ctx context.Context, in string) (string, error) { return in + "-s1", nil }))
	_ = sub.AddLambdaNode("s2", InvokableLambda(func(ctx context.Context, in string) (string, error) { return in + "-s2", nil }))
	_ = sub.AddEdge(START, "s1")
	_ = sub.AddEdge("s1", "s2")
	_ = sub.AddEdge("s2", END)

	g := NewGraph[string, string]()
	_ = g.AddLambdaNode("a", InvokableLambda(func(ctx context.Context, in string) (string, error) { return in + "-a", nil }), WithOutputKey("k"))
	_ = g.AddGraphNode("sub", sub, WithInputKey("k"), WithGraphCompileOptions(subOpts...))
	_ = g.AddEdge(START, "a")
	_ = g.AddEdge("a", "sub")
	_ = g.AddEdge("sub", END)
	r, err := g.Compile(ctx, WithCheckPointStore(newInMemoryStore()))
	if err != nil {
		t.Fatal(err)
	}
	return r
}

// FAILS on the unmodified tree: "[NodeRunError] cannot find input key: k, node path: [sub]".
func TestC05BaselineNestedGraphWithInputKeyResumeByInvoke(t *testing.T) {
	ctx := context.Background()
	want, err := buildC05bInputKeyGraph(t).Invoke(ctx, "in")
	if err != nil {
		t.Fatal(err)
	}
	r := buildC05bInputKeyGraph(t, WithInterruptAfterNodes([]string{"s1"}))
	_, err = r.Invoke(ctx, "in", WithCheckPointID("x"))
	if _, ok := ExtractInterruptInfo(err); !ok {
		t.Fatalf("expected an interrupt, got: %v", err)
	}
	got, err := r.Invoke(ctx, "in", WithCheckPointID("x"))
	if err != nil {
		t.Fatalf("resume by Invoke failed: %v", err)
	}
	if got != want {
		t.Fatalf("resumed output %q differs from uninterrupted output %q", got, want)
	}
}

// Control: the same checkpoint (written by Invoke) resumed through Stream works. Passes.
func TestC05BaselineNestedGraphWithInputKeyResumeByStream(t *testing.T) {
	ctx := context.Background()
	want, err := buildC05bInputKeyGraph(t).Invoke(ctx, "in")
	if err != nil {
		t.Fatal(err)
	}
	r := buildC05bInputKeyGraph(t, WithInterruptAfterNodes([]string{"s1"}))
	_, err = r.Invoke(ctx, "in", WithCheckPointID("x"))
	if _, ok := ExtractInterruptInfo(err); !ok {
		t.Fatalf("expected an interrupt, got: %v", err)
	}
	sr, err := r.Stream(ctx, "in", WithCheckPointID("x"))
	if err != nil {
		t.Fatalf("resume by Stream failed: %v", err)
	}
	got := ""
	for {
		c, e := sr.Recv()
		if e == io.EOF {
			break
		}
		if e != nil {
			t.Fatal(e)
		}
		got += c
	}
	if got != want {
		t.Fatalf("resumed output %q differs from uninterrupted output %q", got, want)
	}
}
