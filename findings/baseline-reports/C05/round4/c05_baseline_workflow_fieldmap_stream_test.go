package compose

import (
	"context"
	"io"
	"testing"
)

type c05In struct {
	X string
	Y string
}

func c05BuildWF(t *testing.T, store CheckPointStore, interruptAfter []string) Runnable[string, string] {
	wf := NewWorkflow[string, string]()
	wf.AddLambdaNode("A", InvokableLambda(func(ctx context.Context, in string) (string, error) { return in + "a", nil })).AddInput(START)
	wf.AddLambdaNode("B1", InvokableLambda(func(ctx context.Context, in string) (string, error) { return in + "b1", nil })).AddInput(START)
	wf.AddLambdaNode("B2", InvokableLambda(func(ctx context.Context, in string) (string, error) { return in + "b2", nil })).AddInput("B1")
	wf.AddLambdaNode("C", InvokableLambda(func(ctx context.Context, in c05In) (string, error) { return in.X + "|" + in.Y, nil })).
		AddInput("A", ToField("X")).AddInput("B2", ToField("Y"))
	wf.End().AddInput("C")
	opts := []GraphCompileOption{WithCheckPointStore(store)}
	if len(interruptAfter) > 0 {
		opts = append(opts, WithInterruptAfterNodes(interruptAfter))
	}
	r, err := wf.Compile(context.Background(), opts...)
	if err != nil {
		t.Fatal(err)
	}
	return r
}

func c05ReadAll(t *testing.T, sr interface{ Recv() (string, error) }) string {
	out := ""
	for {
		c, err := sr.Recv()
		if err == io.EOF {
			return out
		}
		if err != nil {
			t.Fatal(err)
		}
		out += c
	}
}

func TestC05BaseWorkflowStreamParked(t *testing.T) {
	ctx := context.Background()
	ref, err := c05BuildWF(t, newInMemoryStore(), nil).Invoke(ctx, "in")
	if err != nil {
		t.Fatal(err)
	}
	for _, mode := range []string{"II", "SS", "IS", "SI"} {
		r := c05BuildWF(t, newInMemoryStore(), []string{"B1"})
		run := func(stream bool) (string, error) {
			if stream {
				sr, err := r.Stream(ctx, "in", WithCheckPointID("x"))
				if err != nil {
					return "", err
				}
				return c05ReadAll(t, sr), nil
			}
			return r.Invoke(ctx, "in", WithCheckPointID("x"))
		}
		_, err := run(mode[0] == 'S')
		if _, ok := ExtractInterruptInfo(err); !ok {
			t.Errorf("mode %s: expected interrupt, got %v", mode, err)
			continue
		}
		out, err := run(mode[1] == 'S')
		if err != nil {
			t.Errorf("mode %s: resume failed: %v", mode, err)
			continue
		}
		if out != ref {
			t.Errorf("mode %s: got %q want %q", mode, out, ref)
		}
	}
}
