package compose

import (
	"context"
	"io"
	"testing"
)

func c05BuildMayAssign(t *testing.T, store CheckPointStore, interruptAfter []string) Runnable[string, string] {
	g := NewGraph[string, string]()
	_ = g.AddLambdaNode("A", InvokableLambda(func(ctx context.Context, in string) (any, error) { return map[string]any{"a": in + "a"}, nil }))
	_ = g.AddLambdaNode("B1", InvokableLambda(func(ctx context.Context, in string) (string, error) { return in + "b1", nil }))
	_ = g.AddLambdaNode("B2", InvokableLambda(func(ctx context.Context, in string) (any, error) { return map[string]any{"b": in + "b2"}, nil }))
	_ = g.AddLambdaNode("C", InvokableLambda(func(ctx context.Context, in map[string]any) (string, error) {
		return in["a"].(string) + "|" + in["b"].(string), nil
	}))
	for _, e := range [][2]string{{START, "A"}, {START, "B1"}, {"B1", "B2"}, {"B2", "C"}, {"A", "C"}, {"C", END}} {
		if err := g.AddEdge(e[0], e[1]); err != nil {
			t.Fatal(err)
		}
	}
	opts := []GraphCompileOption{WithCheckPointStore(store), WithNodeTriggerMode(AllPredecessor)}
	if len(interruptAfter) > 0 {
		opts = append(opts, WithInterruptAfterNodes(interruptAfter))
	}
	r, err := g.Compile(context.Background(), opts...)
	if err != nil {
		t.Fatal(err)
	}
	return r
}

func TestC05BaseMayAssignParked(t *testing.T) {
	ctx := context.Background()
	ref, err := c05BuildMayAssign(t, newInMemoryStore(), nil).Invoke(ctx, "in")
	if err != nil {
		t.Fatal(err)
	}
	sref, err := c05BuildMayAssign(t, newInMemoryStore(), nil).Stream(ctx, "in")
	if err != nil {
		t.Fatal(err)
	}
	if s := c05ReadAllMA(t, sref); s != ref {
		t.Fatalf("uninterrupted stream %q != invoke %q", s, ref)
	}
	for _, mode := range []string{"II", "SS", "IS", "SI"} {
		r := c05BuildMayAssign(t, newInMemoryStore(), []string{"B1"})
		run := func(stream bool) (string, error) {
			if stream {
				sr, err := r.Stream(ctx, "in", WithCheckPointID("x"))
				if err != nil {
					return "", err
				}
				return c05ReadAllMA(t, sr), nil
			}
			return r.Invoke(ctx, "in", WithCheckPointID("x"))
		}
		_, err := run(mode[0] == 'S')
		if _, ok := ExtractInterruptInfo(err); !ok {
			t.Errorf("mode %s: expected interrupt, got %v", mode, err)
			continue
		}
		out, err := run(mode[1] == 'S')
		if err != nil {
			t.Errorf("mode %s: resume failed: %v", mode, err)
			continue
		}
		if out != ref {
			t.Errorf("mode %s: got %q want %q", mode, out, ref)
		}
	}
}

func c05ReadAllMA(t *testing.T, sr interface{ Recv() (string, error) }) string {
	out := ""
	for {
		c, err := sr.Recv()
		if err == io.EOF {
			return out
		}
		if err != nil {
			t.Fatal(err)
		}
		out += c
	}
}
