package compose

import (
	"context"
	"testing"
)

func c05BuildInputKeySub(t *testing.T, store CheckPointStore, interrupt bool) Runnable[string, string] {
	sub := NewGraph[string, string]()
	_ = sub.AddLambdaNode("s1", InvokableLambda(func(ctx context.Context, in string) (string, error) { return in + "s1", nil }))
	_ = sub.AddLambdaNode("s2", InvokableLambda(func(ctx context.Context, in string) (string, error) { return in + "s2", nil }))
	_ = sub.AddEdge(START, "s1")
	_ = sub.AddEdge("s1", "s2")
	_ = sub.AddEdge("s2", END)

	g := NewGraph[string, string]()
	_ = g.AddLambdaNode("A", InvokableLambda(func(ctx context.Context, in string) (map[string]any, error) {
		return map[string]any{"k": in + "a"}, nil
	}))
	var subOpts []GraphAddNodeOpt
	subOpts = append(subOpts, WithInputKey("k"))
	if interrupt {
		subOpts = append(subOpts, WithGraphCompileOptions(WithInterruptAfterNodes([]string{"s1"})))
	}
	if err := g.AddGraphNode("S", sub, subOpts...); err != nil {
		t.Fatal(err)
	}
	_ = g.AddEdge(START, "A")
	_ = g.AddEdge("A", "S")
	_ = g.AddEdge("S", END)
	r, err := g.Compile(context.Background(), WithCheckPointStore(store))
	if err != nil {
		t.Fatal(err)
	}
	return r
}

func TestC05BaseInputKeySubGraphResume(t *testing.T) {
	ctx := context.Background()
	ref, err := c05BuildInputKeySub(t, newInMemoryStore(), false).Invoke(ctx, "in")
	if err != nil {
		t.Fatal(err)
	}
	r := c05BuildInputKeySub(t, newInMemoryStore(), true)
	_, err = r.Invoke(ctx, "in", WithCheckPointID("x"))
	if _, ok := ExtractInterruptInfo(err); !ok {
		t.Fatalf("expected interrupt, got %v", err)
	}
	out, err := r.Invoke(ctx, "in", WithCheckPointID("x"))
	if err != nil {
		t.Fatalf("resume failed: %v", err)
	}
	if out != ref {
		t.Fatalf("got %q want %q", out, ref)
	}
}
