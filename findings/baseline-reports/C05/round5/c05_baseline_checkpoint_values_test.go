package compose

import (
	"context"
	"math"
	"reflect"
	"sync"
	"testing"

	"github.com/cloudwego/eino/schema"
)

type c05bStore struct {
	mu sync.Mutex
	m  map[string][]byte
}

func (s *c05bStore) Get(_ context.Context, id string) ([]byte, bool, error) {
	s.mu.Lock()
	defer s.mu.Unlock()
	v, ok := s.m[id]
	if !ok {
		return nil, false, nil
	}
	return append([]byte{}, v...), true, nil
}

func (s *c05bStore) Set(_ context.Context, id string, b []byte) error {
	s.mu.Lock()
	defer s.mu.Unlock()
	s.m[id] = append([]byte{}, b...)
	return nil
}

// START -> a -> b -> END, where a produces `value` and b hands it on unchanged.
// The run is interrupted after a (the value is the pending input of b in the checkpoint) and resumed.
func c05bRoundTrip[T any](t *testing.T, value T, equal func(a, b T) bool) {
	t.Helper()
	build := func(opts ...GraphCompileOption) Runnable[string, T] {
		g := NewGraph[string, T]()
		_ = g.AddLambdaNode("a", InvokableLambda(func(ctx context.Context, in string) (T, error) { return value, nil }))
		_ = g.AddLambdaNode("b", InvokableLambda(func(ctx context.Context, in T) (T, error) { return in, nil }))
		_ = g.AddEdge(START, "a")
		_ = g.AddEdge("a", "b")
		_ = g.AddEdge("b", END)
		r, err := g.Compile(context.Background(), opts...)
		if err != nil {
			t.Fatal(err)
		}
		return r
	}
	ctx := context.Background()
	want, err := build().Invoke(ctx, "x")
	if err != nil {
		t.Fatal(err)
	}

	r := build(WithCheckPointStore(&c05bStore{m: map[string][]byte{}}), WithInterruptAfterNodes([]string{"a"}))
	_, err = r.Invoke(ctx, "x", WithCheckPointID("cp"))
	if _, ok := ExtractInterruptInfo(err); !ok {
		t.Fatalf("the run was not interrupted after a, it failed: %v", err)
	}
	got, err := r.Invoke(ctx, "x", WithCheckPointID("cp"))
	if err != nil {
		t.Fatalf("the resumed run failed: %v", err)
	}
	if !equal(got, want) {
		t.Errorf("interrupted+resumed output %#v, uninterrupted output %#v", got, want)
	}
}

func c05bEq[T comparable](a, b T) bool { return a == b }

// A Go string may hold arbitrary bytes. The checkpoint encodes strings with encoding/json, which silently replaces
// every byte that is not valid UTF-8 by U+FFFD: the resumed run continues with a different value, without any error.
func TestC05BaselineStringWithNonUTF8Bytes(t *testing.T) {
	c05bRoundTrip(t, "bin:\xff\xfe\x80.", c05bEq[string])
}

// complex64 / complex128 are registered by the serializer as built-in types ("_eino_complex64", "_eino_complex128"),
// but their values are encoded with encoding/json, which does not support them: the interrupt turns into an error
// and no checkpoint is written.
func TestC05BaselineComplexValue(t *testing.T) {
	c05bRoundTrip(t, complex(1, 2), c05bEq[complex128])
}

// NaN and the infinities are ordinary float64 values; encoding/json refuses them: the interrupt turns into an error.
func TestC05BaselineNonFiniteFloat(t *testing.T) {
	c05bRoundTrip(t, math.Inf(1), c05bEq[float64])
}

// "All built-in eino types are already registered" (doc of RegisterSerializableType), but a message with multi-modal
// content or log probabilities cannot be checkpointed: schema.ChatMessagePartType (and the ChatMessage*URL types
// behind it) and schema.LogProb are not registered: the interrupt turns into an "unknown type" error.
func TestC05BaselineMessageWithMultiContent(t *testing.T) {
	msg := &schema.Message{Role: schema.User, MultiContent: []schema.ChatMessagePart{{Type: schema.ChatMessagePartTypeText, Text: "hello"}}}
	c05bRoundTrip(t, msg, func(a, b *schema.Message) bool {
		return a != nil && b != nil && a.Role == b.Role && reflect.DeepEqual(a.MultiContent, b.MultiContent)
	})
}

func TestC05BaselineMessageWithLogProbs(t *testing.T) {
	msg := &schema.Message{Role: schema.Assistant, Content: "hi", ResponseMeta: &schema.ResponseMeta{
		FinishReason: "stop",
		LogProbs:     &schema.LogProbs{Content: []schema.LogProb{{Token: "hi", LogProb: -0.1}}},
	}}
	c05bRoundTrip(t, msg, func(a, b *schema.Message) bool {
		return a != nil && b != nil && a.Content == b.Content && reflect.DeepEqual(a.ResponseMeta, b.ResponseMeta)
	})
}
