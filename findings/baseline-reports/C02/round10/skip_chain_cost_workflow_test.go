package compose

import (
	"context"
	"fmt"
	"testing"
	"time"
)

// The Workflow form of TestBaselineSkippedChainIsNotExponential: a branch behind "gate" either goes to the head of a
// chain w1 -> w2 -> ... -> wN (AddInput: data and control) or straight to END. Going straight to END skips the chain.
func TestBaselineSkippedWorkflowChainIsNotExponential(t *testing.T) {
	const n = 25
	wf := NewWorkflow[string, map[string]any]()
	wf.AddPassthroughNode("gate").AddInput(START)
	for i := 1; i <= n; i++ {
		node := wf.AddLambdaNode(fmt.Sprintf("w%d", i), InvokableLambda(func(ctx context.Context, in string) (string, error) {
			return in + "w", nil
		}))
		if i == 1 {
			node.AddInputWithOptions(START, nil, WithNoDirectDependency())
		} else {
			node.AddInput(fmt.Sprintf("w%d", i-1))
		}
	}
	wf.AddBranch("gate", NewGraphBranch(func(ctx context.Context, in string) (string, error) {
		if in == "work" {
			return "w1", nil
		}
		return END, nil
	}, map[string]bool{"w1": true, END: true}))
	wf.End().AddInput(fmt.Sprintf("w%d", n), ToField("worked")).
		AddInputWithOptions(START, []*FieldMapping{ToField("in")}, WithNoDirectDependency())

	r, err := wf.Compile(context.Background())
	if err != nil {
		t.Fatal(err)
	}

	type res struct {
		out map[string]any
		err error
	}
	done := make(chan res, 1)
	st := time.Now()
	go func() {
		out, err := r.Invoke(context.Background(), "skip")
		done <- res{out, err}
	}()
	select {
	case got := <-done:
		if got.err != nil || len(got.out) != 1 || got.out["in"] != "skip" {
			t.Fatalf("out=%v err=%v", got.out, got.err)
		}
		t.Logf("skipping a chain of %d workflow nodes took %v", n, time.Since(st))
	case <-time.After(3 * time.Second):
		t.Fatalf("the run that only has to skip a chain of %d workflow nodes did not finish within 3s", n)
	}
}
