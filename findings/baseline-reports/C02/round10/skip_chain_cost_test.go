package compose

import (
	"context"
	"fmt"
	"testing"
	"time"
)

// A branch at START picks "b"; the other arm is a plain chain a1 -> a2 -> ... -> aN -> END that is skipped as a whole.
// Skipping it is bookkeeping only (no node of the chain runs), so the run should take about as long for N=25 as for
// N=5. On the unmodified tree the time (and the memory of the work list) doubles with every node of the chain.
func TestBaselineSkippedChainIsNotExponential(t *testing.T) {
	build := func(n int) Runnable[string, string] {
		g := NewGraph[string, string]()
		for i := 1; i <= n; i++ {
			if err := g.AddLambdaNode(fmt.Sprintf("a%d", i), InvokableLambda(func(ctx context.Context, in string) (string, error) {
				return in + "a", nil
			})); err != nil {
				t.Fatal(err)
			}
		}
		if err := g.AddLambdaNode("b", InvokableLambda(func(ctx context.Context, in string) (string, error) {
			return in + "b", nil
		})); err != nil {
			t.Fatal(err)
		}
		if err := g.AddBranch(START, NewGraphBranch(func(ctx context.Context, in string) (string, error) {
			return "b", nil
		}, map[string]bool{"a1": true, "b": true})); err != nil {
			t.Fatal(err)
		}
		for i := 1; i < n; i++ {
			if err := g.AddEdge(fmt.Sprintf("a%d", i), fmt.Sprintf("a%d", i+1)); err != nil {
				t.Fatal(err)
			}
		}
		if err := g.AddEdge(fmt.Sprintf("a%d", n), END); err != nil {
			t.Fatal(err)
		}
		if err := g.AddEdge("b", END); err != nil {
			t.Fatal(err)
		}
		r, err := g.Compile(context.Background(), WithNodeTriggerMode(AllPredecessor))
		if err != nil {
			t.Fatal(err)
		}
		return r
	}

	run := func(n int) time.Duration {
		r := build(n)
		type res struct {
			out string
			err error
		}
		done := make(chan res, 1)
		st := time.Now()
		go func() {
			out, err := r.Invoke(context.Background(), "x")
			done <- res{out, err}
		}()
		select {
		case got := <-done:
			if got.err != nil || got.out != "xb" {
				t.Fatalf("n=%d: out=%q err=%v, want \"xb\"", n, got.out, got.err)
			}
			return time.Since(st)
		case <-time.After(3 * time.Second):
			t.Fatalf("n=%d: the run that only has to skip a chain of %d nodes did not finish within 3s", n, n)
			return 0
		}
	}

	for _, n := range []int{5, 15, 20, 25} {
		t.Logf("chain of %d skipped nodes: %v", n, run(n))
	}
}
