package compose

import (
	"context"
	"reflect"
	"testing"
)

type c02BaselineIn struct {
	F string
	G string
}

// Workflow shape (the same for every sub-test, only the input type of "x" and the static value vary):
//
//	START -> br (pass-through) --branch--> a | n
//	START -> b
//	a --data+control, mapped to field F--> x
//	b --control only (AddDependency)-----> x
//	x -> END (field "x"), n -> END (field "n")
//
// When the branch picks "n", "a" is skipped and "b" still runs and routes to "x": "x" is triggered (one of its control
// predecessors finished and routed to it, the other one was skipped) and none of its data predecessors ran, so its input
// must be the zero value of its input type. With a map input this is what happens (x sees an empty map). With a struct
// input the run fails instead.
func c02BaselineBuild[X any](t *testing.T, render func(X) string, static bool) Runnable[string, map[string]any] {
	wf := NewWorkflow[string, map[string]any]()
	wf.AddPassthroughNode("br").AddInput(START)
	wf.AddLambdaNode("a", InvokableLambda(func(ctx context.Context, in string) (string, error) { return "a:" + in, nil })).
		AddInputWithOptions(START, nil, WithNoDirectDependency())
	wf.AddLambdaNode("n", InvokableLambda(func(ctx context.Context, in string) (string, error) { return "n:" + in, nil })).
		AddInputWithOptions(START, nil, WithNoDirectDependency())
	wf.AddBranch("br", NewGraphBranch(func(ctx context.Context, in string) (string, error) {
		if in == "pick-a" {
			return "a", nil
		}
		return "n", nil
	}, map[string]bool{"a": true, "n": true}))
	wf.AddLambdaNode("b", InvokableLambda(func(ctx context.Context, in string) (string, error) { return "b", nil })).AddInput(START)

	x := wf.AddLambdaNode("x", InvokableLambda(func(ctx context.Context, in X) (string, error) { return render(in), nil })).
		AddInput("a", ToField("F")).
		AddDependency("b")
	if static {
		x.SetStaticValue(FieldPath{"G"}, "static")
	}
	wf.End().AddInput("x", ToField("x")).AddInput("n", ToField("n"))

	r, err := wf.Compile(context.Background())
	if err != nil {
		t.Fatal(err)
	}
	return r
}

func c02BaselineCheck(t *testing.T, r Runnable[string, map[string]any], in string, want map[string]any) {
	t.Helper()
	ctx := context.Background()
	out, err := r.Invoke(ctx, in)
	if err != nil {
		t.Errorf("Invoke(%q) failed: %v", in, err)
	} else if !reflect.DeepEqual(out, want) {
		t.Errorf("Invoke(%q) = %v, want %v", in, out, want)
	}
}

func renderMap(in map[string]any) string {
	f, _ := in["F"].(string)
	g, _ := in["G"].(string)
	return "x[" + f + "|" + g + "]"
}

func renderStruct(in c02BaselineIn) string { return "x[" + in.F + "|" + in.G + "]" }

// reference: passes on the unmodified tree
func TestC02BaselineMapInputTriggeredWithoutData(t *testing.T) {
	r := c02BaselineBuild[map[string]any](t, renderMap, false)
	c02BaselineCheck(t, r, "pick-a", map[string]any{"x": "x[a:pick-a|]"})
	c02BaselineCheck(t, r, "pick-n", map[string]any{"x": "x[|]", "n": "n:pick-n"})

	r = c02BaselineBuild[map[string]any](t, renderMap, true)
	c02BaselineCheck(t, r, "pick-a", map[string]any{"x": "x[a:pick-a|static]"})
	c02BaselineCheck(t, r, "pick-n", map[string]any{"x": "x[|static]", "n": "n:pick-n"})
}

// FAILS on the unmodified tree: "unexpected input type. expected: map[string]interface {}, got: compose.c02BaselineIn"
func TestC02BaselineStructInputTriggeredWithoutData(t *testing.T) {
	r := c02BaselineBuild[c02BaselineIn](t, renderStruct, false)
	c02BaselineCheck(t, r, "pick-a", map[string]any{"x": "x[a:pick-a|]"})
	c02BaselineCheck(t, r, "pick-n", map[string]any{"x": "x[|]", "n": "n:pick-n"})
}

// FAILS on the unmodified tree: "(mergeValues) unsupported type: compose.c02BaselineIn"
func TestC02BaselineStructInputWithStaticValueTriggeredWithoutData(t *testing.T) {
	r := c02BaselineBuild[c02BaselineIn](t, renderStruct, true)
	c02BaselineCheck(t, r, "pick-a", map[string]any{"x": "x[a:pick-a|static]"})
	c02BaselineCheck(t, r, "pick-n", map[string]any{"x": "x[|static]", "n": "n:pick-n"})
}
