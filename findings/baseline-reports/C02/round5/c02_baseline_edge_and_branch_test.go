package compose

import (
	"context"
	"reflect"
	"sync/atomic"
	"testing"
)

// "x" is a plain-edge successor of "a" (AddEdge a->x: always routed to) and at the same time one of the end nodes of
// a branch on "a". When the branch picks the other end node, what happens to "x" depends on an unrelated predecessor:
//   - "x" has no other predecessor: it is SKIPPED, although the edge a->x routed to it;
//   - "x" has one more (finished) predecessor "b": it RUNS, and its input contains the output of "a".
//
// In calculateBranch the branch marks "a" as skipped for "x" (reportSkip) before the edge's dependency is reported;
// with "a" as only predecessor the channel becomes Skipped for good and reportDependencies is ignored, otherwise
// reportDependencies overwrites the Skipped state with Ready.
func TestC02BaselineEdgeAndBranchToSameNode(t *testing.T) {
	run := func(t *testing.T, withB bool) (map[string]any, int32) {
		var xRuns int32
		g := NewGraph[string, map[string]any]()
		must := func(err error) {
			t.Helper()
			if err != nil {
				t.Fatal(err)
			}
		}
		must(g.AddLambdaNode("a", InvokableLambda(func(ctx context.Context, in string) (map[string]any, error) {
			return map[string]any{"a": in}, nil
		})))
		must(g.AddLambdaNode("x", InvokableLambda(func(ctx context.Context, in map[string]any) (map[string]any, error) {
			atomic.AddInt32(&xRuns, 1)
			return map[string]any{"x": in}, nil
		})))
		must(g.AddLambdaNode("y", InvokableLambda(func(ctx context.Context, in map[string]any) (map[string]any, error) {
			return map[string]any{"y": in}, nil
		})))
		must(g.AddEdge(START, "a"))
		must(g.AddEdge("a", "x"))
		must(g.AddBranch("a", NewGraphBranch(func(ctx context.Context, in map[string]any) (string, error) {
			return "y", nil
		}, map[string]bool{"x": true, "y": true})))
		if withB {
			must(g.AddLambdaNode("b", InvokableLambda(func(ctx context.Context, in string) (map[string]any, error) {
				return map[string]any{"b": in}, nil
			})))
			must(g.AddEdge(START, "b"))
			must(g.AddEdge("b", "x"))
		}
		must(g.AddEdge("x", END))
		must(g.AddEdge("y", END))
		r, err := g.Compile(context.Background(), WithNodeTriggerMode(AllPredecessor))
		if err != nil {
			t.Skipf("compile rejects the shape (that would be fine too): %v", err)
		}
		out, err := r.Invoke(context.Background(), "in")
		must(err)
		return out, atomic.LoadInt32(&xRuns)
	}

	outAlone, runsAlone := run(t, false)
	outWithB, runsWithB := run(t, true)
	t.Logf("x with predecessor a only     : ran %d times, END = %v", runsAlone, outAlone)
	t.Logf("x with predecessors a and b   : ran %d times, END = %v", runsWithB, outWithB)

	// the edge a->x routes to x in both graphs
	if runsAlone != 1 {
		t.Errorf("edge a->x routed to x, but x ran %d times (END = %v)", runsAlone, outAlone)
	}
	if runsWithB != 1 {
		t.Errorf("edge a->x and b->x routed to x, but x ran %d times", runsWithB)
	}
	if runsWithB == 1 {
		wantIn := map[string]any{"a": "in", "b": "in"}
		if got := outWithB["x"]; !reflect.DeepEqual(got, wantIn) {
			t.Errorf("input of x = %v, want %v", got, wantIn)
		}
	}
}
