package compose

import (
	"context"
	"sync/atomic"
	"testing"
	"time"
)

// A node without any incoming edge / dependency is accepted by Compile in all-predecessor mode. At run time its
// channel has no control and no data predecessor, dagChannel.get therefore reports it "ready" every time the
// channels are polled: the node is executed once per step of the run instead of at most once (or never, as no
// predecessor ever routes to it).
func TestC02BaselineOrphanNodeRunsEveryStepDAG(t *testing.T) {
	ctx := context.Background()
	g := NewGraph[string, string]()
	var orphanRuns int32
	add := func(key string) {
		if err := g.AddLambdaNode(key, InvokableLambda(func(ctx context.Context, in string) (string, error) {
			return in + key, nil
		})); err != nil {
			t.Fatal(err)
		}
	}
	add("a")
	add("b")
	add("c")
	if err := g.AddLambdaNode("orphan", InvokableLambda(func(ctx context.Context, in string) (string, error) {
		atomic.AddInt32(&orphanRuns, 1)
		return in + "o", nil
	})); err != nil {
		t.Fatal(err)
	}
	for _, e := range [][2]string{{START, "a"}, {"a", "b"}, {"b", "c"}, {"c", END}} {
		if err := g.AddEdge(e[0], e[1]); err != nil {
			t.Fatal(err)
		}
	}
	r, err := g.Compile(ctx, WithNodeTriggerMode(AllPredecessor))
	if err != nil {
		t.Skipf("compile rejects the orphan node (that would be fine too): %v", err)
	}
	out, err := r.Invoke(ctx, "x")
	if err != nil {
		t.Fatal(err)
	}
	if out != "xabc" {
		t.Fatalf("out = %q", out)
	}
	if n := atomic.LoadInt32(&orphanRuns); n > 1 {
		t.Fatalf("the node without predecessors was executed %d times in one run", n)
	}
}

// The same in a Workflow (eager scheduling): every completion - including the completion of the orphan itself -
// schedules the orphan again, it is executed in a busy loop for as long as the run lasts.
func TestC02BaselineOrphanNodeRunsEveryStepWorkflow(t *testing.T) {
	ctx := context.Background()
	wf := NewWorkflow[string, string]()
	var orphanRuns int32
	wf.AddLambdaNode("a", InvokableLambda(func(ctx context.Context, in string) (string, error) {
		time.Sleep(20 * time.Millisecond)
		return in + "a", nil
	})).AddInput(START)
	wf.AddLambdaNode("b", InvokableLambda(func(ctx context.Context, in string) (string, error) {
		time.Sleep(20 * time.Millisecond)
		return in + "b", nil
	})).AddInput("a")
	wf.AddLambdaNode("orphan", InvokableLambda(func(ctx context.Context, in string) (string, error) {
		atomic.AddInt32(&orphanRuns, 1)
		return in + "o", nil
	}))
	wf.End().AddInput("b")
	r, err := wf.Compile(ctx)
	if err != nil {
		t.Skipf("compile rejects the orphan node (that would be fine too): %v", err)
	}
	out, err := r.Invoke(ctx, "x")
	if err != nil {
		t.Fatal(err)
	}
	if out != "xab" {
		t.Fatalf("out = %q", out)
	}
	if n := atomic.LoadInt32(&orphanRuns); n > 1 {
		t.Fatalf("the node without predecessors was executed %d times in one run", n)
	}
}
