package compose

import (
	"context"
	"testing"
)

// A Workflow whose START is followed only by a branch (the end nodes read START through data-only dependencies, as
// the documentation of WithNoDirectDependency prescribes for nodes behind a branch) is a perfectly acyclic shape, but
// Compile fails with "start node not set": graph.addBranch only registers start/end nodes when the branch carries
// data (skipData == false), and Workflow branches never do. The mirror image (END only reachable through a branch)
// fails with "end node not set".
func TestC02BaselineWorkflowBranchDirectlyOnStart(t *testing.T) {
	ctx := context.Background()
	wf := NewWorkflow[string, map[string]any]()
	wf.AddLambdaNode("a", InvokableLambda(func(ctx context.Context, in string) (string, error) { return in + "_a", nil })).
		AddInputWithOptions(START, nil, WithNoDirectDependency())
	wf.AddLambdaNode("b", InvokableLambda(func(ctx context.Context, in string) (string, error) { return in + "_b", nil })).
		AddInputWithOptions(START, nil, WithNoDirectDependency())
	wf.AddBranch(START, NewGraphBranch(func(ctx context.Context, in string) (string, error) {
		if in == "a" {
			return "a", nil
		}
		return "b", nil
	}, map[string]bool{"a": true, "b": true}))
	wf.End().AddInput("a", ToField("a")).AddInput("b", ToField("b"))
	r, err := wf.Compile(ctx)
	if err != nil {
		t.Fatalf("compile: %v", err)
	}
	out, err := r.Invoke(ctx, "a")
	if err != nil || out["a"] != "a_a" || len(out) != 1 {
		t.Fatalf("out=%v err=%v", out, err)
	}
}

func TestC02BaselineWorkflowEndOnlyBehindBranch(t *testing.T) {
	ctx := context.Background()
	wf := NewWorkflow[string, string]()
	wf.AddLambdaNode("a", InvokableLambda(func(ctx context.Context, in string) (string, error) { return in + "_a", nil })).
		AddInput(START)
	wf.AddLambdaNode("sink", InvokableLambda(func(ctx context.Context, in string) (string, error) { return in, nil })).
		AddInputWithOptions("a", nil, WithNoDirectDependency())
	wf.AddBranch("a", NewGraphBranch(func(ctx context.Context, in string) (string, error) {
		return END, nil
	}, map[string]bool{END: true, "sink": true}))
	wf.End().AddInputWithOptions("a", nil, WithNoDirectDependency())
	r, err := wf.Compile(ctx)
	if err != nil {
		t.Fatalf("compile: %v", err)
	}
	out, err := r.Invoke(ctx, "x")
	if err != nil || out != "x_a" {
		t.Fatalf("out=%v err=%v", out, err)
	}
}
