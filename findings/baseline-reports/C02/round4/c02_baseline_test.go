/*
 * Copyright 2024 CloudWeGo Authors
 *
 * Licensed under the Apache License, Version 2.0 (the "License");
 * you may not use this file except in compliance with the License.
 * You may obtain a copy of the License at
 *
 *     http://www.apache.org/licenses/LICENSE-2.0
 *
 * Unless required by applicable law or agreed to in writing, software
 * distributed under the License is distributed on an "AS IS" BASIS,
 * WITHOUT WARRANTIES OR CONDITIONS OF ANY KIND, either express or implied.
 * See the License for the specific language governing permissions and
 * limitations under the License.
 */

package compose

import (
	"context"
	"sync/atomic"
	"testing"
	"time"
)

// 1. A node without any predecessor (no control edge, no data edge, not the target of a branch) is accepted by
// Compile in all-predecessor mode. Nothing ever routes to it, so it must not run at all - at the very least it
// must not run more than once. Its dagChannel has no control and no data predecessor, so get() reports it ready
// in EVERY step and it is executed once per step.
func TestC02Baseline_DAG_NodeWithoutPredecessorRunsEveryStep(t *testing.T) {
	ctx, cancel := context.WithTimeout(context.Background(), 5*time.Second)
	defer cancel()

	var runs int32
	g := NewGraph[string, string]()
	echo := func(s string) *Lambda {
		return InvokableLambda(func(ctx context.Context, in string) (string, error) { return in + s, nil })
	}
	_ = g.AddLambdaNode("a", echo("a"))
	_ = g.AddLambdaNode("b", echo("b"))
	_ = g.AddLambdaNode("c", echo("c"))
	_ = g.AddLambdaNode("orphan", InvokableLambda(func(ctx context.Context, in string) (string, error) {
		atomic.AddInt32(&runs, 1)
		return in + "o", nil
	}))
	_ = g.AddEdge(START, "a")
	_ = g.AddEdge("a", "b")
	_ = g.AddEdge("b", "c")
	_ = g.AddEdge("c", END)
	r, err := g.Compile(ctx, WithNodeTriggerMode(AllPredecessor))
	if err != nil {
		t.Skipf("compile rejects the graph (that would be fine too): %v", err)
	}
	out, err := r.Invoke(ctx, "i")
	if err != nil {
		t.Fatal(err)
	}
	if out != "iabc" {
		t.Errorf("unexpected result %q", out)
	}
	if got := atomic.LoadInt32(&runs); got > 1 {
		t.Errorf("a node runs at most once per run, and only when a predecessor routed to it: the node without predecessors ran %d times", got)
	}
}

// 1b. The same in a Workflow: a node that only has a static value and feeds nobody.
func TestC02Baseline_Workflow_NodeWithoutPredecessorRunsEveryStep(t *testing.T) {
	ctx, cancel := context.WithTimeout(context.Background(), 5*time.Second)
	defer cancel()

	var runs int32
	wf := NewWorkflow[string, string]()
	echo := func(s string) *Lambda {
		return InvokableLambda(func(ctx context.Context, in string) (string, error) { return in + s, nil })
	}
	wf.AddLambdaNode("a", echo("a")).AddInput(START)
	wf.AddLambdaNode("b", echo("b")).AddInput("a")
	wf.AddLambdaNode("c", echo("c")).AddInput("b")
	wf.AddLambdaNode("orphan", InvokableLambda(func(ctx context.Context, in map[string]any) (string, error) {
		atomic.AddInt32(&runs, 1)
		return "o", nil
	})).SetStaticValue(FieldPath{"k"}, "v")
	wf.End().AddInput("c")
	r, err := wf.Compile(ctx)
	if err != nil {
		t.Skipf("compile rejects the workflow (that would be fine too): %v", err)
	}
	out, err := r.Invoke(ctx, "i")
	if err != nil {
		t.Fatal(err)
	}
	if out != "iabc" {
		t.Errorf("unexpected result %q", out)
	}
	if got := atomic.LoadInt32(&runs); got > 1 {
		t.Errorf("a node runs at most once per run: the node without predecessors ran %d times", got)
	}
}

// 2. Node "x" is the target of a plain edge a->x AND an end node of a branch of the same node a; the branch
// selects "y". Whether "x" runs depends on an unrelated thing, namely whether x has yet another predecessor:
//   - x has no other predecessor: the skip reported by the branch marks its only control predecessor skipped,
//     the node is flagged Skipped, and the "ready" reported for the plain edge right afterwards is ignored: x does NOT run;
//   - x has another predecessor "o" (still pending when a is resolved): the skip is recorded, then overwritten
//     by the "ready" of the plain edge: x DOES run and gets the output of a.
//
// "at least one of them actually routed to it" cannot be true and false for the same pair of edges.
func TestC02Baseline_DAG_PlainEdgeAndBranchFromTheSameNode(t *testing.T) {
	run := func(withOther bool) (xRuns int32, xInput map[string]any) {
		ctx, cancel := context.WithTimeout(context.Background(), 5*time.Second)
		defer cancel()
		g := NewGraph[string, map[string]any]()
		mk := func(key string) *Lambda {
			return InvokableLambda(func(ctx context.Context, in string) (string, error) { return in + key, nil })
		}
		_ = g.AddLambdaNode("a", mk("a"), WithOutputKey("a"))
		_ = g.AddLambdaNode("o", mk("o"), WithOutputKey("o"))
		_ = g.AddLambdaNode("x", InvokableLambda(func(ctx context.Context, in map[string]any) (map[string]any, error) {
			atomic.AddInt32(&xRuns, 1)
			xInput = in
			return map[string]any{"x": true}, nil
		}))
		_ = g.AddLambdaNode("y", InvokableLambda(func(ctx context.Context, in map[string]any) (map[string]any, error) {
			return map[string]any{"y": true}, nil
		}))
		_ = g.AddEdge(START, "a")
		_ = g.AddEdge("a", "x")
		_ = g.AddBranch("a", NewGraphBranch(func(ctx context.Context, in map[string]any) (string, error) {
			return "y", nil
		}, map[string]bool{"x": true, "y": true}))
		if withOther {
			_ = g.AddEdge(START, "o")
			_ = g.AddEdge("o", "x")
		}
		_ = g.AddEdge("x", END)
		_ = g.AddEdge("y", END)
		r, err := g.Compile(ctx, WithNodeTriggerMode(AllPredecessor))
		if err != nil {
			t.Skipf("compile rejects edge + branch to the same node (that would be fine too): %v", err)
		}
		if _, err = r.Invoke(ctx, "i"); err != nil {
			t.Fatalf("withOther=%v: %v", withOther, err)
		}
		return xRuns, xInput
	}

	aloneRuns, _ := run(false)
	otherRuns, otherInput := run(true)
	t.Logf("x without other predecessor: ran %d times; x with another predecessor: ran %d times, input %v", aloneRuns, otherRuns, otherInput)
	if aloneRuns != otherRuns {
		t.Errorf("whether a->x routes to x must not depend on x having another predecessor: ran %d times alone, %d times with another predecessor",
			aloneRuns, otherRuns)
	}
}

// 3. A multi-way branch condition returns map[string]bool. An entry with the value false means "not selected" to
// every reader of the signature, but only the keys are looked at: {"x": true, "y": false} runs y as well.
func TestC02Baseline_DAG_MultiBranchFalseEntryIsSelected(t *testing.T) {
	ctx, cancel := context.WithTimeout(context.Background(), 5*time.Second)
	defer cancel()
	var yRuns int32
	g := NewGraph[string, map[string]any]()
	_ = g.AddLambdaNode("x", InvokableLambda(func(ctx context.Context, in string) (string, error) { return in + "x", nil }), WithOutputKey("x"))
	_ = g.AddLambdaNode("y", InvokableLambda(func(ctx context.Context, in string) (string, error) {
		atomic.AddInt32(&yRuns, 1)
		return in + "y", nil
	}), WithOutputKey("y"))
	_ = g.AddBranch(START, NewGraphMultiBranch(func(ctx context.Context, in string) (map[string]bool, error) {
		return map[string]bool{"x": true, "y": false}, nil
	}, map[string]bool{"x": true, "y": true}))
	_ = g.AddEdge("x", END)
	_ = g.AddEdge("y", END)
	r, err := g.Compile(ctx, WithNodeTriggerMode(AllPredecessor))
	if err != nil {
		t.Fatal(err)
	}
	out, err := r.Invoke(ctx, "i")
	if err != nil {
		t.Fatal(err)
	}
	if got := atomic.LoadInt32(&yRuns); got != 0 {
		t.Errorf("the branch outcome says y:false, y must be skipped, it ran %d times; result %v", got, out)
	}
}

// 4. When the value assembled for END is a nil interface (output type any, no data predecessor of END ran) the
// run does not return it: runner.run tests `result != nil` to find out whether END was reached, goes on with an
// empty task list and fails with "no tasks to execute".
func TestC02Baseline_Workflow_NilResultForEND(t *testing.T) {
	ctx, cancel := context.WithTimeout(context.Background(), 5*time.Second)
	defer cancel()
	wf := NewWorkflow[string, any]()
	wf.AddLambdaNode("n", InvokableLambda(func(ctx context.Context, in string) (any, error) { return in, nil })).
		AddInputWithOptions(START, nil, WithNoDirectDependency())
	wf.AddPassthroughNode("p").AddInput(START)
	wf.AddBranch("p", NewGraphBranch(func(ctx context.Context, in string) (string, error) {
		return END, nil
	}, map[string]bool{"n": true, END: true}))
	wf.End().AddInput("n")
	r, err := wf.Compile(ctx)
	if err != nil {
		t.Fatal(err)
	}
	out, err := r.Invoke(ctx, "i")
	if err != nil {
		t.Errorf("END was selected by the branch and none of its data predecessors ran: the result is the zero value (nil), got error: %v", err)
	} else if out != nil {
		t.Errorf("expected nil, got %v", out)
	}
}
