package compose

import (
	"context"
	"fmt"
	"testing"
)

type c02bIn struct {
	F string
	G string
}

type c02bOut struct {
	X string
}

type c02bIface interface{ Foo() string }

// c02bRun runs f and converts a panic escaping from the graph run into a test error.
func c02bRun(t *testing.T, name string, f func() (any, error)) (out any, err error, ok bool) {
	t.Helper()
	defer func() {
		if p := recover(); p != nil {
			t.Errorf("%s: the run PANICKED in the caller's goroutine: %v", name, p)
			ok = false
		}
	}()
	out, err = f()
	return out, err, true
}

// Workflow:
//
//	START -> br =branch=> A (data-only input from START)
//	           \=======> B (data-only input from START)
//	X: AddInput(A, ToField("F"))  -- control + data, field mapped into a struct input
//	   AddDependency(B)           -- control only
//	X -> END
//
// When the branch picks B, A is skipped. X is still triggered (B ran and routed to it), and none of
// its data predecessors ran, so its input must be the zero value of its input type.
func c02bZeroInputWorkflow(t *testing.T, static bool) Runnable[string, map[string]any] {
	wf := NewWorkflow[string, map[string]any]()
	wf.AddPassthroughNode("br").AddInput(START)
	wf.AddLambdaNode("A", InvokableLambda(func(ctx context.Context, in string) (string, error) { return "a:" + in, nil })).
		AddInputWithOptions(START, nil, WithNoDirectDependency())
	wf.AddLambdaNode("B", InvokableLambda(func(ctx context.Context, in string) (string, error) { return "b:" + in, nil })).
		AddInputWithOptions(START, nil, WithNoDirectDependency())
	wf.AddBranch("br", NewGraphBranch(func(ctx context.Context, in string) (string, error) {
		if in == "a" {
			return "A", nil
		}
		return "B", nil
	}, map[string]bool{"A": true, "B": true}))
	x := wf.AddLambdaNode("X", InvokableLambda(func(ctx context.Context, in c02bIn) (string, error) {
		return fmt.Sprintf("%+v", in), nil
	})).AddInput("A", ToField("F")).AddDependency("B")
	if static {
		x.SetStaticValue(FieldPath{"G"}, "static")
	}
	wf.End().AddInput("X", ToField("x"))
	r, err := wf.Compile(context.Background())
	if err != nil {
		t.Fatal(err)
	}
	return r
}

func TestC02Baseline_ZeroInputOfFieldMappedStructNode(t *testing.T) {
	ctx := context.Background()
	r := c02bZeroInputWorkflow(t, false)

	// sanity: with the branch picking A everything works.
	out, err := r.Invoke(ctx, "a")
	if err != nil || out["x"] != "{F:a:a G:}" {
		t.Fatalf("branch->A: out=%v err=%v", out, err)
	}

	t.Run("invoke", func(t *testing.T) {
		o, err, ok := c02bRun(t, "invoke branch->B", func() (any, error) { return r.Invoke(ctx, "b") })
		if !ok {
			return
		}
		if err != nil {
			t.Fatalf("branch->B: X must run with the zero value of its input, got error: %v", err)
		}
		if o.(map[string]any)["x"] != "{F: G:}" {
			t.Fatalf("branch->B: unexpected result %v", o)
		}
	})
	t.Run("stream", func(t *testing.T) {
		o, err, ok := c02bRun(t, "stream branch->B", func() (any, error) {
			s, err := r.Stream(ctx, "b")
			if err != nil {
				return nil, err
			}
			return concatStreamReader(s)
		})
		if !ok {
			return
		}
		if err != nil {
			t.Fatalf("branch->B: X must run with the zero value of its input, got error: %v", err)
		}
		if o.(map[string]any)["x"] != "{F: G:}" {
			t.Fatalf("branch->B: unexpected result %v", o)
		}
	})
}

// Same, but X also has a static value: the zero input of type c02bIn cannot be merged with the static
// value map, the run fails with "(mergeValues) unsupported type".
func TestC02Baseline_ZeroInputOfFieldMappedStructNodeWithStaticValue(t *testing.T) {
	ctx := context.Background()
	r := c02bZeroInputWorkflow(t, true)

	out, err := r.Invoke(ctx, "a")
	if err != nil || out["x"] != "{F:a:a G:static}" {
		t.Fatalf("branch->A: out=%v err=%v", out, err)
	}

	o, err, ok := c02bRun(t, "invoke branch->B", func() (any, error) { return r.Invoke(ctx, "b") })
	if !ok {
		return
	}
	if err != nil {
		t.Fatalf("branch->B: X must run with the zero input plus its static value, got error: %v", err)
	}
	if o.(map[string]any)["x"] != "{F: G:static}" {
		t.Fatalf("branch->B: unexpected result %v", o)
	}
}

// The same defect for END: struct-typed workflow output with a field mapping, END reached directly
// through the branch while its only data predecessor is skipped. The result of the run must be the
// zero value c02bOut{}.
func TestC02Baseline_ZeroValueAssembledForFieldMappedStructEnd(t *testing.T) {
	ctx := context.Background()
	wf := NewWorkflow[string, c02bOut]()
	wf.AddPassthroughNode("br").AddInput(START)
	wf.AddLambdaNode("A", InvokableLambda(func(ctx context.Context, in string) (string, error) { return "a:" + in, nil })).
		AddInputWithOptions(START, nil, WithNoDirectDependency())
	wf.AddBranch("br", NewGraphBranch(func(ctx context.Context, in string) (string, error) {
		if in == "a" {
			return "A", nil
		}
		return END, nil
	}, map[string]bool{"A": true, END: true}))
	wf.End().AddInput("A", ToField("X"))
	r, err := wf.Compile(ctx)
	if err != nil {
		t.Fatal(err)
	}

	out, err := r.Invoke(ctx, "a")
	if err != nil || out != (c02bOut{X: "a:a"}) {
		t.Fatalf("branch->A: out=%v err=%v", out, err)
	}

	t.Run("invoke", func(t *testing.T) {
		o, err, ok := c02bRun(t, "invoke branch->END", func() (any, error) { return r.Invoke(ctx, "b") })
		if !ok {
			return
		}
		if err != nil || o.(c02bOut) != (c02bOut{}) {
			t.Fatalf("branch->END: want zero c02bOut and no error, got out=%v err=%v", o, err)
		}
	})
	t.Run("stream", func(t *testing.T) {
		o, err, ok := c02bRun(t, "stream branch->END", func() (any, error) {
			s, err := r.Stream(ctx, "b")
			if err != nil {
				return nil, err
			}
			return concatStreamReader(s)
		})
		if !ok {
			return
		}
		if err != nil || o.(c02bOut) != (c02bOut{}) {
			t.Fatalf("branch->END: want zero c02bOut and no error, got out=%v err=%v", o, err)
		}
	})
}

// The value assembled for END is the result of the run - also when that value is a nil interface.
// The runner signals "END reached" to its main loop through `result != nil`, so a nil result is
// mistaken for "END not reached yet" and the run dies with "no tasks to execute".
func TestC02Baseline_NilInterfaceValueAssembledForEnd(t *testing.T) {
	ctx := context.Background()

	t.Run("workflow, END has a control-only dependency: zero value of an interface output type", func(t *testing.T) {
		wf := NewWorkflow[string, c02bIface]()
		ran := 0
		wf.AddLambdaNode("a", InvokableLambda(func(ctx context.Context, in string) (string, error) {
			ran++
			return in, nil
		})).AddInput(START)
		wf.End().AddDependency("a")
		r, err := wf.Compile(ctx)
		if err != nil {
			t.Fatal(err)
		}
		out, err := r.Invoke(ctx, "x")
		if err != nil {
			t.Fatalf("END was triggered by a (ran %d time) with no data predecessor: the result must be the zero value (nil) without error, got: %v", ran, err)
		}
		if out != nil {
			t.Fatalf("unexpected result %v", out)
		}
	})

	t.Run("AllPredecessor graph, the node before END returns a nil interface", func(t *testing.T) {
		g := NewGraph[string, c02bIface]()
		_ = g.AddLambdaNode("a", InvokableLambda(func(ctx context.Context, in string) (c02bIface, error) { return nil, nil }))
		_ = g.AddEdge(START, "a")
		_ = g.AddEdge("a", END)
		r, err := g.Compile(ctx, WithNodeTriggerMode(AllPredecessor))
		if err != nil {
			t.Fatal(err)
		}
		out, err := r.Invoke(ctx, "x")
		if err != nil {
			t.Fatalf("a's output (nil) routed to END is the result of the run, got error: %v", err)
		}
		if out != nil {
			t.Fatalf("unexpected result %v", out)
		}
	})
}

// A multi-way branch condition returns map[string]bool. An entry whose value is false is still
// treated as selected (only the keys are looked at), so a node the condition explicitly did NOT
// route to is executed instead of being skipped.
func TestC02Baseline_MultiBranchFalseEntryIsTreatedAsSelected(t *testing.T) {
	ctx := context.Background()
	runs := map[string]int{}
	node := func(key string) *Lambda {
		return InvokableLambda(func(ctx context.Context, in string) (string, error) {
			runs[key]++
			return in + key, nil
		})
	}
	g := NewGraph[string, map[string]any]()
	_ = g.AddLambdaNode("a", node("a"), WithOutputKey("a"))
	_ = g.AddLambdaNode("b", node("b"), WithOutputKey("b"))
	_ = g.AddBranch(START, NewGraphMultiBranch(func(ctx context.Context, in string) (map[string]bool, error) {
		return map[string]bool{"a": true, "b": false}, nil
	}, map[string]bool{"a": true, "b": true}))
	_ = g.AddEdge("a", END)
	_ = g.AddEdge("b", END)
	r, err := g.Compile(ctx, WithNodeTriggerMode(AllPredecessor))
	if err != nil {
		t.Fatal(err)
	}
	out, err := r.Invoke(ctx, "x")
	if err != nil {
		t.Fatal(err)
	}
	if runs["b"] != 0 {
		t.Errorf("the condition returned b:false, b must be skipped, but it ran %d time(s)", runs["b"])
	}
	if len(out) != 1 || out["a"] != "xa" {
		t.Errorf("unexpected result %v, want map[a:xa]", out)
	}
}
