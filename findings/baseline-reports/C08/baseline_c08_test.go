package schema

import (
	"fmt"
	"io"
	"testing"
	"time"
)

// recvNoPanic calls Recv and turns a panic into an error item, so that the sequence a copy sees can be recorded.
func recvNoPanic(sr *StreamReader[int]) (v int, err error, panicked bool) {
	defer func() {
		if p := recover(); p != nil {
			panicked = true
			err = fmt.Errorf("panic: %v", p)
		}
	}()
	v, err = sr.Recv()
	return v, err, false
}

// A stream [1 2 3] is converted by a function that panics on item 2, then copied twice.
// Copy 0 reads first and gets the panic. Copy 1 then reads the very same positions.
// Property: every copy sees the same sequence; no copy may see an item that was never sent.
func TestC08BaselineCopyOfPanickingConvert(t *testing.T) {
	src := StreamReaderFromArray([]int{1, 2, 3})
	conv := StreamReaderWithConvert(src, func(i int) (int, error) {
		if i == 2 {
			panic("boom")
		}
		return i * 10, nil
	})
	cps := conv.Copy(2)

	v, err, _ := recvNoPanic(cps[0])
	if v != 10 || err != nil {
		t.Fatalf("copy0 first item: %v %v", v, err)
	}
	_, err, panicked := recvNoPanic(cps[0])
	if !panicked {
		t.Fatalf("copy0 second item expected to panic, got err=%v", err)
	}

	v, err, _ = recvNoPanic(cps[1])
	if v != 10 || err != nil {
		t.Fatalf("copy1 first item: %v %v", v, err)
	}
	v, err, panicked = recvNoPanic(cps[1])
	t.Logf("copy1 second item: v=%v err=%v panicked=%v", v, err, panicked)
	if err == nil {
		t.Errorf("copy1 received a phantom item (%v, nil) at the position where copy0 saw a panic: this value was never produced by the stream", v)
	}
	v, err, panicked = recvNoPanic(cps[1])
	t.Logf("copy1 third item: v=%v err=%v panicked=%v", v, err, panicked)
	if err == ErrRecvAfterClosed {
		t.Errorf("copy1 was never closed but Recv reports ErrRecvAfterClosed")
	}
}

// Same tree, but both copies are merged with another stream (so each copy is pumped by its own goroutine,
// which recovers panics). The merged stream must end (EOF) after finitely many items.
func TestC08BaselineMergedCopiesOfPanickingConvertTerminate(t *testing.T) {
	src := StreamReaderFromArray([]int{1, 2, 3})
	conv := StreamReaderWithConvert(src, func(i int) (int, error) {
		if i == 2 {
			panic("boom")
		}
		return i * 10, nil
	})
	cps := conv.Copy(2)
	m := MergeStreamReaders([]*StreamReader[int]{cps[0], cps[1]})
	defer m.Close()

	done := make(chan struct{})
	var items []string
	go func() {
		defer close(done)
		for i := 0; i < 1000; i++ {
			v, err := m.Recv()
			if err == io.EOF {
				return
			}
			items = append(items, fmt.Sprintf("(%v,%v)", v, err != nil))
		}
	}()
	select {
	case <-done:
	case <-time.After(3 * time.Second):
		t.Fatalf("merged stream blocked")
	}
	if len(items) >= 1000 {
		t.Fatalf("merged stream of a 3-item source delivered 1000 items without EOF; first 12: %v", items[:12])
	}
	t.Logf("items: %v", items)
}

// Same tree over a Pipe: after both copies have been closed the writer must be told on its next send.
func TestC08BaselineCopyOfPanickingConvertSourceClosed(t *testing.T) {
	src, sw := Pipe[int](8)
	sw.Send(1, nil)
	sw.Send(2, nil)
	conv := StreamReaderWithConvert(src, func(i int) (int, error) {
		if i == 2 {
			panic("boom")
		}
		return i * 10, nil
	})
	cps := conv.Copy(2)

	recvNoPanic(cps[0]) // 10
	recvNoPanic(cps[0]) // panic
	recvNoPanic(cps[1]) // 10
	recvNoPanic(cps[1]) // position of the panic
	cps[0].Close()
	cps[1].Close()

	if closed := sw.Send(3, nil); !closed {
		t.Errorf("both copies are closed but the writer's next send was accepted (source never closed); closedNum=%d of 2",
			cps[0].csr.parent.closedNum)
	}
}
