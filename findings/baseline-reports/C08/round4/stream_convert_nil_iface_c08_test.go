package schema

import (
	"fmt"
	"io"
	"testing"
	"time"
)

// A stream whose item type is an interface type may legitimately carry a nil item
// (Send(nil, nil) on a StreamWriter[any], or a nil element in StreamReaderFromArray([]any{...})).
// Plain Recv delivers it. A converted stream must map it item-wise as well.
func TestC08BaselineConvertNilInterfaceItem(t *testing.T) {
	src := StreamReaderFromArray([]any{1, nil, 3})

	conv := StreamReaderWithConvert(src, func(v any) (string, error) {
		return fmt.Sprint(v), nil
	})
	defer conv.Close()

	var got []string
	func() {
		defer func() {
			if p := recover(); p != nil {
				t.Fatalf("Recv on a converted stream panicked on a nil interface item: %v (items delivered before: %v)", p, got)
			}
		}()
		for {
			s, err := conv.Recv()
			if err == io.EOF {
				break
			}
			if err != nil {
				t.Fatalf("unexpected error: %v", err)
			}
			got = append(got, s)
		}
	}()

	want := []string{"1", "<nil>", "3"}
	if fmt.Sprint(got) != fmt.Sprint(want) {
		t.Fatalf("got %v want %v", got, want)
	}
}

// Same thing through a pipe and a merge: the converted reader is turned into a stream by a
// goroutine (toStream); the panic is caught there and surfaces as an error item, and the items
// after the nil one are lost.
func TestC08BaselineConvertNilInterfaceItemMerged(t *testing.T) {
	sr, sw := Pipe[any](3)
	sw.Send(1, nil)
	sw.Send(nil, nil)
	sw.Send(3, nil)
	sw.Close()

	conv := StreamReaderWithConvert(sr, func(v any) (string, error) {
		return fmt.Sprint(v), nil
	})
	other, ow := Pipe[string](0)
	ow.Close()

	m := MergeStreamReaders([]*StreamReader[string]{conv, other})
	defer m.Close()

	done := make(chan struct{})
	var got []string
	var gotErr error
	go func() {
		defer close(done)
		for {
			s, err := m.Recv()
			if err == io.EOF {
				return
			}
			if err != nil {
				gotErr = err
				continue
			}
			got = append(got, s)
		}
	}()
	select {
	case <-done:
	case <-time.After(5 * time.Second):
		t.Fatal("hang")
	}
	if gotErr != nil || fmt.Sprint(got) != fmt.Sprint([]string{"1", "<nil>", "3"}) {
		t.Fatalf("got items %v, err %v; want [1 <nil> 3] and no error", got, gotErr)
	}
}
