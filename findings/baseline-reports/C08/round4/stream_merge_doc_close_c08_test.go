package schema

import (
	"io"
	"testing"
)

// The usage shown in the doc comment of MergeStreamReaders: the source readers are closed by the
// caller (defer) and so is the merged reader. With plain Pipe readers the second close of the same
// underlying stream panics ("close of closed channel"), i.e. the source is closed twice.
func TestC08BaselineMergeDocExampleCloseAll(t *testing.T) {
	sr1, sw1 := Pipe[string](2)
	sr2, sw2 := Pipe[string](2)
	sw1.Send("a", nil)
	sw1.Close()
	sw2.Send("b", nil)
	sw2.Close()

	defer func() {
		if p := recover(); p != nil {
			t.Fatalf("closing the merged reader and its source readers (as in the MergeStreamReaders doc example) panicked: %v", p)
		}
	}()

	defer sr1.Close()
	defer sr2.Close()

	sr := MergeStreamReaders([]*StreamReader[string]{sr1, sr2})
	defer sr.Close()

	n := 0
	for {
		_, err := sr.Recv()
		if err == io.EOF {
			break
		}
		if err != nil {
			t.Fatal(err)
		}
		n++
	}
	if n != 2 {
		t.Fatalf("got %d items", n)
	}
}
