package schema

import (
	"testing"
	"time"
)

// sendWithinC08 reports the result of one Send, or fails the test when the Send blocks.
func sendWithinC08(t *testing.T, sw *StreamWriter[int], v int) (closed bool) {
	t.Helper()
	done := make(chan bool, 1)
	go func() { done <- sw.Send(v, nil) }()
	select {
	case closed = <-done:
		return closed
	case <-time.After(2 * time.Second):
		t.Fatalf("Send(%d) blocked", v)
		return false
	}
}

// acceptedAfterClose counts the sends that are still accepted (closed=false) after every reader was closed.
func acceptedAfterClose(t *testing.T, sw *StreamWriter[int]) int {
	t.Helper()
	n := 0
	for ; n < 10; n++ {
		if sendWithinC08(t, sw, n) {
			break
		}
		time.Sleep(50 * time.Millisecond) // give the close every chance to propagate
	}
	return n
}

// reference (passes): a plain pipe reader closed => the very next send reports closed
func TestBaseC08_NextSendTold_Plain(t *testing.T) {
	sr, sw := Pipe[int](0)
	sr.Close()
	if n := acceptedAfterClose(t, sw); n != 0 {
		t.Fatalf("%d sends accepted after close", n)
	}
}

// reference (passes): converted reader closed => the very next send reports closed
func TestBaseC08_NextSendTold_Converted(t *testing.T) {
	sr, sw := Pipe[int](0)
	c := StreamReaderWithConvert(sr, func(i int) (int, error) { return i, nil })
	c.Close()
	if n := acceptedAfterClose(t, sw); n != 0 {
		t.Fatalf("%d sends accepted after close", n)
	}
}

// FAILS on the unmodified tree: a converted reader merged with another stream; the merged reader (the only
// reader derived from the pipe) is closed while the forwarding goroutine of the merge waits for the pipe's
// next item; the writer's next send is accepted, only the one after it is told.
func TestBaseC08_NextSendTold_ConvertedThenMerged(t *testing.T) {
	sr, sw := Pipe[int](0)
	c := StreamReaderWithConvert(sr, func(i int) (int, error) { return i, nil })
	other, osw := Pipe[int](0)
	defer osw.Close()

	merged := MergeStreamReaders([]*StreamReader[int]{c, other})
	time.Sleep(50 * time.Millisecond) // let the forwarding goroutine start waiting on the pipe
	merged.Close()
	time.Sleep(50 * time.Millisecond)

	if n := acceptedAfterClose(t, sw); n != 0 {
		t.Fatalf("every reader derived from the pipe was closed, yet the writer's next %d send(s) were accepted (closed=false) before it was told", n)
	}
}

// FAILS on the unmodified tree: the same with copies: both copies closed (one directly, one through a merge)
func TestBaseC08_NextSendTold_CopyThenMerged(t *testing.T) {
	sr, sw := Pipe[int](0)
	cs := sr.Copy(2)
	other, osw := Pipe[int](0)
	defer osw.Close()

	merged := MergeStreamReaders([]*StreamReader[int]{cs[0], other})
	time.Sleep(50 * time.Millisecond)
	cs[1].Close()
	merged.Close()
	time.Sleep(50 * time.Millisecond)

	if n := acceptedAfterClose(t, sw); n != 0 {
		t.Fatalf("every reader derived from the pipe was closed, yet the writer's next %d send(s) were accepted (closed=false) before it was told", n)
	}
}

// FAILS on the unmodified tree, with 2 accepted sends: two forwarding layers (copy -> merge -> copy -> merge)
func TestBaseC08_NextSendTold_TwoForwardingLayers(t *testing.T) {
	sr, sw := Pipe[int](0)
	o1, o1w := Pipe[int](0)
	defer o1w.Close()
	o2, o2w := Pipe[int](0)
	defer o2w.Close()

	l1 := sr.Copy(2)
	m1 := MergeStreamReaders([]*StreamReader[int]{l1[0], o1})
	l2 := m1.Copy(2)
	m2 := MergeStreamReaders([]*StreamReader[int]{l2[0], o2})
	time.Sleep(50 * time.Millisecond)

	l1[1].Close()
	l2[1].Close()
	m2.Close()
	time.Sleep(50 * time.Millisecond)

	if n := acceptedAfterClose(t, sw); n != 0 {
		t.Fatalf("every reader derived from the pipe was closed, yet the writer's next %d send(s) were accepted (closed=false) before it was told", n)
	}
}
