package serialization

import (
	"reflect"
	"testing"
)

// an unexported helper type with exported fields, embedded in exported types of the same package: the promoted fields
// BaselineProfile.History and BaselineProfile.Seen are exported fields of BaselineProfile (encoding/json writes them).
type baselineTrail struct {
	History []string
	Seen    int
}

type BaselineProfile struct {
	baselineTrail
	Name string
}

// The serialiser skips the embedded field because its NAME (the type name) is unexported, and with it the exported
// fields it promotes: they come back zero, without any error.
func TestBaselinePromotedFieldsOfUnexportedEmbeddedStructAreDropped(t *testing.T) {
	_ = GenericRegister[baselineTrail]("baseline_trail")
	_ = GenericRegister[BaselineProfile]("baseline_profile")

	value := &BaselineProfile{baselineTrail: baselineTrail{History: []string{"a", "b"}, Seen: 2}, Name: "n"}
	data, err := Marshal(value)
	if err != nil {
		t.Logf("marshal error (failing loudly is fine): %v", err)
		return
	}
	got, err := Unmarshal(data)
	if err != nil {
		t.Fatalf("written without an error but cannot be read back: %v\nbytes: %s", err, data)
	}
	if !reflect.DeepEqual(value, got) {
		t.Fatalf("round trip changed the value\nwritten: %+v\nread:    %+v\nbytes: %s", value, got, data)
	}
}
