package serialization

import (
	"reflect"
	"testing"
)

type baselinePtrField struct {
	P **int
}

type baselinePtrList struct {
	L []**int
}

type baselinePtrMap struct {
	M map[string]**int
}

func baselineRoundTrip(t *testing.T, values map[string]any) {
	for name, value := range values {
		data, err := Marshal(value)
		if err != nil {
			t.Logf("%s: marshal error (failing loudly is fine): %v", name, err)
			continue
		}
		got, err := Unmarshal(data)
		if err != nil {
			t.Errorf("%s: written without an error but cannot be read back: %v\nbytes: %s", name, err, data)
			continue
		}
		if !reflect.DeepEqual(value, got) {
			t.Errorf("%s: round trip changed the value\nwritten: %#v\nread:    %#v\nbytes: %s", name, value, got, data)
		}
	}
}

// A non-nil pointer to a nil pointer is written as {"PointerNum":2,...,"JSONValue":null} and read back as a nil
// OUTER pointer: a different value, without any error.
func TestBaselinePointerToNilPointerIsReadBackAsNil(t *testing.T) {
	_ = GenericRegister[baselinePtrField]("baseline_ptr_field")
	_ = GenericRegister[baselinePtrList]("baseline_ptr_list")

	var inner *int // nil
	seven := 7
	pSeven := &seven

	baselineRoundTrip(t, map[string]any{
		"top level **int":        &inner,
		"**int field":            baselinePtrField{P: &inner},
		"**int element of []any": []any{&inner, &pSeven},
		"**int value of map any": map[string]any{"k": &inner},
		"**int element []**int":  baselinePtrList{L: []**int{&inner, &pSeven}},
	})
}

// A NIL pointer of depth two or more is written as {"PointerNum":1,...}: the levels under the nil one are not counted.
// Marshal reports no error, but in a typed holder (struct field, slice element, map value) the bytes cannot be read
// back ("decoded value of type *int is not assignable to **int"), so the whole checkpoint is lost; in an interface
// holder the value silently comes back with another dynamic type (*int instead of **int).
func TestBaselineNilDeepPointerIsWrittenWithTheWrongDepth(t *testing.T) {
	_ = GenericRegister[baselinePtrField]("baseline_ptr_field")
	_ = GenericRegister[baselinePtrList]("baseline_ptr_list")
	_ = GenericRegister[baselinePtrMap]("baseline_ptr_map")

	seven := 7
	pSeven := &seven
	baselineRoundTrip(t, map[string]any{
		"struct whose **int field is nil": baselinePtrField{},
		"nil **int element":               baselinePtrList{L: []**int{&pSeven, nil}},
		"nil **int map value":             baselinePtrMap{M: map[string]**int{"a": &pSeven, "b": nil}},
		"nil **int in []any":              []any{(**int)(nil)},
	})
}
