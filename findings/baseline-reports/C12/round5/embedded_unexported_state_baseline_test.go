package compose

import (
	"context"
	"reflect"
	"testing"
)

type baselineHistory struct {
	Visited []string
}

// BaselineSessionState embeds an unexported helper struct, a common Go layout. Visited is an exported (promoted) field
// of BaselineSessionState.
type BaselineSessionState struct {
	baselineHistory
	Count int
}

type baselineStore struct{ m map[string][]byte }

func (s *baselineStore) Get(_ context.Context, id string) ([]byte, bool, error) {
	v, ok := s.m[id]
	return v, ok, nil
}
func (s *baselineStore) Set(_ context.Context, id string, data []byte) error {
	s.m[id] = append([]byte(nil), data...)
	return nil
}

// The state written at the interrupt has Visited=[first] and Count=1; the resumed run sees Count=1 but an empty
// Visited: the checkpoint was written and read without any error, yet the state that was written is not restored.
func TestBaselineStateWithUnexportedEmbeddedStructLosesPromotedFields(t *testing.T) {
	_ = RegisterSerializableType[BaselineSessionState]("baseline_session_state")
	ctx := context.Background()

	g := NewGraph[string, string](WithGenLocalState(func(ctx context.Context) *BaselineSessionState {
		return &BaselineSessionState{}
	}))
	_ = g.AddLambdaNode("first", InvokableLambda(func(ctx context.Context, in string) (string, error) {
		return in, nil
	}), WithStatePostHandler(func(ctx context.Context, out string, s *BaselineSessionState) (string, error) {
		s.Visited = append(s.Visited, "first")
		s.Count++
		return out, nil
	}))
	var seenVisited []string
	var seenCount int
	_ = g.AddLambdaNode("second", InvokableLambda(func(ctx context.Context, in string) (string, error) {
		return in, nil
	}), WithStatePreHandler(func(ctx context.Context, in string, s *BaselineSessionState) (string, error) {
		seenVisited = append([]string(nil), s.Visited...)
		seenCount = s.Count
		return in, nil
	}))
	_ = g.AddEdge(START, "first")
	_ = g.AddEdge("first", "second")
	_ = g.AddEdge("second", END)
	r, err := g.Compile(ctx, WithCheckPointStore(&baselineStore{m: map[string][]byte{}}), WithInterruptBeforeNodes([]string{"second"}))
	if err != nil {
		t.Fatal(err)
	}

	_, err = r.Invoke(ctx, "x", WithCheckPointID("cp"))
	info, ok := ExtractInterruptInfo(err)
	if !ok {
		t.Fatalf("expected an interrupt, got %v", err)
	}
	written := info.State.(*BaselineSessionState)
	if !reflect.DeepEqual(written.Visited, []string{"first"}) || written.Count != 1 {
		t.Fatalf("unexpected state at the interrupt: %+v", written)
	}

	if _, err = r.Invoke(ctx, "", WithCheckPointID("cp")); err != nil {
		t.Fatalf("resume: %v", err)
	}
	if seenCount != 1 {
		t.Fatalf("resumed run saw Count=%d, want 1", seenCount)
	}
	if !reflect.DeepEqual(seenVisited, []string{"first"}) {
		t.Fatalf("resumed run saw Visited=%v, the state written at the interrupt had Visited=[first]", seenVisited)
	}
}
