package serialization

import (
	"reflect"
	"testing"
)

// property: Marshal refuses the value, or Unmarshal(Marshal(v)) is deeply equal to v with the identical dynamic type.
func c12bRoundTripOrLoud(t *testing.T, v any) {
	t.Helper()
	data, err := Marshal(v)
	if err != nil {
		t.Logf("refused loudly: %v", err)
		return
	}
	out, err := c12bUnmarshalNoPanic(t, data)
	if err != nil {
		t.Errorf("Marshal accepted %#v but Unmarshal failed: %v\ndata: %s", v, err, data)
		return
	}
	if !reflect.DeepEqual(v, out) {
		t.Errorf("silently different value came back:\n in: %#v\nout: %#v\ndata: %s", v, out, data)
	}
}

func c12bUnmarshalNoPanic(t *testing.T, data []byte) (out any, err error) {
	t.Helper()
	defer func() {
		if p := recover(); p != nil {
			t.Errorf("Unmarshal panicked: %v\ndata: %s", p, data)
			err = nil
		}
	}()
	return Unmarshal(data)
}

// ---- B1: a map keyed by a registered struct that has an interface-typed field ----
// The key is not encoded by the serializer itself but by a plain sonic.MarshalString / UnmarshalString of the whole key
// struct, so the dynamic type of what the key's interface field holds is lost (int -> float64, struct -> map[string]any)
// and keys that differ only in that dynamic type collapse into one entry.

type c12bKey struct {
	Kind string
	ID   any
}

type c12bInner struct{ N int }

func TestC12Baseline_StructKeyWithInterfaceField(t *testing.T) {
	_ = GenericRegister[c12bKey]("c12b_key")
	_ = GenericRegister[c12bInner]("c12b_inner")

	t.Run("int in the key's any field comes back as float64", func(t *testing.T) {
		c12bRoundTripOrLoud(t, map[c12bKey]string{{Kind: "user", ID: 7}: "seven"})
	})
	t.Run("struct in the key's any field: Unmarshal panics (unhashable map[string]any put into the key)", func(t *testing.T) {
		c12bRoundTripOrLoud(t, map[c12bKey]string{{Kind: "user", ID: c12bInner{N: 1}}: "x"})
	})
	t.Run("two keys differing only in the dynamic type collapse: an entry is lost", func(t *testing.T) {
		in := map[c12bKey]string{
			{Kind: "user", ID: int64(7)}:   "int64",
			{Kind: "user", ID: float64(7)}: "float64",
		}
		data, err := Marshal(in)
		if err != nil {
			return
		}
		out, err := Unmarshal(data)
		if err != nil {
			t.Fatalf("unmarshal: %v", err)
		}
		if got := reflect.ValueOf(out).Len(); got != len(in) {
			t.Errorf("%d entries written, %d read back; data: %s", len(in), got, data)
		}
	})
	t.Run("the same struct as a map VALUE round-trips (contrast)", func(t *testing.T) {
		c12bRoundTripOrLoud(t, map[string]c12bKey{"k": {Kind: "user", ID: 7}})
	})
}

// ---- B2: exported fields promoted from an embedded struct of an unexported type are dropped ----
// internalMarshal skips every field with PkgPath != "", which is also true for an embedded field whose type name is
// unexported, although its exported fields are promoted, settable from outside the package and encoded by encoding/json.

type c12bBase struct {
	ID   int
	Name string
}

type c12bRecord struct {
	c12bBase
	Note string
}

func TestC12Baseline_EmbeddedUnexportedStructFieldsDropped(t *testing.T) {
	_ = GenericRegister[c12bBase]("c12b_base")
	_ = GenericRegister[c12bRecord]("c12b_record")

	c12bRoundTripOrLoud(t, c12bRecord{c12bBase: c12bBase{ID: 42, Name: "n"}, Note: "note"})
}

// ---- B3: a type registered under the empty name ----
// GenericRegister accepts "" as a key. The decoder tells the four node kinds apart by which type-key field is non-empty,
// so a value of that type is written with no kind at all and read back as an empty slice of the type - no error anywhere.

type c12bNameless struct{ A int }

type c12bHolder struct{ V any }

func TestC12Baseline_TypeRegisteredUnderEmptyName(t *testing.T) {
	_ = GenericRegister[c12bHolder]("c12b_holder")
	if err := GenericRegister[c12bNameless](""); err != nil {
		t.Skipf("registration under the empty name is refused: %v (that would be fine)", err)
	}
	c12bRoundTripOrLoud(t, c12bNameless{A: 3})
	c12bRoundTripOrLoud(t, c12bHolder{V: &c12bNameless{A: 3}})
}

// ---- B4 (possibly outside the listed universe): named slice / map types in an interface-typed position ----
// A named basic type keeps its identity (it has a registry key of its own), a named container type does not: the slice
// and map nodes only record the element types, so in an any-typed field the value silently changes its dynamic type.

type c12bIDs []string
type c12bAttrs map[string]int

func TestC12Baseline_NamedContainerTypeInInterfacePosition(t *testing.T) {
	_ = GenericRegister[c12bHolder]("c12b_holder")
	_ = GenericRegister[c12bIDs]("c12b_ids")
	_ = GenericRegister[c12bAttrs]("c12b_attrs")

	c12bRoundTripOrLoud(t, c12bHolder{V: c12bIDs{"a", "b"}})
	c12bRoundTripOrLoud(t, c12bHolder{V: c12bAttrs{"a": 1}})
	c12bRoundTripOrLoud(t, []any{c12bIDs{"a"}})
}
