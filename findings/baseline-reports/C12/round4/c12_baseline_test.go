package serialization

import (
	"reflect"
	"testing"
)

// Reproducers for property C12 on the UNMODIFIED tree.
//
// c12bRoundTripOrLoud is the property itself: Marshal+Unmarshal either report an error, or give back a deeply
// equal value of the identical dynamic type.

func c12bRoundTripOrLoud(t *testing.T, in any) {
	t.Helper()
	data, err := Marshal(in)
	if err != nil {
		t.Logf("marshal fails loudly: %v", err)
		return
	}
	var out any
	func() {
		defer func() {
			if r := recover(); r != nil {
				t.Errorf("unmarshal panicked: %v", r)
			}
		}()
		out, err = Unmarshal(data)
	}()
	if t.Failed() {
		return
	}
	if err != nil {
		t.Logf("unmarshal fails loudly: %v", err)
		return
	}
	if reflect.TypeOf(in) != reflect.TypeOf(out) {
		t.Errorf("no error, but a value of another dynamic type is read back:\n in: %T %#v\nout: %T %#v\ndata: %s", in, in, out, out, data)
		return
	}
	if !reflect.DeepEqual(in, out) {
		t.Errorf("no error, but a different value is read back:\n in: %#v\nout: %#v\ndata: %s", in, out, data)
	}
}

type c12bKey struct {
	ID any
}

type c12bBox struct {
	V any
}

type c12bbase struct { // unexported type, exported field
	ID int
}

type c12bEmbedding struct {
	c12bbase
	Name string
}

type c12bNames []string

type c12bEmptyName struct {
	A string
}

func init() {
	_ = GenericRegister[c12bKey]("c12b_key")
	_ = GenericRegister[c12bBox]("c12b_box")
	_ = GenericRegister[c12bEmbedding]("c12b_embedding")
	_ = GenericRegister[c12bbase]("c12b_base")
}

// 1. a pointer to a slice or to a map loses its pointer: internalMarshal records PointerNum, the map and slice
// branches of internalUnmarshal never look at it (only the basic and struct branches do).
func TestC12BaselinePointerToSliceOrMap(t *testing.T) {
	s := []int{1, 2}
	m := map[string]int{"a": 1}
	t.Run("*[]int", func(t *testing.T) { c12bRoundTripOrLoud(t, &s) })
	t.Run("*map[string]int", func(t *testing.T) { c12bRoundTripOrLoud(t, &m) })
	t.Run("*[]int in []any", func(t *testing.T) { c12bRoundTripOrLoud(t, []any{&s}) })
	t.Run("*map in map[string]any", func(t *testing.T) { c12bRoundTripOrLoud(t, map[string]any{"m": &m}) })
	t.Run("*[]int in any field", func(t *testing.T) { c12bRoundTripOrLoud(t, c12bBox{V: &s}) })
}

// 2. a nil pointer below the top pointer level: the pointer loop of internalMarshal stops counting at the first
// nil level, and the decoder unmarshals "null" into the outermost pointer.
func TestC12BaselineNilBelowTopPointerLevel(t *testing.T) {
	var nilInt *int
	pNil := &nilInt // **int, non-nil, pointing to a nil *int
	ppNil := &pNil  // ***int
	t.Run("**int -> nil *int", func(t *testing.T) { c12bRoundTripOrLoud(t, pNil) })
	t.Run("***int -> **int -> nil *int in any", func(t *testing.T) { c12bRoundTripOrLoud(t, []any{ppNil}) })
	var nilPP **int
	pNilPP := &nilPP // ***int pointing to a nil **int: PointerNum stops at 2, so a **int comes back
	t.Run("***int -> nil **int in any", func(t *testing.T) { c12bRoundTripOrLoud(t, []any{pNilPP}) })
}

// 3. map keys are written with sonic.MarshalString and read with sonic.UnmarshalString, i.e. as plain JSON without
// the type information every other position gets: interface-typed keys (and interface-typed fields of struct keys)
// lose their dynamic type, and keys that differ only in type collide.
func TestC12BaselineInterfaceInMapKey(t *testing.T) {
	t.Run("map[any]string", func(t *testing.T) { c12bRoundTripOrLoud(t, map[any]string{1: "int"}) })
	t.Run("map[any]string colliding", func(t *testing.T) {
		c12bRoundTripOrLoud(t, map[any]string{int(1): "int", int64(1): "int64", uint8(1): "uint8"})
	})
	t.Run("struct key with any field", func(t *testing.T) { c12bRoundTripOrLoud(t, map[c12bKey]string{{ID: 7}: "seven"}) })
	t.Run("struct key with any field holding a struct", func(t *testing.T) {
		c12bRoundTripOrLoud(t, map[c12bKey]string{{ID: c12bKey{ID: "x"}}: "nested"})
	})
}

// 4. pointer-typed map keys are written as the JSON of what they point to: two different keys pointing to equal
// values become one entry.
func TestC12BaselinePointerMapKeysCollide(t *testing.T) {
	a, b := 5, 5
	in := map[*int]string{&a: "a", &b: "b"}
	data, err := Marshal(in)
	if err != nil {
		t.Logf("marshal fails loudly: %v", err)
		return
	}
	out, err := Unmarshal(data)
	if err != nil {
		t.Logf("unmarshal fails loudly: %v", err)
		return
	}
	got, ok := out.(map[*int]string)
	if !ok {
		t.Fatalf("read back a %T", out)
	}
	if len(got) != len(in) {
		t.Errorf("wrote %d entries, read back %d without any error: %v\ndata: %s", len(in), len(got), got, data)
	}
}

// 5. a pointer to an interface value: the pointer loop ends on a reflect.Interface kind, which goes to the "basic
// type" branch under the key of the interface type ("_eino_any") with the plain JSON of the dynamic value.
func TestC12BaselinePointerToInterface(t *testing.T) {
	var v any = 5
	c12bRoundTripOrLoud(t, &v)
	var w any = c12bBox{V: "x"}
	t.Run("struct inside", func(t *testing.T) { c12bRoundTripOrLoud(t, &w) })
}

// 6. exported fields promoted from an embedded struct of an unexported type are dropped: the embedded field itself
// counts as unexported (PkgPath != ""), so it is skipped with everything in it. encoding/json keeps such fields.
func TestC12BaselinePromotedFieldsOfUnexportedEmbedded(t *testing.T) {
	in := c12bEmbedding{Name: "n"}
	in.ID = 42 // an exported field of c12bEmbedding as far as the language is concerned
	c12bRoundTripOrLoud(t, in)
}

// 7. values the serializer does not support are not refused but come back as something else:
// arrays come back as slices, named slice/map types as their unnamed counterparts.
func TestC12BaselineUnsupportedValuesAreNotRefused(t *testing.T) {
	t.Run("array", func(t *testing.T) { c12bRoundTripOrLoud(t, [2]int{1, 2}) })
	t.Run("array in any", func(t *testing.T) { c12bRoundTripOrLoud(t, []any{[2]string{"a", "b"}}) })
	t.Run("named slice in any", func(t *testing.T) { c12bRoundTripOrLoud(t, []any{c12bNames{"a"}}) })
	t.Run("invalid utf-8", func(t *testing.T) { c12bRoundTripOrLoud(t, "a\xffb") })
}

// 8. the empty string is accepted as a registration name; internalUnmarshal tells the kinds of node apart by which
// of Type/StructType/MapKeyType is non-empty, so a value of that type falls through to the slice branch and is
// read back as an empty slice.
// NOTE: this registers a type under "" for the rest of the test binary.
func TestC12BaselineEmptyRegistrationName(t *testing.T) {
	if err := GenericRegister[c12bEmptyName](""); err != nil {
		t.Skipf("registration under the empty name is refused: %v", err)
	}
	c12bRoundTripOrLoud(t, c12bEmptyName{A: "x"})
	t.Run("pointer in any", func(t *testing.T) { c12bRoundTripOrLoud(t, []any{&c12bEmptyName{A: "x"}}) })
}
