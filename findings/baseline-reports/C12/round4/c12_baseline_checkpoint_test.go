package compose

import (
	"context"
	"fmt"
	"strings"
	"testing"
)

// Property C12 on the UNMODIFIED tree, through a real checkpoint: a pending node input that holds a pointer to a
// slice in an interface position is written and read back without any error, but what is read back is the slice
// itself, not the pointer. The run resumed from the store therefore behaves differently from the uninterrupted one.

func c12bGraph(t *testing.T, opts ...GraphCompileOption) Runnable[string, string] {
	t.Helper()
	g := NewGraph[string, string]()
	err := g.AddLambdaNode("split", InvokableLambda(func(ctx context.Context, in string) (map[string]any, error) {
		words := strings.Fields(in)
		return map[string]any{"words": &words}, nil // *[]string
	}))
	if err != nil {
		t.Fatal(err)
	}
	err = g.AddLambdaNode("join", InvokableLambda(func(ctx context.Context, in map[string]any) (string, error) {
		words, ok := in["words"].(*[]string)
		if !ok {
			return "", fmt.Errorf("input[words] is a %T, split produced a *[]string", in["words"])
		}
		return strings.Join(*words, "+"), nil
	}))
	if err != nil {
		t.Fatal(err)
	}
	for _, e := range [][2]string{{START, "split"}, {"split", "join"}, {"join", END}} {
		if err = g.AddEdge(e[0], e[1]); err != nil {
			t.Fatal(err)
		}
	}
	r, err := g.Compile(context.Background(), opts...)
	if err != nil {
		t.Fatal(err)
	}
	return r
}

func TestC12BaselinePointerToSliceThroughCheckpoint(t *testing.T) {
	ctx := context.Background()
	want, err := c12bGraph(t).Invoke(ctx, "a b c")
	if err != nil {
		t.Fatalf("uninterrupted run: %v", err)
	}

	store := newInMemoryStore()
	r := c12bGraph(t, WithCheckPointStore(store), WithInterruptBeforeNodes([]string{"join"}))
	_, err = r.Invoke(ctx, "a b c", WithCheckPointID("cp"))
	if _, ok := ExtractInterruptInfo(err); !ok {
		t.Logf("the checkpoint is refused loudly, which the property allows: %v", err)
		return
	}
	got, err := r.Invoke(ctx, "a b c", WithCheckPointID("cp"))
	if err != nil {
		t.Fatalf("the checkpoint was written and read back without any error, but the resumed run fails: %v", err)
	}
	if got != want {
		t.Fatalf("resumed run returned %q, uninterrupted run %q", got, want)
	}
}
