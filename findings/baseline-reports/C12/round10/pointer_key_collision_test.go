/*
 * Copyright 2025 CloudWeGo Authors
 *
 * Licensed under the Apache License, Version 2.0 (the "License");
 * you may not use this file except in compliance with the License.
 * You may obtain a copy of the License at
 *
 *     http://www.apache.org/licenses/LICENSE-2.0
 *
 * Unless required by applicable law or agreed to in writing, software
 * distributed under the License is distributed on an "AS IS" BASIS,
 * WITHOUT WARRANTIES OR CONDITIONS OF ANY KIND, either express or implied.
 * See the License for the specific language governing permissions and
 * limitations under the License.
 */

package serialization

import (
	"reflect"
	"testing"
)

type ptrFieldKey struct {
	Owner *int
	Name  string
}

// A map key that is a pointer (or a struct holding a pointer) is compared by the pointer, but it is written as the
// JSON text of what it points to: two distinct keys that point to equal values are written under the same text, so
// one entry overwrites the other. Marshal must either keep every entry or refuse the map.
func TestPointerKeysKeepEveryEntryOrFail(t *testing.T) {
	_ = GenericRegister[ptrFieldKey]("_test_ptr_field_key")

	a, b := "x", "x"
	one, uno := 1, 1
	values := map[string]any{
		"pointer key":              map[*string]int{&a: 1, &b: 2},
		"struct key with pointer":  map[ptrFieldKey]string{{Owner: &one, Name: "n"}: "first", {Owner: &uno, Name: "n"}: "second"},
		"pointer to struct as key": map[*ptrFieldKey]int{{Name: "n"}: 1, {Name: "n"}: 2},
	}
	for name, v := range values {
		data, err := Marshal(v)
		if err != nil {
			continue // refused loudly: fine
		}
		got, err := Unmarshal(data)
		if err != nil {
			t.Errorf("%s: Marshal accepted the map but Unmarshal fails: %v", name, err)
			continue
		}
		if reflect.TypeOf(got) != reflect.TypeOf(v) {
			t.Errorf("%s: came back as %T", name, got)
			continue
		}
		if w, g := reflect.ValueOf(v).Len(), reflect.ValueOf(got).Len(); w != g {
			t.Errorf("%s: wrote %d entries, read %d back, no error (bytes: %s)", name, w, g, data)
		}
	}
}
