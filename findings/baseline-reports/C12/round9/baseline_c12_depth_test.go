package serialization

import (
	"reflect"
	"testing"
)

type c12bNode struct {
	V    int
	Next *c12bNode
}

// A linked list is a value built from one registered struct type and pointers. How long may it be?
func TestC12Baseline_DeeplyNestedValue(t *testing.T) {
	_ = GenericRegister[c12bNode]("c12b_node")
	for _, n := range []int{100, 1023, 1024, 5000} {
		var head *c12bNode
		for i := 0; i < n; i++ {
			head = &c12bNode{V: i, Next: head}
		}
		data, err := Marshal(head)
		if err != nil {
			t.Errorf("list of %d nodes: Marshal: %v", n, err)
			continue
		}
		got, err := Unmarshal(data)
		if err != nil {
			msg := err.Error()
			if len(msg) > 160 {
				msg = msg[:160] + "..."
			}
			t.Errorf("list of %d nodes: Unmarshal: %v", n, msg)
			continue
		}
		if !reflect.DeepEqual(got, head) {
			t.Errorf("list of %d nodes: came back different", n)
		}
	}
}
