package serialization

import (
	"reflect"
	"testing"
)

type c12bAudit struct {
	CreatedBy string
	Revision  int
}

// c12bOrder embeds an unexported struct type. CreatedBy and Revision are exported fields of c12bOrder: every package
// can read and write order.CreatedBy, reflection can set it, encoding/json encodes and decodes it.
type c12bOrder struct {
	c12bAudit
	ID string
}

func TestC12Baseline_FieldsPromotedFromUnexportedEmbeddedStruct(t *testing.T) {
	_ = GenericRegister[c12bAudit]("c12b_audit")
	_ = GenericRegister[c12bOrder]("c12b_order")

	for _, value := range []any{
		c12bOrder{c12bAudit: c12bAudit{CreatedBy: "ann", Revision: 3}, ID: "o-1"},
		&c12bOrder{c12bAudit: c12bAudit{CreatedBy: "bob", Revision: 4}, ID: "o-2"},
		[]any{c12bOrder{c12bAudit: c12bAudit{CreatedBy: "cy"}, ID: "o-3"}},
	} {
		data, err := Marshal(value)
		if err != nil {
			t.Logf("%T refused loudly: %v", value, err)
			continue
		}
		got, err := Unmarshal(data)
		if err != nil {
			t.Logf("%T refused loudly on the way back: %v", value, err)
			continue
		}
		if !reflect.DeepEqual(got, value) {
			t.Errorf("no error, but a different value came back\n encoded: %s\n wrote: %+v\n read:  %+v", data, value, got)
		}
	}
}
