package serialization

import (
	"reflect"
	"testing"
)

// Reproducers for round-trip defects of the UNMODIFIED serialiser. Every sub-test builds a value out of
// registered types only; Marshal and Unmarshal both succeed, but the value that comes back differs from
// the one that went in (or Unmarshal panics instead of returning an error).

type c12bTags []string
type c12bAttrs map[string]int

type c12bKey struct {
	Tenant string
	Shard  int `json:"-"`
}

type c12bBase struct {
	ID int
}

type c12bbase struct { // unexported type, exported field
	Rev int
}

type c12bDoc struct {
	c12bbase
	Title string
}

type c12bWithPtrSlice struct {
	Items *[]int
}

func c12bRegister() {
	_ = GenericRegister[c12bTags]("c12b_tags")
	_ = GenericRegister[c12bAttrs]("c12b_attrs")
	_ = GenericRegister[c12bKey]("c12b_key")
	_ = GenericRegister[c12bBase]("c12b_base")
	_ = GenericRegister[c12bDoc]("c12b_doc")
	_ = GenericRegister[c12bWithPtrSlice]("c12b_with_ptr_slice")
}

func c12bRoundTrip(t *testing.T, v any) (out any) {
	t.Helper()
	defer func() {
		if r := recover(); r != nil {
			t.Errorf("panic instead of an error: %v", r)
			out = nil
		}
	}()
	data, err := Marshal(v)
	if err != nil {
		t.Skipf("marshal fails loudly (acceptable): %v", err)
	}
	nv, err := Unmarshal(data)
	if err != nil {
		t.Skipf("unmarshal fails loudly (acceptable): %v  data=%s", err, data)
	}
	if !reflect.DeepEqual(v, nv) {
		t.Errorf("round trip changed the value:\n  in : %T %#v\n  out: %T %#v\n  data: %s", v, v, nv, nv, data)
	}
	return nv
}

func TestBaselineC12(t *testing.T) {
	c12bRegister()

	t.Run("non-nil pointer to nil pointer becomes nil pointer", func(t *testing.T) {
		var inner *int
		c12bRoundTrip(t, &inner) // **int, *p == nil
	})
	t.Run("typed nil **T in interface position comes back as nil *T", func(t *testing.T) {
		c12bRoundTrip(t, []any{(**c12bBase)(nil)})
	})
	t.Run("pointer to slice loses the pointer", func(t *testing.T) {
		s := []int{1, 2}
		c12bRoundTrip(t, []any{&s})
	})
	t.Run("pointer to map loses the pointer", func(t *testing.T) {
		m := map[string]int{"a": 1}
		c12bRoundTrip(t, []any{&m})
	})
	t.Run("pointer-to-slice struct field panics in Unmarshal", func(t *testing.T) {
		s := []int{1}
		c12bRoundTrip(t, c12bWithPtrSlice{Items: &s})
	})
	t.Run("named slice type in interface position loses its name", func(t *testing.T) {
		c12bRoundTrip(t, []any{c12bTags{"a", "b"}})
	})
	t.Run("named map type in interface position loses its name", func(t *testing.T) {
		c12bRoundTrip(t, []any{c12bAttrs{"a": 1}})
	})
	t.Run("array comes back as slice", func(t *testing.T) {
		c12bRoundTrip(t, []any{[2]int{1, 2}})
	})
	t.Run("interface-typed map key: int key comes back as float64", func(t *testing.T) {
		c12bRoundTrip(t, map[any]string{1: "one"})
	})
	t.Run("interface-typed map key: struct key comes back as map", func(t *testing.T) {
		c12bRoundTrip(t, map[any]string{c12bBase{ID: 1}: "one"})
	})
	t.Run("interface-typed map key: distinct keys int(1), int64(1), uint8(1) collide", func(t *testing.T) {
		in := map[any]string{1: "int", int64(1): "int64", uint8(1): "uint8"}
		out := c12bRoundTrip(t, in)
		if m, ok := out.(map[any]string); ok && len(m) != len(in) {
			t.Errorf("entries lost: %d in, %d out", len(in), len(m))
		}
	})
	t.Run("struct map key with json:\"-\" field: entries collide and are lost", func(t *testing.T) {
		in := map[c12bKey]string{{Tenant: "t", Shard: 1}: "a", {Tenant: "t", Shard: 2}: "b"}
		out := c12bRoundTrip(t, in)
		if m, ok := out.(map[c12bKey]string); ok && len(m) != len(in) {
			t.Errorf("entries lost: %d in, %d out", len(in), len(m))
		}
	})
	t.Run("pointer to interface holding an int comes back holding a float64", func(t *testing.T) {
		var a any = 7
		c12bRoundTrip(t, []any{&a})
	})
	t.Run("exported field promoted from an embedded unexported struct is dropped", func(t *testing.T) {
		c12bRoundTrip(t, c12bDoc{c12bbase: c12bbase{Rev: 3}, Title: "t"})
	})
	t.Run("type registered under the empty key decodes as empty slice", func(t *testing.T) {
		type emptyKeyed struct{ A int }
		if err := GenericRegister[emptyKeyed](""); err != nil {
			t.Skip(err)
		}
		c12bRoundTrip(t, emptyKeyed{A: 5})
	})
}
