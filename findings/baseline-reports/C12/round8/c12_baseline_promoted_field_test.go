package serialization

import (
	"reflect"
	"testing"
)

type c12bBase struct {
	ID    string
	Count int
}

// Record has three exported fields: ID and Count (promoted from the embedded struct, r.ID / r.Count are ordinary
// exported selectors, encoding/json writes them) and Title.
type C12bRecord struct {
	c12bBase
	Title string
}

// The serializer silently drops ID and Count: neither an error from Marshal nor from Unmarshal.
func TestC12BaselineExportedFieldsPromotedFromUnexportedEmbeddedStruct(t *testing.T) {
	_ = GenericRegister[c12bBase]("c12b_base")
	_ = GenericRegister[C12bRecord]("c12b_record")

	in := C12bRecord{c12bBase: c12bBase{ID: "x-1", Count: 3}, Title: "t"}
	data, err := Marshal(in)
	if err != nil {
		t.Logf("refused by Marshal (acceptable): %v", err)
		return
	}
	back, err := Unmarshal(data)
	if err != nil {
		t.Fatalf("Unmarshal: %v", err)
	}
	if !reflect.DeepEqual(in, back) {
		t.Errorf("exported fields lost without an error:\n  in: %+v\n out: %+v\nencoded: %s", in, back, data)
	}
}
