package serialization

import (
	"reflect"
	"testing"
)

type c12bKey struct {
	Name string
	N    int
}

// both map shapes are handled by the serializer when the struct is not behind a nil pointer (see the "non-nil" cases)
type c12bFlags struct {
	On map[bool]string
}

type c12bIndex struct {
	ByKey map[c12bKey]int
}

type c12bHolder struct {
	Next *c12bIndex
}

// A nil pointer to a registered struct is a supported value ("pointers at any depth including nil"). Marshal accepts
// it, but Unmarshal fails when the struct type has - directly or through another pointer field - a map whose key type
// the JSON library cannot decode by itself (bool keys, struct keys), although the serializer supports such maps.
func TestC12BaselineNilPointerToStructWithBoolOrStructKeyedMap(t *testing.T) {
	_ = GenericRegister[c12bKey]("c12b_key")
	_ = GenericRegister[c12bFlags]("c12b_flags")
	_ = GenericRegister[c12bIndex]("c12b_index")
	_ = GenericRegister[c12bHolder]("c12b_holder")

	cases := []struct {
		name string
		v    any
	}{
		{"non-nil bool-keyed", &c12bFlags{On: map[bool]string{true: "yes", false: "no"}}},
		{"non-nil struct-keyed", &c12bIndex{ByKey: map[c12bKey]int{{Name: "a", N: 1}: 1}}},
		{"nil *flags", (*c12bFlags)(nil)},
		{"nil *index", (*c12bIndex)(nil)},
		{"nil *index in []any", []any{1, (*c12bIndex)(nil)}},
		{"nil *index in []*index", []*c12bIndex{nil, {ByKey: map[c12bKey]int{{Name: "a"}: 1}}}},
		{"nil *index as map value", map[string]*c12bIndex{"k": nil}},
		{"nil *index in a field", c12bHolder{}},
		{"nil *holder (index only reachable through a field)", (*c12bHolder)(nil)},
	}
	for _, c := range cases {
		data, err := Marshal(c.v)
		if err != nil {
			t.Logf("%s: refused by Marshal (acceptable): %v", c.name, err)
			continue
		}
		back, err := Unmarshal(data)
		if err != nil {
			t.Errorf("%s: Marshal accepted the value, Unmarshal fails: %v\nencoded: %s", c.name, err, data)
			continue
		}
		if !reflect.DeepEqual(c.v, back) {
			t.Errorf("%s: altered: in %#v out %#v", c.name, c.v, back)
		}
	}
}
