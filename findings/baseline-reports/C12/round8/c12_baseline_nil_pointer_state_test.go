package compose

import (
	"context"
	"testing"
)

type c12bTopic struct {
	Name string
	Lang string
}

type c12bCache struct {
	Hits map[c12bTopic]int // a struct-keyed map: supported by the serializer (it round-trips when Cache is not nil)
}

type c12bState struct {
	Cache *c12bCache // filled lazily: still nil at the interrupt
	Steps int
}

// The interrupted run stores its checkpoint without an error, but the checkpoint cannot be read back: the resumed run
// fails with "load checkpoint from store fail ... cannot unmarshal into Go value of type map[compose.c12bTopic]int".
func TestC12BaselineCheckpointWithNilPointerInStateCannotBeResumed(t *testing.T) {
	_ = RegisterSerializableType[c12bTopic]("c12b_topic")
	_ = RegisterSerializableType[c12bCache]("c12b_cache")
	_ = RegisterSerializableType[c12bState]("c12b_state")

	g := NewGraph[string, string](WithGenLocalState(func(ctx context.Context) *c12bState { return &c12bState{} }))
	must := func(err error) {
		t.Helper()
		if err != nil {
			t.Fatal(err)
		}
	}
	must(g.AddLambdaNode("1", InvokableLambda(func(ctx context.Context, in string) (string, error) { return in + "1", nil }),
		WithStatePreHandler(func(ctx context.Context, in string, s *c12bState) (string, error) { s.Steps++; return in, nil })))
	must(g.AddLambdaNode("2", InvokableLambda(func(ctx context.Context, in string) (string, error) { return in + "2", nil }),
		WithStatePreHandler(func(ctx context.Context, in string, s *c12bState) (string, error) {
			if s.Cache == nil {
				s.Cache = &c12bCache{Hits: map[c12bTopic]int{}}
			}
			s.Cache.Hits[c12bTopic{Name: in}]++
			return in, nil
		})))
	must(g.AddEdge(START, "1"))
	must(g.AddEdge("1", "2"))
	must(g.AddEdge("2", END))

	ctx := context.Background()
	store := &c12bStore{m: map[string][]byte{}}
	r, err := g.Compile(ctx, WithCheckPointStore(store), WithInterruptBeforeNodes([]string{"2"}))
	must(err)

	_, err = r.Invoke(ctx, "in", WithCheckPointID("cp"))
	if _, ok := ExtractInterruptInfo(err); !ok {
		t.Fatalf("expected an interrupt (the checkpoint was written without complaint), got %v", err)
	}
	if len(store.m["cp"]) == 0 {
		t.Fatal("no checkpoint stored")
	}

	out, err := r.Invoke(ctx, "", WithCheckPointID("cp"))
	if err != nil {
		t.Fatalf("the checkpoint that was stored cannot be resumed: %v", err)
	}
	if out != "in12" {
		t.Fatalf("got %q", out)
	}
}

type c12bStore struct{ m map[string][]byte }

func (s *c12bStore) Get(_ context.Context, id string) ([]byte, bool, error) {
	v, ok := s.m[id]
	return v, ok, nil
}

func (s *c12bStore) Set(_ context.Context, id string, data []byte) error {
	s.m[id] = data
	return nil
}
