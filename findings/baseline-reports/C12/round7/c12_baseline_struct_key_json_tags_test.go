package serialization

import (
	"reflect"
	"testing"
)

// Map keys are written as sonic.MarshalString(key) and read back with sonic.UnmarshalString: for a struct key this is
// the ordinary JSON object encoding, which obeys the `json` struct tags of the key type. Struct VALUES are walked field
// by field (by Go field name, tags ignored), so the same type round-trips as a value and loses data as a key.

// every field exported, plain basic types only
type c12bKeyDash struct {
	Tenant string
	Shard  string `json:"-"` // e.g. the type is also used in an HTTP API where the shard must not leak
}

type c12bKeySameName struct {
	Old string `json:"id"`
	New string `json:"id"` // two fields with one JSON name: encoding/json (and sonic) drop both
}

func c12bRoundTrip(t *testing.T, v any) (any, bool) {
	t.Helper()
	data, err := Marshal(v)
	if err != nil {
		t.Logf("refused by Marshal (acceptable): %v", err)
		return nil, false
	}
	got, err := Unmarshal(data)
	if err != nil {
		t.Logf("refused by Unmarshal (acceptable): %v", err)
		return nil, false
	}
	return got, true
}

func TestC12BaselineStructKeyWithJSONDashTag(t *testing.T) {
	_ = GenericRegister[c12bKeyDash]("c12b_key_dash")

	// as a value the type is fine
	val := c12bKeyDash{Tenant: "a", Shard: "x"}
	if got, ok := c12bRoundTrip(t, val); ok && !reflect.DeepEqual(val, got) {
		t.Errorf("value: wrote %#v, read %#v", val, got)
	}

	// as a key the tagged field is dropped: the two entries become one, and the surviving key is a different key
	in := map[c12bKeyDash]int{
		{Tenant: "a", Shard: "x"}: 1,
		{Tenant: "a", Shard: "y"}: 2,
	}
	if got, ok := c12bRoundTrip(t, in); ok && !reflect.DeepEqual(in, got) {
		t.Errorf("map: no error, but a different value came back\n wrote %#v\n  read %#v", in, got)
	}
}

func TestC12BaselineStructKeyWithDuplicateJSONName(t *testing.T) {
	_ = GenericRegister[c12bKeySameName]("c12b_key_same_name")

	val := c12bKeySameName{Old: "1", New: "2"}
	if got, ok := c12bRoundTrip(t, val); ok && !reflect.DeepEqual(val, got) {
		t.Errorf("value: wrote %#v, read %#v", val, got)
	}

	in := map[c12bKeySameName]string{
		{Old: "1", New: "2"}: "first",
		{Old: "3", New: "4"}: "second",
	}
	if got, ok := c12bRoundTrip(t, in); ok && !reflect.DeepEqual(in, got) {
		t.Errorf("map: no error, but a different value came back\n wrote %#v\n  read %#v", in, got)
	}
}
