package compose

import (
	"context"
	"testing"
	"time"
)

type c12bStore struct{ m map[string][]byte }

func (s *c12bStore) Get(_ context.Context, id string) ([]byte, bool, error) {
	v, ok := s.m[id]
	return v, ok, nil
}

func (s *c12bStore) Set(_ context.Context, id string, data []byte) error {
	s.m[id] = append([]byte(nil), data...)
	return nil
}

type c12bState struct {
	Deadline time.Time
	Note     string
}

// A state with a time.Time field. Without registering time.Time the checkpoint cannot be written ("unknown type:
// time.Time"), so the user registers it as the documentation of RegisterSerializableType asks for structs. From then
// on the checkpoint is written and read without any error, but the time comes back as the zero time: the serializer
// walks the exported fields of a struct, time.Time has none, and its MarshalJSON / UnmarshalJSON are never consulted.
func TestC12BaselineTimeInStateIsSilentlyZeroed(t *testing.T) {
	_ = RegisterSerializableType[c12bState]("c12b_state")
	_ = RegisterSerializableType[time.Time]("c12b_time")

	deadline := time.Date(2030, 1, 2, 3, 4, 5, 0, time.UTC)

	g := NewGraph[string, string](WithGenLocalState(func(ctx context.Context) *c12bState {
		return &c12bState{}
	}))
	must := func(err error) {
		t.Helper()
		if err != nil {
			t.Fatal(err)
		}
	}
	must(g.AddLambdaNode("set", InvokableLambda(func(ctx context.Context, in string) (string, error) {
		return in, nil
	}), WithStatePreHandler(func(ctx context.Context, in string, s *c12bState) (string, error) {
		s.Deadline = deadline
		s.Note = "set"
		return in, nil
	})))
	var seen time.Time
	var note string
	must(g.AddLambdaNode("use", InvokableLambda(func(ctx context.Context, in string) (string, error) {
		return in, nil
	}), WithStatePreHandler(func(ctx context.Context, in string, s *c12bState) (string, error) {
		seen, note = s.Deadline, s.Note
		return in, nil
	})))
	must(g.AddEdge(START, "set"))
	must(g.AddEdge("set", "use"))
	must(g.AddEdge("use", END))

	ctx := context.Background()
	store := &c12bStore{m: map[string][]byte{}}
	r, err := g.Compile(ctx, WithCheckPointStore(store), WithInterruptBeforeNodes([]string{"use"}))
	must(err)

	_, err = r.Invoke(ctx, "in", WithCheckPointID("cp"))
	info, ok := ExtractInterruptInfo(err)
	if !ok {
		t.Fatalf("expected an interrupt, got %v", err)
	}
	if st := info.State.(*c12bState); !st.Deadline.Equal(deadline) {
		t.Fatalf("state at the interrupt: %v", st.Deadline)
	}

	_, err = r.Invoke(ctx, "", WithCheckPointID("cp"))
	if err != nil {
		t.Logf("resume refused (acceptable): %v", err)
		return
	}
	if note != "set" {
		t.Errorf("state.Note after resume = %q, want \"set\"", note)
	}
	if !seen.Equal(deadline) {
		t.Errorf("state.Deadline was %v when the checkpoint was written, the resumed run sees %v (no error anywhere)", deadline, seen)
	}
}
