package compose

import (
	"context"
	"reflect"
	"testing"
)

// Fan-in of two predecessors whose DECLARED output type is `any` and whose values are map[string]any at run time,
// into a node whose input type is `any` (every edge is statically assignable, no run-time converter is installed).
//
// Invoke merges the two maps (mergeValues looks at the dynamic kind of the values), Stream / Collect / Transform
// fail in the fan-in channel: "(mergeValues | stream type) unsupported chunk type: interface {}" (mergeValues looks at
// the static chunk type of the streams).
func TestC04BaselineAnyTypedFanIn(t *testing.T) {
	ctx := context.Background()
	for _, mode := range []NodeTriggerMode{AnyPredecessor, AllPredecessor} {
		g := NewGraph[string, any]()
		_ = g.AddLambdaNode("A", InvokableLambda(func(ctx context.Context, in string) (any, error) {
			return map[string]any{"a": in + "A"}, nil
		}))
		_ = g.AddLambdaNode("B", InvokableLambda(func(ctx context.Context, in string) (any, error) {
			return map[string]any{"b": in + "B"}, nil
		}))
		_ = g.AddLambdaNode("C", InvokableLambda(func(ctx context.Context, in any) (any, error) {
			return in, nil
		}))
		_ = g.AddEdge(START, "A")
		_ = g.AddEdge(START, "B")
		_ = g.AddEdge("A", "C")
		_ = g.AddEdge("B", "C")
		_ = g.AddEdge("C", END)
		r, err := g.Compile(ctx, WithNodeTriggerMode(mode))
		if err != nil {
			t.Fatal(err)
		}

		want, err := r.Invoke(ctx, "x")
		if err != nil {
			t.Fatalf("[%s] Invoke: %v", mode, err)
		}
		if !reflect.DeepEqual(want, map[string]any{"a": "xA", "b": "xB"}) {
			t.Fatalf("[%s] Invoke returned %v", mode, want)
		}

		sr, err := r.Stream(ctx, "x")
		if err != nil {
			t.Errorf("[%s] Stream fails where Invoke returned %v: %v", mode, want, err)
			continue
		}
		got, err := concatStreamReader(sr)
		if err != nil {
			t.Errorf("[%s] Stream output fails where Invoke returned %v: %v", mode, want, err)
			continue
		}
		if !reflect.DeepEqual(got, want) {
			t.Errorf("[%s] Stream gives %v, Invoke gives %v", mode, got, want)
		}
	}
}
