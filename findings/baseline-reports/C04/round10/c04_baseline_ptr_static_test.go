package compose

import (
	"context"
	"io"
	"testing"

	"github.com/cloudwego/eino/schema"
)

// Baseline reproducer (fails on the UNMODIFIED tree).
//
// A Workflow node whose input type is a POINTER to a struct, which has no data predecessor (it only waits for START)
// and gets its input from a static value, works under Invoke but fails under Stream, Collect and Transform:
//
//	concat stream reader fail: cannot concat multiple non-zero value of type *compose.c04BaseReq
//
// The same workflow with the struct taken BY VALUE works in all four paradigms.

type c04BaseReq struct {
	Query string
	Limit int
}

func c04BaseDrain(sr *schema.StreamReader[string]) (string, error) {
	defer sr.Close()
	out := ""
	for {
		c, err := sr.Recv()
		if err == io.EOF {
			return out, nil
		}
		if err != nil {
			return "", err
		}
		out += c
	}
}

func c04BaseFour(t *testing.T, r Runnable[string, string], want string) {
	t.Helper()
	ctx := context.Background()

	got, err := r.Invoke(ctx, "in")
	if err != nil || got != want {
		t.Fatalf("Invoke: got %q, err %v; want %q", got, err, want)
	}

	got, err = r.Collect(ctx, schema.StreamReaderFromArray([]string{"i", "n"}))
	if err != nil || got != want {
		t.Errorf("Collect: got %q, err %v; want %q (what Invoke returns)", got, err, want)
	}

	sr, err := r.Stream(ctx, "in")
	if err != nil {
		t.Errorf("Stream: failed although Invoke succeeds: %v", err)
	} else if got, err = c04BaseDrain(sr); err != nil || got != want {
		t.Errorf("Stream: got %q, err %v; want %q (what Invoke returns)", got, err, want)
	}

	sr, err = r.Transform(ctx, schema.StreamReaderFromArray([]string{"i", "n"}))
	if err != nil {
		t.Errorf("Transform: failed although Invoke succeeds: %v", err)
	} else if got, err = c04BaseDrain(sr); err != nil || got != want {
		t.Errorf("Transform: got %q, err %v; want %q (what Invoke returns)", got, err, want)
	}
}

// control: struct by value -- passes on the unmodified tree
func TestC04Baseline_StaticValueOnly_StructByValue(t *testing.T) {
	wf := NewWorkflow[string, string]()
	wf.AddLambdaNode("n", InvokableLambda(func(ctx context.Context, in c04BaseReq) (string, error) {
		return "q=" + in.Query, nil
	})).AddDependency(START).SetStaticValue(FieldPath{"Query"}, "static")
	wf.End().AddInput("n")
	r, err := wf.Compile(context.Background())
	if err != nil {
		t.Fatal(err)
	}
	c04BaseFour(t, r, "q=static")
}

// FAILS on the unmodified tree: same workflow, the node takes *c04BaseReq
func TestC04Baseline_StaticValueOnly_StructPointer(t *testing.T) {
	wf := NewWorkflow[string, string]()
	wf.AddLambdaNode("n", InvokableLambda(func(ctx context.Context, in *c04BaseReq) (string, error) {
		return "q=" + in.Query, nil
	})).AddDependency(START).SetStaticValue(FieldPath{"Query"}, "static")
	wf.End().AddInput("n")
	r, err := wf.Compile(context.Background())
	if err != nil {
		t.Fatal(err)
	}
	c04BaseFour(t, r, "q=static")
}
