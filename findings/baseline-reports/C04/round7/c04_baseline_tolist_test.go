package compose

import (
	"context"
	"io"
	"strings"
	"testing"

	"github.com/cloudwego/eino/schema"
)

// compose.ToList[I] natively implements Invoke ([]I{input}) and Transform (every chunk c becomes []I{c}).
// Behind a producer that splits its output into several chunks, the Transform side emits several one-element
// slices; for any I but *schema.Message there is no way to concatenate those into what Invoke returns
// ([]I{concatenation of the chunks}), and the framework's own concatenation refuses them.
// So a chain that works under Invoke fails under Stream / Collect / Transform.
func TestC04Baseline_ToListBehindChunkedProducer(t *testing.T) {
	ctx := context.Background()

	ch := NewChain[string, string]()
	ch.AppendLambda(StreamableLambda(func(ctx context.Context, in string) (*schema.StreamReader[string], error) {
		return schema.StreamReaderFromArray([]string{in, "-", "tail"}), nil
	}))
	ch.AppendLambda(ToList[string]())
	ch.AppendLambda(InvokableLambda(func(ctx context.Context, in []string) (string, error) {
		return strings.Join(in, "|"), nil
	}))
	r, err := ch.Compile(ctx)
	if err != nil {
		t.Fatal(err)
	}

	drain := func(sr *schema.StreamReader[string]) (string, error) {
		defer sr.Close()
		var sb strings.Builder
		for {
			c, err := sr.Recv()
			if err == io.EOF {
				return sb.String(), nil
			}
			if err != nil {
				return "", err
			}
			sb.WriteString(c)
		}
	}

	const want = "head-tail"

	got, err := r.Invoke(ctx, "head")
	if err != nil || got != want {
		t.Fatalf("Invoke = %q, %v; want %q", got, err, want)
	}

	sr, err := r.Stream(ctx, "head")
	if err != nil {
		t.Errorf("Stream failed although Invoke succeeded: %v", err)
	} else if got, err = drain(sr); err != nil || got != want {
		t.Errorf("Stream = %q, %v; Invoke returned %q", got, err, want)
	}

	got, err = r.Collect(ctx, schema.StreamReaderFromArray([]string{"he", "ad"}))
	if err != nil || got != want {
		t.Errorf("Collect = %q, %v; Invoke returned %q", got, err, want)
	}

	sr, err = r.Transform(ctx, schema.StreamReaderFromArray([]string{"he", "ad"}))
	if err != nil {
		t.Errorf("Transform failed although Invoke succeeded: %v", err)
	} else if got, err = drain(sr); err != nil || got != want {
		t.Errorf("Transform = %q, %v; Invoke returned %q", got, err, want)
	}
}
