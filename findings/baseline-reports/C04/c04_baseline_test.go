package compose

import (
	"context"
	"fmt"
	"reflect"
	"testing"
	"time"

	"github.com/cloudwego/eino/schema"
)

// Reproducers for paradigm disagreements of the UNMODIFIED tree (property C04).
// Every test runs the same compiled runnable through Invoke / Stream / Collect / Transform and requires the
// four outcomes to agree: same success/failure, and for successes the concatenated output equal to Invoke's.

type c04Outcome struct {
	val any
	err error
}

func (o c04Outcome) String() string {
	if o.err != nil {
		msg := o.err.Error()
		if len(msg) > 160 {
			msg = msg[:160] + "..."
		}
		return "ERROR(" + msg + ")"
	}
	return fmt.Sprintf("OK(%#v)", o.val)
}

func c04Guard(f func() (any, error)) (out c04Outcome) {
	done := make(chan struct{})
	go func() {
		defer close(done)
		defer func() {
			if p := recover(); p != nil {
				out = c04Outcome{err: fmt.Errorf("PANIC in caller goroutine: %v", p)}
			}
		}()
		v, err := f()
		out = c04Outcome{val: v, err: err}
	}()
	select {
	case <-done:
	case <-time.After(5 * time.Second):
		return c04Outcome{err: fmt.Errorf("HANG")}
	}
	return out
}

// c04ConcatOut concatenates an output stream; an empty stream is reported as the value "<empty stream>".
func c04ConcatOut[O any](sr *schema.StreamReader[O]) (any, error) {
	v, err := concatStreamReader(sr)
	if err == emptyStreamConcatErr {
		return "<empty stream>", nil
	}
	if err != nil {
		return nil, err
	}
	return v, nil
}

func c04Four[I, O any](t *testing.T, r Runnable[I, O], whole I, chunks []I) {
	t.Helper()
	ctx := context.Background()
	res := map[string]c04Outcome{
		"Invoke": c04Guard(func() (any, error) { return r.Invoke(ctx, whole) }),
		"Stream": c04Guard(func() (any, error) {
			sr, err := r.Stream(ctx, whole)
			if err != nil {
				return nil, err
			}
			return c04ConcatOut(sr)
		}),
		"Collect": c04Guard(func() (any, error) { return r.Collect(ctx, schema.StreamReaderFromArray(chunks)) }),
		"Transform": c04Guard(func() (any, error) {
			sr, err := r.Transform(ctx, schema.StreamReaderFromArray(chunks))
			if err != nil {
				return nil, err
			}
			return c04ConcatOut(sr)
		}),
	}
	ref := res["Invoke"]
	for _, name := range []string{"Stream", "Collect", "Transform"} {
		o := res[name]
		if (o.err != nil) != (ref.err != nil) || (o.err == nil && !reflect.DeepEqual(o.val, ref.val)) {
			t.Errorf("%s disagrees with Invoke:\n  Invoke    = %v\n  %-9s = %v", name, ref, name, o)
		}
	}
}

// 1. WithInputKey on a natively transforming node, the key is absent from the input:
// Invoke fails ("cannot find input key"), Stream and Transform silently succeed with an empty output stream.
func TestC04BaselineMissingInputKeyTransformNode(t *testing.T) {
	g := NewGraph[map[string]any, string]()
	_ = g.AddLambdaNode("n", TransformableLambda(func(ctx context.Context, in *schema.StreamReader[string]) (*schema.StreamReader[string], error) {
		return schema.StreamReaderWithConvert(in, func(s string) (string, error) { return s + "!", nil }), nil
	}), WithInputKey("k"))
	_ = g.AddEdge(START, "n")
	_ = g.AddEdge("n", END)
	r, err := g.Compile(context.Background())
	if err != nil {
		t.Fatal(err)
	}
	c04Four(t, r, map[string]any{"x": "1"}, []map[string]any{{"x": "1"}})
}

// 2. Fan-in of two predecessors that write the same output key:
// Invoke fails ("duplicated key"), Stream / Transform deliver both chunks, Collect silently concatenates them.
func TestC04BaselineFanInDuplicateKey(t *testing.T) {
	g := NewGraph[string, map[string]any]()
	_ = g.AddLambdaNode("a", InvokableLambda(func(ctx context.Context, in string) (string, error) { return in + "a", nil }), WithOutputKey("x"))
	_ = g.AddLambdaNode("b", InvokableLambda(func(ctx context.Context, in string) (string, error) { return in + "b", nil }), WithOutputKey("x"))
	_ = g.AddEdge(START, "a")
	_ = g.AddEdge(START, "b")
	_ = g.AddEdge("a", END)
	_ = g.AddEdge("b", END)
	r, err := g.Compile(context.Background())
	if err != nil {
		t.Fatal(err)
	}
	c04Four(t, r, "in", []string{"i", "n"})
}

// 3. FromField mapping onto a scalar input, the source map arrives in incomplete chunks:
// a chunk without the mapped key is turned into a zero-value chunk, and the scalar concat rule (use last)
// then picks that zero: Collect / Transform compute with 0, Invoke with 5. Silent wrong data.
func TestC04BaselineFromFieldScalarIncompleteChunks(t *testing.T) {
	wf := NewWorkflow[map[string]any, string]()
	wf.AddLambdaNode("n", InvokableLambda(func(ctx context.Context, in int) (string, error) {
		return fmt.Sprintf("<%d>", in), nil
	})).AddInput(START, FromField("n"))
	wf.End().AddInput("n")
	r, err := wf.Compile(context.Background())
	if err != nil {
		t.Fatal(err)
	}
	c04Four(t, r, map[string]any{"n": 5, "other": "x"}, []map[string]any{{"n": 5}, {"other": "x"}})
}

// 4. A node whose input type is `any`, fed with a string stream of more than one chunk:
// the chunks are concatenated as []any, for which no concat rule exists, although every chunk is a string.
// Invoke and Stream succeed, Collect and Transform fail.
func TestC04BaselineAnyTypedInputMultiChunk(t *testing.T) {
	g := NewGraph[string, string]()
	_ = g.AddLambdaNode("n", InvokableLambda(func(ctx context.Context, in any) (string, error) {
		return fmt.Sprintf("<%v>", in), nil
	}))
	_ = g.AddEdge(START, "n")
	_ = g.AddEdge("n", END)
	r, err := g.Compile(context.Background())
	if err != nil {
		t.Fatal(err)
	}
	c04Four(t, r, "hello", []string{"he", "llo"})
}

// 5. Graph output type `any`, the last node returns nil:
// Invoke fails ("no tasks to execute": the run loop mistakes the nil END value for "END not reached"),
// the three stream paradigms succeed with a nil value.
func TestC04BaselineNilAnyGraphOutput(t *testing.T) {
	g := NewGraph[string, any]()
	_ = g.AddLambdaNode("n", InvokableLambda(func(ctx context.Context, in string) (any, error) { return nil, nil }))
	_ = g.AddEdge(START, "n")
	_ = g.AddEdge("n", END)
	r, err := g.Compile(context.Background())
	if err != nil {
		t.Fatal(err)
	}
	c04Four(t, r, "hello", []string{"he", "llo"})
}

// 6. A nil value of type `any` handed from one node to the next:
// Invoke fails (the successor's input assertion panics, reported as a node error), the stream paradigms succeed.
func TestC04BaselineNilAnyBetweenNodes(t *testing.T) {
	g := NewGraph[string, string]()
	_ = g.AddLambdaNode("n", InvokableLambda(func(ctx context.Context, in string) (any, error) { return nil, nil }))
	_ = g.AddLambdaNode("m", InvokableLambda(func(ctx context.Context, in any) (string, error) {
		return fmt.Sprintf("<%v>", in), nil
	}))
	_ = g.AddEdge(START, "n")
	_ = g.AddEdge("n", "m")
	_ = g.AddEdge("m", END)
	r, err := g.Compile(context.Background())
	if err != nil {
		t.Fatal(err)
	}
	c04Four(t, r, "hello", []string{"he", "llo"})
}
