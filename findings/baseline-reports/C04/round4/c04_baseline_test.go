package compose

import (
	"context"
	"fmt"
	"io"
	"strings"
	"testing"

	"github.com/cloudwego/eino/schema"
)

// Reproducers for C04 ("Invoke, Stream, Collect and Transform of a compiled graph agree") on the UNMODIFIED tree.
// Every test builds one small graph / workflow, runs it with Invoke and with Stream on the same input and requires
//   - both to succeed with the same (concatenated) value, or
//   - both to report a failure (error at call time or error item on the stream), never a panic.

type c04Outcome struct {
	chunks   []any
	err      error
	panicked any
}

func (o c04Outcome) failed() bool { return o.err != nil || o.panicked != nil }

func (o c04Outcome) String() string {
	switch {
	case o.panicked != nil:
		return fmt.Sprintf("PANIC(%.120v)", o.panicked)
	case o.err != nil:
		msg := strings.Join(strings.Fields(o.err.Error()), " ")
		if len(msg) > 160 {
			msg = msg[:160] + "..."
		}
		return fmt.Sprintf("error(%s)", msg)
	default:
		return fmt.Sprintf("ok%v", o.chunks)
	}
}

func c04Invoke[I, O any](r Runnable[I, O], in I) (o c04Outcome) {
	defer func() {
		if p := recover(); p != nil {
			o.panicked = p
		}
	}()
	out, err := r.Invoke(context.Background(), in)
	if err != nil {
		return c04Outcome{err: err}
	}
	return c04Outcome{chunks: []any{out}}
}

func c04Stream[I, O any](r Runnable[I, O], in I) (o c04Outcome) {
	defer func() {
		if p := recover(); p != nil {
			o.panicked = p
		}
	}()
	sr, err := r.Stream(context.Background(), in)
	if err != nil {
		return c04Outcome{err: err}
	}
	defer sr.Close()
	for {
		c, err := sr.Recv()
		if err == io.EOF {
			return o
		}
		if err != nil {
			o.err = err
			return o
		}
		o.chunks = append(o.chunks, c)
	}
}

// requireSameVerdict: both paradigms fail (and none panics), or both succeed.
func c04RequireSameVerdict(t *testing.T, inv, str c04Outcome) {
	t.Helper()
	if inv.panicked != nil || str.panicked != nil {
		t.Errorf("a paradigm panicked: Invoke -> %v ; Stream -> %v", inv, str)
		return
	}
	if inv.failed() != str.failed() {
		t.Errorf("failure reported in only one paradigm: Invoke -> %v ; Stream -> %v", inv, str)
	}
}

// 1. The last node returns the nil interface for an `any`-typed graph output.
// Invoke: "[GraphRunError] no tasks to execute" (runner.run treats a nil END value as "END not reached").
// Stream: succeeds with the single chunk <nil>.
func TestC04Baseline_NilInterfaceOutput(t *testing.T) {
	g := NewGraph[string, any]()
	_ = g.AddLambdaNode("a", InvokableLambda(func(ctx context.Context, in string) (any, error) { return nil, nil }))
	_ = g.AddEdge(START, "a")
	_ = g.AddEdge("a", END)
	r, err := g.Compile(context.Background())
	if err != nil {
		t.Fatal(err)
	}
	c04RequireSameVerdict(t, c04Invoke(r, "x"), c04Stream(r, "x"))
}

// 2. WithInputKey, the key is present but holds nil, the node natively implements Transform.
// Invoke: node error "unexpected input type. expected: string, got: <nil>".
// Stream: Stream() returns no error; the caller's own Recv() PANICS (nil pointer dereference in
// defaultStreamMapFilter: reflect.TypeOf(nil).String()), in the caller's goroutine, outside any recover of the graph.
func TestC04Baseline_InputKeyNilValue(t *testing.T) {
	g := NewGraph[map[string]any, string]()
	_ = g.AddLambdaNode("a", TransformableLambda(func(ctx context.Context, in *schema.StreamReader[string]) (*schema.StreamReader[string], error) {
		return in, nil
	}), WithInputKey("k"))
	_ = g.AddEdge(START, "a")
	_ = g.AddEdge("a", END)
	r, err := g.Compile(context.Background())
	if err != nil {
		t.Fatal(err)
	}
	in := map[string]any{"k": nil}
	c04RequireSameVerdict(t, c04Invoke(r, in), c04Stream(r, in))
}

// 3. WithInputKey, the key is absent, the node natively implements Transform.
// Invoke: node error "cannot find input key: k".
// Stream: succeeds with an empty stream (chunks without the key are silently filtered out).
func TestC04Baseline_InputKeyMissing(t *testing.T) {
	g := NewGraph[map[string]any, string]()
	_ = g.AddLambdaNode("a", TransformableLambda(func(ctx context.Context, in *schema.StreamReader[string]) (*schema.StreamReader[string], error) {
		return in, nil
	}), WithInputKey("k"))
	_ = g.AddEdge(START, "a")
	_ = g.AddEdge("a", END)
	r, err := g.Compile(context.Background())
	if err != nil {
		t.Fatal(err)
	}
	in := map[string]any{"other": "1"}
	c04RequireSameVerdict(t, c04Invoke(r, in), c04Stream(r, in))
}

// 4. Fan-in of two nodes that both output the key "k".
// Invoke: "(mergeMap) duplicated key ('k') found".
// Stream: succeeds, the merged stream carries both {k: x} chunks (no duplicate detection on streams).
func TestC04Baseline_FanInDuplicatedKey(t *testing.T) {
	g := NewGraph[string, map[string]any]()
	f := func(ctx context.Context, in string) (map[string]any, error) { return map[string]any{"k": in}, nil }
	_ = g.AddLambdaNode("a", InvokableLambda(f))
	_ = g.AddLambdaNode("b", InvokableLambda(f))
	_ = g.AddEdge(START, "a")
	_ = g.AddEdge(START, "b")
	_ = g.AddEdge("a", END)
	_ = g.AddEdge("b", END)
	r, err := g.Compile(context.Background())
	if err != nil {
		t.Fatal(err)
	}
	c04RequireSameVerdict(t, c04Invoke(r, "x"), c04Stream(r, "x"))
}

type c04TwoFields struct {
	A string
	B string
}

// 5. Workflow: a struct-typed node input is filled from two predecessors (one field each), all nodes invoke-only.
// Invoke: "xa|xb".
// Stream: "[GraphRunError] concat stream reader fail: cannot concat multiple non-zero value of type compose.c04TwoFields":
// every predecessor's chunk is converted to a (partially filled) struct of its own, and two such structs cannot be
// concatenated. Nothing unusual is needed: this is the plain workflow field-mapping use case, called with Stream.
func TestC04Baseline_WorkflowStructInputFromTwoPredecessors(t *testing.T) {
	wf := NewWorkflow[string, string]()
	wf.AddLambdaNode("a", InvokableLambda(func(ctx context.Context, in string) (string, error) { return in + "a", nil })).AddInput(START)
	wf.AddLambdaNode("b", InvokableLambda(func(ctx context.Context, in string) (string, error) { return in + "b", nil })).AddInput(START)
	wf.AddLambdaNode("c", InvokableLambda(func(ctx context.Context, in c04TwoFields) (string, error) { return in.A + "|" + in.B, nil })).
		AddInput("a", ToField("A")).AddInput("b", ToField("B"))
	wf.End().AddInput("c")
	r, err := wf.Compile(context.Background())
	if err != nil {
		t.Fatal(err)
	}
	inv, str := c04Invoke(r, "x"), c04Stream(r, "x")
	c04RequireSameVerdict(t, inv, str)
	if !inv.failed() && !str.failed() && fmt.Sprint(inv.chunks...) != fmt.Sprint(str.chunks...) {
		t.Errorf("values differ: Invoke -> %v ; Stream -> %v", inv, str)
	}
}

// 6. Field mapping from a map key that the predecessor's output does not contain.
// Invoke: "field mapping from a map key, but key not found in input. key=b".
// Stream: succeeds with "1|" (streamFieldMap tolerates missing keys per chunk, and nobody checks after the last chunk).
func TestC04Baseline_FieldMappingMissingMapKey(t *testing.T) {
	wf := NewWorkflow[map[string]any, string]()
	wf.AddLambdaNode("c", InvokableLambda(func(ctx context.Context, in map[string]any) (string, error) {
		return fmt.Sprintf("%v|%v", in["A"], in["B"]), nil
	})).AddInput(START, MapFields("a", "A"), MapFields("b", "B"))
	wf.End().AddInput("c")
	r, err := wf.Compile(context.Background())
	if err != nil {
		t.Fatal(err)
	}
	in := map[string]any{"a": "1"}
	c04RequireSameVerdict(t, c04Invoke(r, in), c04Stream(r, in))
}

type c04State struct{}

// 7. A pass-through node with a (non-stream) state pre-handler - its type must be `any` - behind a node that streams
// more than one chunk.
// Invoke: "[x-x]".
// Stream: "run node[p] pre processor fail: concat stream reader fail: cannot concat multiple non-zero value of type
// interface {}": the handler's input is concatenated as []any, and ConcatItems does not look at the dynamic type.
func TestC04Baseline_PassthroughStateHandlerBehindMultiChunkStream(t *testing.T) {
	g := NewGraph[string, string](WithGenLocalState(func(ctx context.Context) *c04State { return &c04State{} }))
	_ = g.AddLambdaNode("a", StreamableLambda(func(ctx context.Context, in string) (*schema.StreamReader[string], error) {
		return schema.StreamReaderFromArray([]string{in, "-", in}), nil
	}))
	if err := g.AddPassthroughNode("p", WithStatePreHandler(func(ctx context.Context, in any, s *c04State) (any, error) { return in, nil })); err != nil {
		t.Fatal(err)
	}
	_ = g.AddLambdaNode("b", InvokableLambda(func(ctx context.Context, in string) (string, error) { return "[" + in + "]", nil }))
	_ = g.AddEdge(START, "a")
	_ = g.AddEdge("a", "p")
	_ = g.AddEdge("p", "b")
	_ = g.AddEdge("b", END)
	r, err := g.Compile(context.Background())
	if err != nil {
		t.Fatal(err)
	}
	c04RequireSameVerdict(t, c04Invoke(r, "x"), c04Stream(r, "x"))
}

// 8. A stream-only node whose chunk type is `any` (the chunks are strings).
// Invoke: "concat stream reader fail: cannot concat multiple non-zero value of type interface {}".
// Stream: succeeds with the chunks x, -, x.
func TestC04Baseline_AnyTypedChunks(t *testing.T) {
	g := NewGraph[string, any]()
	_ = g.AddLambdaNode("a", StreamableLambda(func(ctx context.Context, in string) (*schema.StreamReader[any], error) {
		return schema.StreamReaderFromArray([]any{in, "-", in}), nil
	}))
	_ = g.AddEdge(START, "a")
	_ = g.AddEdge("a", END)
	r, err := g.Compile(context.Background())
	if err != nil {
		t.Fatal(err)
	}
	c04RequireSameVerdict(t, c04Invoke(r, "x"), c04Stream(r, "x"))
}
