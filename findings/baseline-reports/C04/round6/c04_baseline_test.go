package compose

import (
	"context"
	"fmt"
	"io"
	"strings"
	"testing"

	"github.com/cloudwego/eino/schema"
)

// c04bResult is what one paradigm gave: the concatenation of the output chunks (fmt.Sprint of the single value for
// Invoke / Collect) and the error, reported at call time or as an item of the output stream.
type c04bResult struct {
	out string
	err error
}

func c04bShort(err error) string {
	if err == nil {
		return "<nil>"
	}
	s := strings.Join(strings.Fields(err.Error()), " ")
	if len(s) > 220 {
		s = s[:220] + "..."
	}
	return s
}

// c04bRunAll calls r in the four paradigms. join renders the chunks of a streamed output as one string.
func c04bRunAll[I, O any](r Runnable[I, O], in I, chunks []I, join func([]O) string) map[string]c04bResult {
	ctx := context.Background()
	res := map[string]c04bResult{}

	drain := func(sr *schema.StreamReader[O]) ([]O, error) {
		defer sr.Close()
		var out []O
		for {
			c, err := sr.Recv()
			if err == io.EOF {
				return out, nil
			}
			if err != nil {
				return out, err
			}
			out = append(out, c)
		}
	}

	o, err := r.Invoke(ctx, in)
	res["invoke"] = c04bResult{join([]O{o}), err}

	if sr, err := r.Stream(ctx, in); err != nil {
		res["stream"] = c04bResult{"", err}
	} else {
		cs, err := drain(sr)
		res["stream"] = c04bResult{join(cs), err}
	}

	o, err = r.Collect(ctx, schema.StreamReaderFromArray(chunks))
	res["collect"] = c04bResult{join([]O{o}), err}

	if sr, err := r.Transform(ctx, schema.StreamReaderFromArray(chunks)); err != nil {
		res["transform"] = c04bResult{"", err}
	} else {
		cs, err := drain(sr)
		res["transform"] = c04bResult{join(cs), err}
	}

	return res
}

// c04bAgree fails the test unless the four paradigms either all fail or all succeed with the same output.
func c04bAgree(t *testing.T, res map[string]c04bResult) {
	t.Helper()
	ref := res["invoke"]
	for _, p := range []string{"stream", "collect", "transform"} {
		got := res[p]
		switch {
		case (ref.err == nil) != (got.err == nil):
			t.Errorf("invoke: out=%q err=%s  BUT  %s: out=%q err=%s", ref.out, c04bShort(ref.err), p, got.out, c04bShort(got.err))
		case ref.err == nil && ref.out != got.out:
			t.Errorf("invoke gives %q but %s gives %q", ref.out, p, got.out)
		}
	}
}

func c04bJoinStrings(cs []string) string { return strings.Join(cs, "") }

// ---------------------------------------------------------------------------------------------------------------------
// 1. A field mapping from a map key the input does not have.
//
// Invoke: "field mapping from a map key, but key not found in input" (fieldMap(mappings, false)).
// Stream / Collect / Transform: streamFieldMap uses fieldMap(mappings, true): a chunk without the key is tolerated
// (another chunk may carry it), but nothing checks at the end of the stream that some chunk did carry it: the run
// succeeds and the successor silently gets the zero value for the field.
// ---------------------------------------------------------------------------------------------------------------------

type c04bPair struct {
	A string
	B string
}

func TestC04Baseline_FieldMappingFromMissingMapKey(t *testing.T) {
	ctx := context.Background()

	wf := NewWorkflow[map[string]any, string]()
	wf.AddLambdaNode("n", InvokableLambda(func(ctx context.Context, in c04bPair) (string, error) {
		return "A=" + in.A + ";B=" + in.B, nil
	})).AddInput(START, MapFields("a", "A"), MapFields("b", "B"))
	wf.End().AddInput("n")

	r, err := wf.Compile(ctx)
	if err != nil {
		t.Fatal(err)
	}

	// sanity: with both keys the four paradigms agree
	full := map[string]any{"a": "x", "b": "y"}
	c04bAgree(t, c04bRunAll(r, full, []map[string]any{full}, c04bJoinStrings))

	// "b" is missing
	in := map[string]any{"a": "x"}
	res := c04bRunAll(r, in, []map[string]any{{"a": "x"}}, c04bJoinStrings)
	if res["invoke"].err == nil {
		t.Fatalf("invoke was expected to fail on the missing key, got %q", res["invoke"].out)
	}
	c04bAgree(t, res)
}

// ---------------------------------------------------------------------------------------------------------------------
// 2. A pass-through node with a state handler.
//
// addNode requires the handler of a pass-through node to be typed any ("passthrough node[%s]'s pre handler type isn't
// any"), so this is the supported way to attach a state handler to a pass-through node. Invoke works. In the stream
// paradigms the handler runnable (typed any) turns the *schema.StreamReader[string] into a
// *schema.StreamReader[interface{}], which the pass-through node hands on untouched, and the successor refuses it:
// "unexpected input type. expected: *schema.StreamReader[string], got: *schema.StreamReader[interface {}]".
// ---------------------------------------------------------------------------------------------------------------------

type c04bState struct{ seen []string }

func c04bPassthroughGraph(t *testing.T, opt GraphAddNodeOpt) Runnable[string, string] {
	g := NewGraph[string, string](WithGenLocalState(func(ctx context.Context) *c04bState { return &c04bState{} }))
	_ = g.AddLambdaNode("a", InvokableLambda(func(ctx context.Context, in string) (string, error) { return in + "a", nil }))
	_ = g.AddPassthroughNode("p", opt)
	_ = g.AddLambdaNode("b", InvokableLambda(func(ctx context.Context, in string) (string, error) { return in + "b", nil }))
	_ = g.AddEdge(START, "a")
	_ = g.AddEdge("a", "p")
	_ = g.AddEdge("p", "b")
	_ = g.AddEdge("b", END)
	r, err := g.Compile(context.Background())
	if err != nil {
		t.Fatal(err)
	}
	return r
}

func TestC04Baseline_PassthroughWithStatePreHandler(t *testing.T) {
	r := c04bPassthroughGraph(t, WithStatePreHandler(func(ctx context.Context, in any, s *c04bState) (any, error) {
		s.seen = append(s.seen, fmt.Sprint(in))
		return in, nil
	}))
	res := c04bRunAll(r, "xy", []string{"x", "y"}, c04bJoinStrings)
	if res["invoke"].err != nil || res["invoke"].out != "xyab" {
		t.Fatalf("invoke: out=%q err=%v", res["invoke"].out, res["invoke"].err)
	}
	c04bAgree(t, res)
}

func TestC04Baseline_PassthroughWithStatePostHandler(t *testing.T) {
	r := c04bPassthroughGraph(t, WithStatePostHandler(func(ctx context.Context, out any, s *c04bState) (any, error) {
		s.seen = append(s.seen, fmt.Sprint(out))
		return out, nil
	}))
	res := c04bRunAll(r, "xy", []string{"x", "y"}, c04bJoinStrings)
	if res["invoke"].err != nil || res["invoke"].out != "xyab" {
		t.Fatalf("invoke: out=%q err=%v", res["invoke"].out, res["invoke"].err)
	}
	c04bAgree(t, res)
}

// ---------------------------------------------------------------------------------------------------------------------
// 3. A field mapping from a struct field, the struct arriving in several chunks.
//
// Invoke: the chunks of the stream-only producer are concatenated first (with the concat function registered for the
// struct), the field is taken from the result: N = 5.
// Stream / Collect / Transform: the field is taken from every chunk, so a chunk that does not "carry" the field
// contributes the field's zero value; the successor then concatenates 5, 0 with the int64 rule (use the last): N = 0.
// The order in which producers split their output into chunks changes the result.
// ---------------------------------------------------------------------------------------------------------------------

type c04bRecord struct {
	N int64
	T string
}

func TestC04Baseline_FieldMappingFromChunkedStruct(t *testing.T) {
	RegisterStreamChunkConcatFunc(func(rs []c04bRecord) (c04bRecord, error) {
		var ret c04bRecord
		for _, r := range rs {
			if r.N != 0 {
				ret.N = r.N
			}
			ret.T += r.T
		}
		return ret, nil
	})

	ctx := context.Background()
	wf := NewWorkflow[string, int64]()
	wf.AddLambdaNode("producer", StreamableLambda(func(ctx context.Context, in string) (*schema.StreamReader[c04bRecord], error) {
		// the number comes first, the text follows
		return schema.StreamReaderFromArray([]c04bRecord{{N: 5, T: "a"}, {T: "b"}, {T: "c"}}), nil
	})).AddInput(START)
	wf.AddLambdaNode("consumer", InvokableLambda(func(ctx context.Context, n int64) (int64, error) {
		return n, nil
	})).AddInput("producer", FromField("N"))
	wf.End().AddInput("consumer")

	r, err := wf.Compile(ctx)
	if err != nil {
		t.Fatal(err)
	}

	last := func(cs []int64) string {
		if len(cs) == 0 {
			return "<no chunk>"
		}
		return fmt.Sprint(cs[len(cs)-1]) // the concatenation rule of int64
	}
	res := c04bRunAll(r, "in", []string{"i", "n"}, last)
	if res["invoke"].err != nil || res["invoke"].out != "5" {
		t.Fatalf("invoke: out=%q err=%v", res["invoke"].out, res["invoke"].err)
	}
	c04bAgree(t, res)
}

// ---------------------------------------------------------------------------------------------------------------------
// 4. A stream-only node whose output type is any, followed by a node typed string (a run-time checked edge).
//
// Stream / Collect / Transform: the edge converter turns every chunk into a string, the successor concatenates the
// strings: "pqb".
// Invoke: the producer's chunks have to be concatenated as values of type any; internal.ConcatItems only looks at the
// static element type (interface {}: no concat function) and fails with "cannot concat multiple non-zero value of type
// interface {}", although the very same values under a key of a map[string]any ARE concatenated by their dynamic type
// (concatMaps -> toSliceValue).
// ---------------------------------------------------------------------------------------------------------------------

func TestC04Baseline_AnyTypedStreamOutput(t *testing.T) {
	ctx := context.Background()

	g := NewGraph[string, string]()
	_ = g.AddLambdaNode("a", StreamableLambda(func(ctx context.Context, in string) (*schema.StreamReader[any], error) {
		return schema.StreamReaderFromArray([]any{"p", "q"}), nil
	}))
	_ = g.AddLambdaNode("b", InvokableLambda(func(ctx context.Context, in string) (string, error) { return in + "b", nil }))
	_ = g.AddEdge(START, "a")
	_ = g.AddEdge("a", "b")
	_ = g.AddEdge("b", END)

	r, err := g.Compile(ctx)
	if err != nil {
		t.Fatal(err)
	}

	res := c04bRunAll(r, "xy", []string{"x", "y"}, c04bJoinStrings)
	if res["stream"].err != nil || res["stream"].out != "pqb" {
		t.Fatalf("stream: out=%q err=%v", res["stream"].out, res["stream"].err)
	}
	c04bAgree(t, res)

	// the same chunks under a map key are concatenated fine in every paradigm
	g2 := NewGraph[string, string]()
	_ = g2.AddLambdaNode("a", StreamableLambda(func(ctx context.Context, in string) (*schema.StreamReader[map[string]any], error) {
		return schema.StreamReaderFromArray([]map[string]any{{"k": "p"}, {"k": "q"}}), nil
	}))
	_ = g2.AddLambdaNode("b", InvokableLambda(func(ctx context.Context, in map[string]any) (string, error) {
		return in["k"].(string) + "b", nil
	}))
	_ = g2.AddEdge(START, "a")
	_ = g2.AddEdge("a", "b")
	_ = g2.AddEdge("b", END)
	r2, err := g2.Compile(ctx)
	if err != nil {
		t.Fatal(err)
	}
	c04bAgree(t, c04bRunAll(r2, "xy", []string{"x", "y"}, c04bJoinStrings))
}
