package compose

import (
	"context"
	"testing"

	"github.com/cloudwego/eino/schema"
)

type c04BaselineIn struct {
	A string
	B string
}

// A workflow of invoke-only nodes: "c" takes a struct whose two fields are mapped from two predecessors.
// No producer splits anything into chunks, yet Stream / Collect / Transform fail where Invoke succeeds: the
// merged map stream ({"A": ..} and {"B": ..} arrive as two chunks) is converted to the struct chunk by chunk,
// and the two partial structs cannot be concatenated for the invoke-only node
// ("cannot concat multiple non-zero value of type compose.c04BaselineIn").
func TestC04BaselineStructFanInByFieldMapping(t *testing.T) {
	ctx := context.Background()
	wf := NewWorkflow[string, string]()
	wf.AddLambdaNode("a", InvokableLambda(func(ctx context.Context, in string) (string, error) { return in + "a", nil })).AddInput(START)
	wf.AddLambdaNode("b", InvokableLambda(func(ctx context.Context, in string) (string, error) { return in + "b", nil })).AddInput(START)
	wf.AddLambdaNode("c", InvokableLambda(func(ctx context.Context, in c04BaselineIn) (string, error) { return in.A + "|" + in.B, nil })).
		AddInput("a", ToField("A")).AddInput("b", ToField("B"))
	wf.End().AddInput("c")
	r, err := wf.Compile(ctx)
	if err != nil {
		t.Fatal(err)
	}

	want, err := r.Invoke(ctx, "x")
	if err != nil {
		t.Fatalf("Invoke: %v", err)
	}
	t.Logf("Invoke: %q", want)

	check := func(name string, got string, err error) {
		t.Helper()
		if err != nil {
			t.Errorf("%s fails where Invoke returns %q: %v", name, want, err)
			return
		}
		if got != want {
			t.Errorf("%s: got %q, Invoke returns %q", name, got, want)
		}
	}

	var got string
	sr, err := r.Stream(ctx, "x")
	if err == nil {
		got, err = concatStreamReader(sr)
	}
	check("Stream", got, err)

	got, err = r.Collect(ctx, schema.StreamReaderFromArray([]string{"x"}))
	check("Collect", got, err)

	got = ""
	tr, err := r.Transform(ctx, schema.StreamReaderFromArray([]string{"x"}))
	if err == nil {
		got, err = concatStreamReader(tr)
	}
	check("Transform", got, err)
}
