package compose

import (
	"context"
	"testing"

	"github.com/cloudwego/eino/schema"
)

// Two predecessors of one node (here END) write the same map key. Invoke refuses the fan-in
// ("(mergeMap) duplicated key ('k') found"); Stream / Transform do not report anything and deliver the two values
// concatenated under the key, in an order that depends on scheduling ("xaxb" or "xbxa").
func TestC04BaselineDuplicateFanInKey(t *testing.T) {
	ctx := context.Background()
	g := NewGraph[string, map[string]any]()
	_ = g.AddLambdaNode("a", InvokableLambda(func(ctx context.Context, in string) (string, error) { return in + "a", nil }), WithOutputKey("k"))
	_ = g.AddLambdaNode("b", InvokableLambda(func(ctx context.Context, in string) (string, error) { return in + "b", nil }), WithOutputKey("k"))
	_ = g.AddEdge(START, "a")
	_ = g.AddEdge(START, "b")
	_ = g.AddEdge("a", END)
	_ = g.AddEdge("b", END)
	r, err := g.Compile(ctx)
	if err != nil {
		t.Fatal(err)
	}

	invokeOut, invokeErr := r.Invoke(ctx, "x")
	t.Logf("Invoke: out=%v err=%v", invokeOut, invokeErr)

	collectOut, collectErr := r.Collect(ctx, schema.StreamReaderFromArray([]string{"x"}))
	t.Logf("Collect: out=%v err=%v", collectOut, collectErr)

	var streamOut map[string]any
	sr, streamErr := r.Stream(ctx, "x")
	if streamErr == nil {
		streamOut, streamErr = concatStreamReader(sr)
	}
	t.Logf("Stream: out=%v err=%v", streamOut, streamErr)

	var transformOut map[string]any
	tr, transformErr := r.Transform(ctx, schema.StreamReaderFromArray([]string{"x"}))
	if transformErr == nil {
		transformOut, transformErr = concatStreamReader(tr)
	}
	t.Logf("Transform: out=%v err=%v", transformOut, transformErr)

	if (invokeErr != nil) != (streamErr != nil) {
		t.Errorf("Invoke and Stream disagree on failure: Invoke err=%v, Stream out=%v err=%v", invokeErr, streamOut, streamErr)
	}
	if (invokeErr != nil) != (collectErr != nil) {
		t.Errorf("Invoke and Collect disagree on failure: Invoke err=%v, Collect out=%v err=%v", invokeErr, collectOut, collectErr)
	}
	if (invokeErr != nil) != (transformErr != nil) {
		t.Errorf("Invoke and Transform disagree on failure: Invoke err=%v, Transform out=%v err=%v", invokeErr, transformOut, transformErr)
	}
}
