package compose

import (
	"context"
	"fmt"
	"os"
	"os/exec"
	"runtime/debug"
	"strings"
	"testing"
)

// Baseline (unmodified tree): a graph that contains itself as a node (directly, or through another graph) is accepted
// by AddGraphNode, and Compile recurses until the goroutine stack is exhausted: a fatal "stack overflow" that kills the
// process and cannot even be recovered. The construction is ill-formed and should be refused with an error.
//
// The crash is provoked in a child process (this test binary re-executed), so that the test itself can report it.
func TestC20Baseline_SelfNestedGraphCrashesCompile(t *testing.T) {
	if which := os.Getenv("C20_SELF_NESTED"); which != "" {
		debug.SetMaxStack(8 << 20) // fail fast instead of eating 1 GB of stack first
		id := func(ctx context.Context, in string) (string, error) { return in, nil }
		g := NewGraph[string, string]()
		switch which {
		case "direct":
			fmt.Println("add:", g.AddGraphNode("self", g), g.AddEdge(START, "self"), g.AddEdge("self", END))
		case "mutual":
			h := NewGraph[string, string]()
			_ = h.AddLambdaNode("x", InvokableLambda(id))
			fmt.Println("add:", h.AddGraphNode("g", g), h.AddEdge(START, "x"), h.AddEdge("x", "g"), h.AddEdge("g", END))
			fmt.Println("add:", g.AddGraphNode("h", h), g.AddEdge(START, "h"), g.AddEdge("h", END))
		}
		_, err := g.Compile(context.Background())
		fmt.Println("C20_COMPILE_RETURNED:", err)
		return
	}

	for _, which := range []string{"direct", "mutual"} {
		cmd := exec.Command(os.Args[0], "-test.run", "^TestC20Baseline_SelfNestedGraphCrashesCompile$")
		cmd.Env = append(os.Environ(), "C20_SELF_NESTED="+which)
		out, err := cmd.CombinedOutput()
		s := string(out)
		if !strings.Contains(s, "C20_COMPILE_RETURNED:") {
			if len(s) > 400 {
				s = s[:400] + " ..."
			}
			t.Errorf("%s: Compile of a self-containing graph did not return (child: %v):\n%s", which, err, s)
			continue
		}
		if strings.Contains(s, "C20_COMPILE_RETURNED: <nil>") {
			t.Errorf("%s: Compile accepted a self-containing graph", which)
		}
	}
}
