package compose

import (
	"context"
	"testing"
)

type c20bS struct {
	F1 string
	F2 string
}

// Baseline (unmodified tree): an ill-formed Workflow is refused by Compile, but the error does not stick and the
// refused Compile leaves half of the node's inputs applied: the next Compile of the very same workflow replays the
// inputs that had already gone in and reports a DIFFERENT error.
//
// n gets field F1 from a, and then "the entire input" from b: the second AddInput is the violation.
func TestC20Baseline_WorkflowCompileErrorChangesBetweenAttempts(t *testing.T) {
	ctx := context.Background()
	mk := func(ctx context.Context, in string) (c20bS, error) { return c20bS{in, in}, nil }

	wf := NewWorkflow[string, string]()
	wf.AddLambdaNode("a", InvokableLambda(mk)).AddInput(START)
	wf.AddLambdaNode("b", InvokableLambda(mk)).AddInput(START)
	wf.AddLambdaNode("n", InvokableLambda(func(ctx context.Context, in c20bS) (string, error) { return in.F1, nil })).
		AddInput("a", MapFields("F1", "F1")).
		AddInput("b") // whole output of b into an input whose field F1 is already mapped
	wf.End().AddInput("n")

	_, first := wf.Compile(ctx)
	if first == nil {
		t.Fatal("the ill-formed workflow compiled")
	}
	for attempt := 1; attempt < 3; attempt++ {
		_, err := wf.Compile(ctx)
		if err == nil {
			t.Fatalf("attempt %d: compiled after having been refused with: %v", attempt, first)
		}
		if err.Error() != first.Error() {
			t.Fatalf("attempt %d: the first error did not stick:\n  first : %v\n  now   : %v", attempt, first, err)
		}
	}
}
