package compose

import (
	"context"
	"testing"
)

// Baseline (unmodified tree), lower confidence -- neighbours of violations the property names.

// A single-target branch is refused ("number of branches is 1"); a branch with NO target at all is accepted, although
// whatever its condition returns is then an "unintended end node".
func TestC20Baseline_ZeroTargetBranchAccepted(t *testing.T) {
	id := func(ctx context.Context, in string) (string, error) { return in, nil }
	g := NewGraph[string, string]()
	_ = g.AddLambdaNode("a", InvokableLambda(id))
	_ = g.AddEdge(START, "a")
	_ = g.AddEdge("a", END)
	err := g.AddBranch("a", NewGraphBranch(func(ctx context.Context, in string) (string, error) { return END, nil }, map[string]bool{}))
	if err == nil {
		_, err = g.Compile(context.Background())
	}
	if err == nil {
		t.Fatal("a branch without any target was accepted by AddBranch and by Compile")
	}
}

// AddBranch(node, nil) dereferences the nil branch: a panic, not an error (Chain.AppendBranch(nil) does return an error).
func TestC20Baseline_NilBranchPanics(t *testing.T) {
	id := func(ctx context.Context, in string) (string, error) { return in, nil }
	g := NewGraph[string, string]()
	_ = g.AddLambdaNode("a", InvokableLambda(id))
	defer func() {
		if r := recover(); r != nil {
			t.Fatalf("AddBranch(\"a\", nil) panicked instead of returning an error: %v", r)
		}
	}()
	if err := g.AddBranch("a", nil); err == nil {
		t.Fatal("AddBranch(\"a\", nil) accepted a nil branch")
	}
}

// An unknown node trigger mode is neither AnyPredecessor nor AllPredecessor; it is silently run as AnyPredecessor.
func TestC20Baseline_UnknownTriggerModeAccepted(t *testing.T) {
	id := func(ctx context.Context, in string) (string, error) { return in, nil }
	g := NewGraph[string, string]()
	_ = g.AddLambdaNode("a", InvokableLambda(id))
	_ = g.AddEdge(START, "a")
	_ = g.AddEdge("a", END)
	if _, err := g.Compile(context.Background(), WithNodeTriggerMode(NodeTriggerMode("no_such_mode"))); err == nil {
		t.Fatal("Compile accepted WithNodeTriggerMode(\"no_such_mode\")")
	}
}
