package compose

import (
	"context"
	"testing"
	"time"
)

// Baseline (unmodified tree): a Workflow (always all-predecessor mode) with a dependency cycle made of one data-only
// edge (WithNoDirectDependency) and one ordinary edge is accepted by Compile. The compiled runnable can never run:
// a needs the output of b, b runs after a.
//
//	START --control--> a --data+control--> b --> END
//	                   ^------ data only --'
func TestC20Baseline_WorkflowDataCycleAcceptedByCompile(t *testing.T) {
	ctx := context.Background()
	id := func(ctx context.Context, in string) (string, error) { return in, nil }

	wf := NewWorkflow[string, string]()
	wf.AddLambdaNode("a", InvokableLambda(id)).
		AddDependency(START).
		AddInputWithOptions("b", nil, WithNoDirectDependency())
	wf.AddLambdaNode("b", InvokableLambda(id)).AddInput("a")
	wf.End().AddInput("b")

	r, err := wf.Compile(ctx)
	if err != nil {
		return // rejected: the property holds
	}

	type res struct {
		out string
		err error
	}
	ch := make(chan res, 1)
	go func() {
		out, err := r.Invoke(ctx, "x")
		ch <- res{out, err}
	}()
	select {
	case got := <-ch:
		t.Fatalf("Compile accepted a workflow with the dependency cycle a -> b -> a; running it gives (%q, %v)", got.out, got.err)
	case <-time.After(5 * time.Second):
		t.Fatal("Compile accepted a workflow with the dependency cycle a -> b -> a; running it hangs")
	}
}
