package compose

import (
	"context"
	"testing"
)

// A nil option value handed to NewGraph / Add*Node / Compile is called without a check (for _, o := range opts { o(option) })
// and panics with a nil pointer dereference instead of being ignored or reported as an error.
func TestC20BaselineNilOptionPanics(t *testing.T) {
	ctx := context.Background()
	lambda := InvokableLambda(func(ctx context.Context, in string) (string, error) { return in, nil })

	noPanic := func(name string, f func()) {
		defer func() {
			if p := recover(); p != nil {
				t.Errorf("%s panicked: %v", name, p)
			}
		}()
		f()
	}

	noPanic("NewGraph(nil option)", func() { _ = NewGraph[string, string](nil) })
	noPanic("AddLambdaNode(nil option)", func() {
		g := NewGraph[string, string]()
		_ = g.AddLambdaNode("a", lambda, nil)
	})
	noPanic("Compile(nil option)", func() {
		g := NewGraph[string, string]()
		_ = g.AddLambdaNode("a", lambda)
		_ = g.AddEdge(START, "a")
		_ = g.AddEdge("a", END)
		_, _ = g.Compile(ctx, nil)
	})
}
