package compose

import (
	"context"
	"testing"
)

// Graph.Add*Node on a compiled graph returns ErrGraphCompiled; Chain.Append* on a compiled chain makes the next Compile
// return ErrChainCompiled; Workflow.AddInput / AddBranch / SetStaticValue on a compiled workflow make the next Compile
// return ErrGraphCompiled. Workflow.Add*Node on a compiled workflow has no error to return, drops the error of the inner
// graph (`_ = wf.g.AddLambdaNode(...)`), and the next Compile succeeds as if nothing had been asked: the attempt to
// modify a compiled workflow (even with a reserved or duplicate key) is never reported anywhere.
func TestC20BaselineWorkflowAddNodeAfterCompileIsNeverReported(t *testing.T) {
	ctx := context.Background()
	lambda := func(tag string) *Lambda {
		return InvokableLambda(func(ctx context.Context, in string) (string, error) { return in + tag, nil })
	}

	for _, key := range []string{"b" /* new */, "a" /* duplicate */, START /* reserved */} {
		wf := NewWorkflow[string, string]()
		wf.AddLambdaNode("a", lambda("a")).AddInput(START)
		wf.End().AddInput("a")
		if _, err := wf.Compile(ctx); err != nil {
			t.Fatalf("Compile: %v", err)
		}

		wf.AddLambdaNode(key, lambda("x")) // the only way to learn about the rejection is the next Compile
		if _, err := wf.Compile(ctx); err == nil {
			t.Errorf("AddLambdaNode(%q) on a compiled workflow: the attempt is not reported by AddLambdaNode (no error result) nor by the next Compile", key)
		}
	}
}
