package compose

import (
	"context"
	"testing"
)

// A Parallel / ChainBranch value keeps the *graphNode of every node added to it and hands the very same node to every
// chain it is appended to. For a pass-through node that graphNode is where the inner graph writes the type it infers
// (graph.updateToValidateMap: g.nodes[key].cr.inputType = ...). So the first chain a Parallel / ChainBranch with a
// pass-through node is appended to decides the type of that node for good, and the outcome of building a second chain
// depends on what was built before with the same value: the same construction sequence is accepted or rejected
// depending on an unrelated earlier attempt.

func TestC20BaselineParallelPassthroughKeepsTypeOfFirstChain(t *testing.T) {
	ctx := context.Background()

	newParallel := func() *Parallel { return NewParallel().AddPassthrough("a").AddPassthrough("b") }
	build := func(p *Parallel) error {
		_, err := NewChain[int, map[string]any]().AppendParallel(p).Compile(ctx)
		return err
	}

	// reference: the sequence on its own
	if err := build(newParallel()); err != nil {
		t.Fatalf("NewChain[int, map[string]any]().AppendParallel(p).Compile() with a fresh Parallel: %v", err)
	}

	// the same sequence, after the Parallel has been used in a chain whose input is a string
	p := newParallel()
	if _, err := NewChain[string, map[string]any]().AppendParallel(p).Compile(ctx); err != nil {
		t.Fatalf("first chain: %v", err)
	}
	if err := build(p); err != nil {
		t.Errorf("the same sequence is rejected once the Parallel has been appended to another chain before: %v", err)
	}
}

func TestC20BaselineChainBranchPassthroughKeepsTypeOfFirstChain(t *testing.T) {
	ctx := context.Background()

	newBranch := func() *ChainBranch {
		return NewChainBranch(func(ctx context.Context, in any) (string, error) { return "a", nil }).
			AddPassthrough("a").AddPassthrough("b")
	}
	build := func(cb *ChainBranch) error {
		_, err := NewChain[int, int]().
			AppendLambda(InvokableLambda(func(ctx context.Context, in int) (int, error) { return in + 1, nil })).
			AppendBranch(cb).Compile(ctx)
		return err
	}

	if err := build(newBranch()); err != nil {
		t.Fatalf("with a fresh ChainBranch: %v", err)
	}

	cb := newBranch()
	if _, err := NewChain[string, string]().
		AppendLambda(InvokableLambda(func(ctx context.Context, in string) (string, error) { return in, nil })).
		AppendBranch(cb).Compile(ctx); err != nil {
		t.Fatalf("first chain: %v", err)
	}
	if err := build(cb); err != nil {
		t.Errorf("the same sequence is rejected once the ChainBranch has been appended to another chain before: %v", err)
	}
}

// Same cause, seen from the runnable: the second chain compiles, but a run-time type check against the type of the
// FIRST chain has been planted on its START edge.
func TestC20BaselineParallelPassthroughRuntimeCheckOfFirstChain(t *testing.T) {
	ctx := context.Background()

	newParallel := func() *Parallel { return NewParallel().AddPassthrough("a").AddPassthrough("b") }
	run := func(p *Parallel) (map[string]any, error) {
		r, err := NewChain[any, map[string]any]().AppendParallel(p).Compile(ctx)
		if err != nil {
			t.Fatalf("Compile: %v", err)
		}
		return r.Invoke(ctx, 42)
	}

	out, err := run(newParallel())
	if err != nil || out["a"] != 42 || out["b"] != 42 {
		t.Fatalf("with a fresh Parallel: out=%v err=%v", out, err)
	}

	p := newParallel()
	if _, err = NewChain[string, map[string]any]().AppendParallel(p).Compile(ctx); err != nil {
		t.Fatalf("first chain: %v", err)
	}
	out, err = run(p)
	if err != nil || out["a"] != 42 || out["b"] != 42 {
		t.Errorf("the same sequence behaves differently once the Parallel has been appended to a string chain before: out=%v err=%v", out, err)
	}
}
