package compose

import (
	"context"
	"testing"
)

// A Chain.Compile attempt that fails inside the inner graph's compile (here: an option a chain does not support; a
// nested graph that is not complete yet does the same) has already added the edges to END - and remembers it
// (hasEnd). The chain is not frozen and has no sticky error, so the construction may go on: but the nodes appended
// afterwards hang behind a node that already leads to END and never get an END edge of their own. The next Compile
// succeeds, and the runnable silently ignores everything appended after the failed attempt.
func TestC20BaselineChainFailedCompileLeavesEndEdgesBehind(t *testing.T) {
	ctx := context.Background()
	lambda := func(suffix string) *Lambda {
		return InvokableLambda(func(ctx context.Context, in string) (string, error) { return in + suffix, nil })
	}

	build := func(failedAttempt func(c *Chain[string, string])) (string, error) {
		c := NewChain[string, string]()
		c.AppendLambda(lambda("1"))
		if failedAttempt != nil {
			failedAttempt(c)
		}
		c.AppendLambda(lambda("2"))
		r, err := c.Compile(ctx)
		if err != nil {
			return "", err
		}
		return r.Invoke(ctx, "in")
	}

	want, err := build(nil)
	if err != nil || want != "in12" {
		t.Fatalf("reference chain: %q, %v", want, err)
	}

	t.Run("top-level Compile with an unsupported option", func(t *testing.T) {
		got, err := build(func(c *Chain[string, string]) {
			if _, err := c.Compile(ctx, WithNodeTriggerMode(AnyPredecessor)); err == nil {
				t.Fatal("a chain accepted a node trigger mode")
			}
		})
		if err != nil {
			// rejecting the continuation (with an error) would be a deterministic outcome too
			t.Logf("continuation rejected: %v", err)
			return
		}
		if got != want {
			t.Fatalf("the same Append sequence gives %q after a failed Compile attempt and %q without it: the node appended after the failed attempt is not part of the chain", got, want)
		}
	})

	t.Run("compiled as a node of a graph with unsupported options", func(t *testing.T) {
		got, err := build(func(c *Chain[string, string]) {
			p := NewGraph[string, string]()
			if err := p.AddGraphNode("sub", c, WithGraphCompileOptions(WithNodeTriggerMode(AllPredecessor))); err != nil {
				t.Fatal(err)
			}
			if err := p.AddEdge(START, "sub"); err != nil {
				t.Fatal(err)
			}
			if err := p.AddEdge("sub", END); err != nil {
				t.Fatal(err)
			}
			if _, err := p.Compile(ctx); err == nil {
				t.Fatal("a nested chain accepted a node trigger mode")
			}
		})
		if err != nil {
			t.Logf("continuation rejected: %v", err)
			return
		}
		if got != want {
			t.Fatalf("the same Append sequence gives %q after a failed Compile attempt and %q without it", got, want)
		}
	})

	t.Run("a nested graph that is completed only after the first attempt", func(t *testing.T) {
		child := NewGraph[string, string]()
		if err := child.AddLambdaNode("c", lambda("c")); err != nil {
			t.Fatal(err)
		}
		if err := child.AddEdge(START, "c"); err != nil {
			t.Fatal(err)
		}

		c := NewChain[string, string]()
		c.AppendGraph(child)
		if _, err := c.Compile(ctx); err == nil {
			t.Fatal("a chain with an incomplete nested graph compiled")
		}
		// complete the nested graph and go on with the chain
		if err := child.AddEdge("c", END); err != nil {
			t.Fatal(err)
		}
		c.AppendLambda(lambda("2"))
		r, err := c.Compile(ctx)
		if err != nil {
			t.Logf("continuation rejected: %v", err)
			return
		}
		got, err := r.Invoke(ctx, "in")
		if err != nil || got != "inc2" {
			t.Fatalf("Invoke = %q, %v; want \"inc2\": the node appended after the failed attempt is not part of the chain", got, err)
		}
	})
}
