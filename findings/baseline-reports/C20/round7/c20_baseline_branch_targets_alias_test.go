package compose

import (
	"context"
	"testing"
)

// AddBranch works on its own copy of the GraphBranch value, but the copy shares the caller's endNodes map (the one
// given to NewGraphBranch, also handed out by GetEndNode). The targets are validated once, by AddBranch; a caller who
// reuses the map for the next branch changes (a) a graph under construction into one with an unknown branch target
// that Compile accepts, (b) a compiled runnable.
func TestC20BaselineBranchTargetsAliasCallerMap(t *testing.T) {
	ctx := context.Background()
	lambda := func(suffix string) *Lambda {
		return InvokableLambda(func(ctx context.Context, in string) (string, error) { return in + suffix, nil })
	}
	build := func(targets map[string]bool) *Graph[string, string] {
		g := NewGraph[string, string]()
		for _, k := range []string{"a", "b"} {
			if err := g.AddLambdaNode(k, lambda(k)); err != nil {
				t.Fatal(err)
			}
			if err := g.AddEdge(k, END); err != nil {
				t.Fatal(err)
			}
		}
		if err := g.AddBranch(START, NewGraphBranch(func(ctx context.Context, in string) (string, error) { return in, nil }, targets)); err != nil {
			t.Fatal(err)
		}
		return g
	}

	t.Run("between AddBranch and Compile", func(t *testing.T) {
		targets := map[string]bool{"a": true, "b": true}
		g := build(targets)
		// the caller goes on to prepare the targets of a branch for another graph
		targets["ghost"] = true
		r, err := g.Compile(ctx)
		if err != nil {
			return // rejecting the unknown target is fine
		}
		if _, err = r.Invoke(ctx, "ghost"); err == nil || !isUnintendedEndNode(err) {
			t.Fatalf("Compile accepted a branch to the unknown node 'ghost', and the run fails inside the engine: %v", err)
		}
	})

	t.Run("after Compile", func(t *testing.T) {
		targets := map[string]bool{"a": true, "b": true}
		r, err := build(targets).Compile(ctx)
		if err != nil {
			t.Fatal(err)
		}
		_, before := r.Invoke(ctx, "ghost")
		targets["ghost"] = true
		_, after := r.Invoke(ctx, "ghost")
		if before == nil || after == nil {
			t.Fatalf("a branch to an unknown node went through: %v / %v", before, after)
		}
		if before.Error() != after.Error() {
			t.Fatalf("the compiled runnable changed with the caller's map:\n  before: %v\n  after:  %v", before, after)
		}
	})
}

func isUnintendedEndNode(err error) bool {
	const want = "branch invocation returns unintended end node"
	s := err.Error()
	for i := 0; i+len(want) <= len(s); i++ {
		if s[i:i+len(want)] == want {
			return true
		}
	}
	return false
}
