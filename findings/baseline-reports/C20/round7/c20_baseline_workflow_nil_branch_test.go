package compose

import (
	"context"
	"testing"
)

// Graph.AddBranch rejects a nil branch with an error ("branch is nil"). Workflow.AddBranch stores it, and
// Workflow.Compile dereferences it while validating the branch targets: a nil-pointer panic instead of an error.
func TestC20BaselineWorkflowNilBranchPanicsCompile(t *testing.T) {
	ctx := context.Background()

	wf := NewWorkflow[string, string]()
	wf.AddLambdaNode("a", InvokableLambda(func(ctx context.Context, in string) (string, error) { return in, nil })).AddInput(START)
	wf.End().AddInput("a")

	func() {
		defer func() {
			if r := recover(); r != nil {
				t.Fatalf("Workflow.AddBranch(nil) panicked: %v", r)
			}
		}()
		wf.AddBranch("a", nil)
	}()

	var err error
	func() {
		defer func() {
			if r := recover(); r != nil {
				t.Fatalf("Compile of a workflow with a nil branch panicked instead of returning an error: %v", r)
			}
		}()
		_, err = wf.Compile(ctx)
	}()
	if err == nil {
		t.Fatal("a workflow with a nil branch compiled")
	}
}
