package compose

import (
	"context"
	"testing"

	"github.com/cloudwego/eino/components/model"
)

// Adding a nil node is an ill-formed construction like any other; Chain.addNode and Parallel.addNode even have a
// "node is nil" error for it. But the conversion to a graph node dereferences the argument before any check runs,
// so every Add* / Append* call panics - except AddToolsNode, which accepts nil silently (the method values of a nil
// *ToolsNode are bound without a dereference) and yields a graph that compiles.
func TestC20BaselineNilNodePanicsAdd(t *testing.T) {
	ctx := context.Background()

	cases := map[string]func() error{
		"Graph.AddLambdaNode(nil)": func() error {
			return NewGraph[string, string]().AddLambdaNode("a", nil)
		},
		"Graph.AddGraphNode(nil)": func() error {
			return NewGraph[string, string]().AddGraphNode("a", nil)
		},
		"Graph.AddChatModelNode(nil)": func() error {
			var m model.BaseChatModel
			return NewGraph[string, string]().AddChatModelNode("a", m)
		},
		"Chain.AppendLambda(nil)": func() error {
			_, err := NewChain[string, string]().AppendLambda(nil).Compile(ctx)
			return err
		},
		"Parallel.AddLambda(nil)": func() error {
			p := NewParallel().AddLambda("x", nil).AddLambda("y", InvokableLambda(func(ctx context.Context, in string) (string, error) { return in, nil }))
			_, err := NewChain[string, map[string]any]().AppendParallel(p).Compile(ctx)
			return err
		},
		"Workflow.AddLambdaNode(nil)": func() error {
			wf := NewWorkflow[string, string]()
			wf.AddLambdaNode("a", nil).AddInput(START)
			wf.End().AddInput("a")
			_, err := wf.Compile(ctx)
			return err
		},
		"Graph.AddToolsNode(nil)": func() error {
			return NewGraph[string, string]().AddToolsNode("a", nil)
		},
	}
	for name, construct := range cases {
		t.Run(name, func(t *testing.T) {
			defer func() {
				if r := recover(); r != nil {
					t.Fatalf("panic instead of an error: %v", r)
				}
			}()
			if err := construct(); err == nil {
				t.Fatal("a nil node was accepted")
			}
		})
	}
}
