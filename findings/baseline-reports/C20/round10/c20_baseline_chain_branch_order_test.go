package compose

import (
	"context"
	"testing"
)

// The same Chain construction sequence is accepted on some attempts and rejected on others.
//
// AppendBranch leaves the keys of the branch nodes in c.preNodeKeys in map iteration order
// (gmap.Values(key2NodeKey)); the next Append* connects them to the new node in that order, and a pass-through
// node is typed from the FIRST edge it is shown. With one branch node producing string and another producing any,
// the pass-through becomes string on some attempts (then string -> lambda over int is a mismatch: rejected) and any
// on the others (then any -> int is only checked at run time: accepted).
func TestC20BaselineChainBranchThenPassthroughIsOrderDependent(t *testing.T) {
	ctx := context.Background()

	build := func() error {
		cb := NewChainBranch(func(ctx context.Context, in string) (string, error) { return "s", nil })
		cb.AddLambda("s", InvokableLambda(func(ctx context.Context, in string) (string, error) { return in, nil }))
		cb.AddLambda("a", InvokableLambda(func(ctx context.Context, in string) (any, error) { return in, nil }))

		c := NewChain[string, int]()
		c.AppendBranch(cb)
		c.AppendPassthrough()
		c.AppendLambda(InvokableLambda(func(ctx context.Context, in int) (int, error) { return in, nil }))
		_, err := c.Compile(ctx)
		return err
	}

	accepted, rejected := 0, 0
	var lastErr error
	for i := 0; i < 200; i++ {
		if err := build(); err != nil {
			rejected++
			lastErr = err
		} else {
			accepted++
		}
	}
	if accepted != 0 && rejected != 0 {
		t.Fatalf("the same construction sequence was accepted %d times and rejected %d times (last error: %v)",
			accepted, rejected, lastErr)
	}
}
