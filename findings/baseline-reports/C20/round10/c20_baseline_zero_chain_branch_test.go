package compose

import (
	"context"
	"testing"
)

// A ChainBranch that was not made by one of the NewChainBranch constructors (the type and its Add* methods are
// exported, and addNode even allocates the node map of a zero value) has no condition: appending it is an ill-formed
// construction, which must be reported through the chain's error, not by a nil-pointer panic in AppendBranch.
func TestC20BaselineZeroValueChainBranchPanics(t *testing.T) {
	defer func() {
		if r := recover(); r != nil {
			t.Fatalf("AppendBranch panicked instead of recording an error: %v", r)
		}
	}()

	cb := &ChainBranch{}
	cb.AddLambda("x", InvokableLambda(func(ctx context.Context, in string) (string, error) { return in, nil }))
	cb.AddLambda("y", InvokableLambda(func(ctx context.Context, in string) (string, error) { return in, nil }))

	c := NewChain[string, string]()
	c.AppendBranch(cb)
	if _, err := c.Compile(context.Background()); err == nil {
		t.Fatalf("a branch without a condition was accepted")
	}
}
