package compose

import (
	"context"
	"testing"
)

// ---------------------------------------------------------------------------------------------------------------------
// 1. A pass-through node added with WithOutputKey, with a branch behind it: the same graph is accepted when the edge
//    into the node is added before the branch and rejected when the branch is added first.
// ---------------------------------------------------------------------------------------------------------------------

func c20BaseKeyedPassthrough(branchFirst bool) (string, error) {
	ctx := context.Background()
	g := NewGraph[string, string]()
	var errs []error
	add := func(err error) { errs = append(errs, err) }

	add(g.AddPassthroughNode("p", WithOutputKey("o"))) // string in, map[string]any{"o": string} out
	add(g.AddLambdaNode("x", InvokableLambda(func(ctx context.Context, in map[string]any) (string, error) {
		return "x:" + in["o"].(string), nil
	})))
	add(g.AddLambdaNode("y", InvokableLambda(func(ctx context.Context, in map[string]any) (string, error) {
		return "y:" + in["o"].(string), nil
	})))
	branch := NewGraphBranch(func(ctx context.Context, in map[string]any) (string, error) { return "x", nil },
		map[string]bool{"x": true, "y": true})
	if branchFirst {
		add(g.AddBranch("p", branch))
		add(g.AddEdge(START, "p"))
	} else {
		add(g.AddEdge(START, "p"))
		add(g.AddBranch("p", branch))
	}
	add(g.AddEdge("x", END))
	add(g.AddEdge("y", END))
	for _, err := range errs {
		if err != nil {
			return "", err
		}
	}

	r, err := g.Compile(ctx)
	if err != nil {
		return "", err
	}
	return r.Invoke(ctx, "hi")
}

func TestC20Baseline_KeyedPassthroughBranchOrder(t *testing.T) {
	edgeFirstOut, edgeFirstErr := c20BaseKeyedPassthrough(false)
	branchFirstOut, branchFirstErr := c20BaseKeyedPassthrough(true)
	t.Logf("edge added first:   out=%q err=%v", edgeFirstOut, edgeFirstErr)
	t.Logf("branch added first: out=%q err=%v", branchFirstOut, branchFirstErr)
	if (edgeFirstErr == nil) != (branchFirstErr == nil) || edgeFirstOut != branchFirstOut {
		t.Fatalf("the same graph is accepted or rejected depending on whether AddEdge(START, p) or AddBranch(p, ...) comes first")
	}
}

// ---------------------------------------------------------------------------------------------------------------------
// 2. Workflow: a pass-through node that is fed one field of its predecessor's output. Whether Compile accepts the
//    workflow depends on the alphabetical order of the node keys (nothing else differs between the two builds).
// ---------------------------------------------------------------------------------------------------------------------

type c20BaseS struct{ X string }

func c20BaseMappedPassthrough(passKey, nextKey string) (string, error) {
	ctx := context.Background()
	wf := NewWorkflow[string, string]()
	wf.AddLambdaNode("a", InvokableLambda(func(ctx context.Context, in string) (c20BaseS, error) {
		return c20BaseS{X: in}, nil
	})).AddInput(START)
	wf.AddPassthroughNode(passKey).AddInput("a", FromField("X"))
	wf.AddLambdaNode(nextKey, InvokableLambda(func(ctx context.Context, in string) (string, error) {
		return in + "!", nil
	})).AddInput(passKey)
	wf.End().AddInput(nextKey)

	r, err := wf.Compile(ctx)
	if err != nil {
		return "", err
	}
	return r.Invoke(ctx, "hi")
}

func TestC20Baseline_WorkflowMappedPassthroughKeyOrder(t *testing.T) {
	out1, err1 := c20BaseMappedPassthrough("p", "q") // pass-through key sorts before its successor's
	out2, err2 := c20BaseMappedPassthrough("p", "b") // pass-through key sorts after its successor's
	t.Logf("keys p -> q: out=%q err=%v", out1, err1)
	t.Logf("keys p -> b: out=%q err=%v", out2, err2)
	if (err1 == nil) != (err2 == nil) || out1 != out2 {
		t.Fatalf("the same workflow is accepted or rejected depending on the names of its node keys")
	}
}

// ---------------------------------------------------------------------------------------------------------------------
// 3. WithMaxRunSteps with a negative value: Compile accepts it and hands out a runnable every run of which fails.
// ---------------------------------------------------------------------------------------------------------------------

func TestC20Baseline_NegativeMaxRunSteps(t *testing.T) {
	ctx := context.Background()
	g := NewGraph[string, string]()
	_ = g.AddLambdaNode("a", InvokableLambda(func(ctx context.Context, in string) (string, error) { return in + "a", nil }))
	_ = g.AddEdge(START, "a")
	_ = g.AddEdge("a", END)

	r, err := g.Compile(ctx, WithMaxRunSteps(-3))
	if err != nil {
		return // rejected at Compile: fine
	}
	if _, err = r.Invoke(ctx, "x"); err != nil {
		t.Fatalf("Compile accepted WithMaxRunSteps(-3), but the runnable it returned cannot run: %v", err)
	}
}
