package compose

import (
	"context"
	"fmt"
	"testing"
)

// Reproducers for defects of the UNMODIFIED tree with respect to property C20
// ("ill-formed graphs are rejected deterministically, with an error and never a panic;
// the first error sticks; compiled graphs are immutable").
// Every test in this file FAILS on the unmodified tree.

func c20bID(ctx context.Context, in string) (string, error) { return in, nil }

// compileNoPanic runs f and turns a panic into an error string.
func c20bNoPanic(f func() error) (err error, panicked any) {
	defer func() {
		if p := recover(); p != nil {
			panicked = p
		}
	}()
	return f(), nil
}

// 1a. A pass-through node whose type cannot be inferred (it has no data edge at all) makes Compile PANIC
// (nil pointer dereference in (*graph).compile, at `c.action.inputStreamConvertPair`: the node's
// composableRunnable has a nil *genericHelper) instead of returning the "cannot be inferred" error.
func TestC20BaselineIsolatedPassthroughPanicsInCompile(t *testing.T) {
	ctx := context.Background()
	g := NewGraph[string, string]()
	if err := g.AddLambdaNode("a", InvokableLambda(c20bID)); err != nil {
		t.Fatal(err)
	}
	if err := g.AddPassthroughNode("p"); err != nil { // never connected: type unknown
		t.Fatal(err)
	}
	if err := g.AddEdge(START, "a"); err != nil {
		t.Fatal(err)
	}
	if err := g.AddEdge("a", END); err != nil {
		t.Fatal(err)
	}
	err, p := c20bNoPanic(func() error { _, e := g.Compile(ctx); return e })
	if p != nil {
		t.Fatalf("Compile panicked instead of returning an error: %v", p)
	}
	if err == nil {
		t.Fatalf("graph with a pass-through node of unknown type was compiled without error")
	}
}

// 1b. Same defect reached through the Workflow API: a pass-through node that only has an execution
// dependency (AddDependency creates a control edge without data) never gets a type.
func TestC20BaselineWorkflowControlOnlyPassthroughPanicsInCompile(t *testing.T) {
	ctx := context.Background()
	wf := NewWorkflow[string, string]()
	wf.AddPassthroughNode("p").AddDependency(START)
	wf.End().AddInput(START)
	err, p := c20bNoPanic(func() error { _, e := wf.Compile(ctx); return e })
	if p != nil {
		t.Fatalf("Compile panicked instead of returning an error: %v", p)
	}
	if err == nil {
		t.Fatalf("workflow with a pass-through node of unknown type was compiled without error")
	}
}

// 2. Chain: the chain-level error (Chain.err) is only looked at by addEndIfNeeded BEFORE the END edge has been
// added. If a first Compile fails after that point (here: an invalid option combination, which is not sticky),
// every later ill-formed Append* (nil parallel, nil branch, single-node parallel, ...) is recorded in Chain.err
// but never reported: the next Compile succeeds. The ill-formed construction is silently accepted.
func TestC20BaselineChainErrorIgnoredAfterFailedCompile(t *testing.T) {
	ctx := context.Background()

	// reference: without the failed Compile the construction is rejected
	ref := NewChain[string, string]()
	ref.AppendLambda(InvokableLambda(c20bID))
	ref.AppendParallel(nil)
	if _, err := ref.Compile(ctx); err == nil {
		t.Fatal("reference: AppendParallel(nil) must be rejected")
	}

	c := NewChain[string, string]()
	c.AppendLambda(InvokableLambda(c20bID))
	if _, err := c.Compile(ctx, WithNodeTriggerMode(AllPredecessor)); err == nil {
		t.Fatal("chain must not accept a node trigger mode")
	}
	c.AppendParallel(nil) // ill-formed
	if _, err := c.Compile(ctx); err == nil {
		t.Fatalf("AppendParallel(nil) was silently accepted after an earlier failed Compile (Chain.err=%v)", c.err)
	}
}

// 3. Workflow: after a successful Compile the workflow can still be modified. Re-"adding" a node key returns a
// fresh *WorkflowNode (the ErrGraphCompiled of the underlying graph is dropped) whose SetStaticValue is applied
// by the next Compile, which succeeds and produces a runnable that behaves differently.
func TestC20BaselineWorkflowModifiedAfterCompile(t *testing.T) {
	ctx := context.Background()
	echo := func(ctx context.Context, in map[string]any) (map[string]any, error) { return in, nil }

	wf := NewWorkflow[map[string]any, map[string]any]()
	wf.AddLambdaNode("a", InvokableLambda(echo)).AddInput(START)
	wf.End().AddInput("a")
	r1, err := wf.Compile(ctx)
	if err != nil {
		t.Fatal(err)
	}
	out1, err := r1.Invoke(ctx, map[string]any{"k": 1})
	if err != nil {
		t.Fatal(err)
	}

	// modification attempt after Compile
	wf.AddLambdaNode("a", InvokableLambda(echo)).SetStaticValue(FieldPath{"injected"}, "boo")

	r2, err := wf.Compile(ctx)
	if err != nil {
		return // rejecting is fine
	}
	out2, err := r2.Invoke(ctx, map[string]any{"k": 1})
	if err != nil {
		t.Fatal(err)
	}
	if fmt.Sprint(out1) != fmt.Sprint(out2) {
		t.Fatalf("the compiled workflow was modified after Compile: before %v, after re-compilation %v", out1, out2)
	}
}

// 4. Workflow: compiling the same (unchanged, well-formed) workflow twice gives two different outcomes as soon
// as a node has a static value: the second Compile re-registers the static value paths and fails with a
// misleading "field paths conflict" error.
func TestC20BaselineWorkflowRecompileWithStaticValue(t *testing.T) {
	ctx := context.Background()
	echo := func(ctx context.Context, in map[string]any) (map[string]any, error) { return in, nil }

	wf := NewWorkflow[map[string]any, map[string]any]()
	wf.AddLambdaNode("a", InvokableLambda(echo)).AddInput(START, MapFields("k", "k")).SetStaticValue(FieldPath{"s"}, "v")
	wf.End().AddInput("a")
	if _, err := wf.Compile(ctx); err != nil {
		t.Fatal(err)
	}
	if _, err := wf.Compile(ctx); err != nil {
		t.Fatalf("second Compile of the same workflow gives a different outcome: %v", err)
	}
}

// 5. Workflow: an unknown branch end node is only detected inside Compile, the error does not stick, and every
// failed Compile has already registered the preceding branches in the underlying graph. Once the missing node
// is added, Compile succeeds, and the graph contains the first branch once per Compile attempt: its condition
// is evaluated several times per run. The outcome of the same construction depends on the number of attempts.
func TestC20BaselineWorkflowFailedCompileNotIdempotent(t *testing.T) {
	ctx := context.Background()

	build := func(calls *int) *Workflow[string, string] {
		wf := NewWorkflow[string, string]()
		wf.AddLambdaNode("a", InvokableLambda(c20bID)).AddInputWithOptions(START, nil, WithNoDirectDependency())
		wf.AddLambdaNode("b", InvokableLambda(c20bID)).AddInputWithOptions(START, nil, WithNoDirectDependency())
		wf.AddLambdaNode("x", InvokableLambda(c20bID)).AddInput(START)
		wf.AddBranch("x", NewGraphBranch(func(ctx context.Context, in string) (string, error) {
			*calls++
			return "a", nil
		}, map[string]bool{"a": true, "b": true}))
		wf.AddBranch("x", NewGraphBranch(func(ctx context.Context, in string) (string, error) {
			return "a", nil
		}, map[string]bool{"a": true, "ghost": true})) // "ghost" is unknown
		wf.End().AddInput("a")
		return wf
	}
	addGhost := func(wf *Workflow[string, string]) {
		wf.AddLambdaNode("ghost", InvokableLambda(c20bID)).AddInputWithOptions(START, nil, WithNoDirectDependency())
	}

	var calls int
	wf := build(&calls)
	for i := 0; i < 2; i++ {
		if _, err := wf.Compile(ctx); err == nil {
			t.Fatal("unknown branch end node must be rejected")
		}
	}
	addGhost(wf)
	r, err := wf.Compile(ctx)
	if err != nil {
		return // a sticky error is what the property asks for
	}
	t.Logf("the 'unknown branch end node' error did not stick; underlying graph now has %d branches on x (2 were declared)", len(wf.g.branches["x"]))
	if _, err = r.Invoke(ctx, "in"); err != nil {
		t.Fatal(err)
	}
	if calls != 1 {
		t.Fatalf("the first branch condition ran %d times in one run: every failed Compile registered the branch again", calls)
	}
}
