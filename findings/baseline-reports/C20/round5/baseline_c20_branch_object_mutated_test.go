package compose

import (
	"context"
	"testing"
)

// AddBranch writes into the *GraphBranch it is given (idx, noDataFlow). A branch value that went through
// Workflow.AddBranch + Compile keeps noDataFlow == true; adding the very same value to a Graph afterwards yields a
// graph that is accepted by AddBranch and Compile but whose branch targets have no data predecessor: every run dies
// with "no tasks to execute". The identical construction sequence with a fresh branch value works. So the outcome
// of a construction sequence depends on the history of one of its arguments, and an unrelated builder (the
// Workflow) changes what a later Graph compiles to. ChainBranch protects itself from this (AppendBranch copies
// internalBranch); graph.addBranch does not.
func TestBaselineC20_AddBranchMutatesTheBranchValue(t *testing.T) {
	ctx := context.Background()
	suffix := func(s string) *Lambda {
		return InvokableLambda(func(ctx context.Context, in string) (string, error) { return in + s, nil })
	}
	newBranch := func() *GraphBranch {
		return NewGraphBranch(func(ctx context.Context, in string) (string, error) { return "b", nil },
			map[string]bool{"b": true, "c": true})
	}
	buildAndRun := func(br *GraphBranch) (string, error) {
		g := NewGraph[string, string]()
		_ = g.AddLambdaNode("a", suffix("_a"))
		_ = g.AddLambdaNode("b", suffix("_b"))
		_ = g.AddLambdaNode("c", suffix("_c"))
		_ = g.AddEdge(START, "a")
		if err := g.AddBranch("a", br); err != nil {
			return "", err
		}
		_ = g.AddEdge("b", END)
		_ = g.AddEdge("c", END)
		r, err := g.Compile(ctx)
		if err != nil {
			return "", err
		}
		return r.Invoke(ctx, "q")
	}

	// reference
	out, err := buildAndRun(newBranch())
	if err != nil || out != "q_a_b" {
		t.Fatalf("fresh branch: out=%q err=%v", out, err)
	}

	// the branch value is first used by a workflow ...
	shared := newBranch()
	wf := NewWorkflow[string, string]()
	wf.AddLambdaNode("a", suffix("_a")).AddInput(START)
	wf.AddLambdaNode("b", suffix("_b")).AddInputWithOptions("a", nil, WithNoDirectDependency())
	wf.AddLambdaNode("c", suffix("_c")).AddInputWithOptions("a", nil, WithNoDirectDependency())
	wf.AddBranch("a", shared)
	wf.End().AddInput("b")
	if _, err := wf.Compile(ctx); err != nil {
		t.Fatalf("workflow: %v", err)
	}

	// ... and then by the same graph construction as above
	out, err = buildAndRun(shared)
	if err != nil || out != "q_a_b" {
		t.Fatalf("the same graph built with a branch value that a workflow had used before: out=%q err=%v", out, err)
	}
}
