package compose

import (
	"context"
	"testing"
)

// A Workflow whose only execution path out of START is a branch is well-formed (the equivalent Graph, with
// AddBranch(START, ...), compiles and runs). Workflow.Compile rejects it with "start node not set", because
// graph.addBranch records entry/exit nodes only on the data-carrying path (skipData == false) and the
// Workflow adds its branches with skipData == true.
func TestBaselineC20_WorkflowEntryThroughBranchOnly(t *testing.T) {
	ctx := context.Background()
	suffix := func(s string) *Lambda {
		return InvokableLambda(func(ctx context.Context, in string) (string, error) { return in + s, nil })
	}
	cond := func(ctx context.Context, in string) (string, error) {
		if in == "to_b" {
			return "b", nil
		}
		return "a", nil
	}

	// reference: the Graph form of the same topology is accepted and runs
	g := NewGraph[string, map[string]any]()
	_ = g.AddLambdaNode("a", suffix("_a"), WithOutputKey("a"))
	_ = g.AddLambdaNode("b", suffix("_b"), WithOutputKey("b"))
	if err := g.AddBranch(START, NewGraphBranch(cond, map[string]bool{"a": true, "b": true})); err != nil {
		t.Fatal(err)
	}
	_ = g.AddEdge("a", END)
	_ = g.AddEdge("b", END)
	gr, err := g.Compile(ctx)
	if err != nil {
		t.Fatalf("graph form: %v", err)
	}
	if out, err := gr.Invoke(ctx, "q"); err != nil || out["a"] != "q_a" {
		t.Fatalf("graph form: out=%v err=%v", out, err)
	}

	wf := NewWorkflow[string, map[string]any]()
	wf.AddLambdaNode("a", suffix("_a")).AddInputWithOptions(START, nil, WithNoDirectDependency())
	wf.AddLambdaNode("b", suffix("_b")).AddInputWithOptions(START, nil, WithNoDirectDependency())
	wf.AddBranch(START, NewGraphBranch(cond, map[string]bool{"a": true, "b": true}))
	wf.End().AddInput("a", ToField("a")).AddInput("b", ToField("b"))
	r, err := wf.Compile(ctx)
	if err != nil {
		t.Fatalf("workflow whose entry is a branch from START was rejected: %v", err)
	}
	out, err := r.Invoke(ctx, "q")
	if err != nil || out["a"] != "q_a" {
		t.Fatalf("out=%v err=%v", out, err)
	}
}

// The mirror image: END is reached only through a branch (its data comes through a no-direct-dependency mapping,
// exactly as the documentation of WithNoDirectDependency prescribes for branch scenarios).
// Workflow.Compile answers "end node not set".
func TestBaselineC20_WorkflowExitThroughBranchOnly(t *testing.T) {
	ctx := context.Background()
	suffix := func(s string) *Lambda {
		return InvokableLambda(func(ctx context.Context, in string) (string, error) { return in + s, nil })
	}
	wf := NewWorkflow[string, string]()
	wf.AddLambdaNode("a", suffix("_a")).AddInput(START)
	wf.AddLambdaNode("log", suffix("_log")).AddInputWithOptions("a", nil, WithNoDirectDependency()) // a sink
	wf.AddBranch("a", NewGraphBranch(func(ctx context.Context, in string) (string, error) {
		return END, nil
	}, map[string]bool{END: true, "log": true}))
	wf.End().AddInputWithOptions("a", nil, WithNoDirectDependency())
	r, err := wf.Compile(ctx)
	if err != nil {
		t.Fatalf("workflow whose exit is a branch to END was rejected: %v", err)
	}
	out, err := r.Invoke(ctx, "q")
	if err != nil || out != "q_a" {
		t.Fatalf("out=%q err=%v", out, err)
	}
}
