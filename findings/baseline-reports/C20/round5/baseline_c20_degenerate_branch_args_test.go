package compose

import (
	"context"
	"testing"
)

// A branch with exactly one target is rejected ("number of branches is 1"); a branch with NO target at all is
// accepted by AddBranch and by Compile, and then fails every run in which it is evaluated.
func TestBaselineC20_ZeroTargetBranchIsAccepted(t *testing.T) {
	ctx := context.Background()
	g := NewGraph[string, string]()
	_ = g.AddLambdaNode("a", InvokableLambda(func(ctx context.Context, in string) (string, error) { return in, nil }))
	_ = g.AddEdge(START, "a")
	_ = g.AddEdge("a", END)
	err := g.AddBranch("a", NewGraphBranch(func(ctx context.Context, in string) (string, error) { return END, nil }, map[string]bool{}))
	if err != nil {
		return // rejected: fine
	}
	r, err := g.Compile(ctx)
	if err != nil {
		return // rejected: fine
	}
	out, runErr := r.Invoke(ctx, "q")
	t.Fatalf("a branch without any target was accepted by AddBranch and Compile; run: out=%q err=%v", out, runErr)
}

// Add* with a nil branch / lambda / graph / chat model panics (nil-pointer dereference inside AddBranch, toLambdaNode,
// toAnyGraphNode, ...) instead of returning an error. The Chain layer does treat these as construction errors
// (AppendBranch(nil) -> "append branch invalid, branch is nil"; Parallel/ChainBranch check node == nil).
// NOTE: possibly covered by the "anything about nil values" exclusion; listed for completeness.
func TestBaselineC20_NilArgumentsPanicInsteadOfError(t *testing.T) {
	try := func(name string, f func() error) {
		t.Run(name, func(t *testing.T) {
			defer func() {
				if r := recover(); r != nil {
					t.Fatalf("%s panicked instead of returning an error: %v", name, r)
				}
			}()
			if err := f(); err == nil {
				t.Fatalf("%s: accepted", name)
			}
		})
	}
	try("AddBranch(nil)", func() error {
		g := NewGraph[string, string]()
		_ = g.AddLambdaNode("a", InvokableLambda(func(ctx context.Context, in string) (string, error) { return in, nil }))
		return g.AddBranch("a", nil)
	})
	try("AddLambdaNode(nil)", func() error {
		return NewGraph[string, string]().AddLambdaNode("a", nil)
	})
	try("AddGraphNode(nil)", func() error {
		return NewGraph[string, string]().AddGraphNode("a", nil)
	})
}
