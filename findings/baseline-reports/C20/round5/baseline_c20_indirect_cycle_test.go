package compose

import (
	"context"
	"testing"
	"time"
)

// A workflow runs in all-predecessor mode. The dependency cycle  a --(control+data)--> b --(data only)--> a  is not
// detected by Compile: validateDAG looks at control edges only, and workflow.go still carries
// "TODO: check indirect edges are legal". The compiled workflow can never run ("no tasks to execute"): node a waits
// for the data of b, b waits for a.
func TestBaselineC20_WorkflowCycleThroughDataOnlyEdgeIsAccepted(t *testing.T) {
	ctx, cancel := context.WithTimeout(context.Background(), 5*time.Second)
	defer cancel()
	suffix := func(s string) *Lambda {
		return InvokableLambda(func(ctx context.Context, in string) (string, error) { return in + s, nil })
	}
	wf := NewWorkflow[string, string]()
	wf.AddLambdaNode("a", suffix("_a")).
		AddDependency(START).
		AddInputWithOptions("b", nil, WithNoDirectDependency())
	wf.AddLambdaNode("b", suffix("_b")).AddInput("a")
	wf.End().AddInput("b")

	r, err := wf.Compile(ctx)
	if err != nil {
		return // rejected: fine
	}
	out, runErr := r.Invoke(ctx, "q")
	t.Fatalf("Compile accepted a workflow with the dependency cycle a -> b -(data)-> a; running it: out=%q err=%v", out, runErr)
}
