package compose

import (
	"context"
	"fmt"
	"testing"
)

// C20 baseline reproducer (fails on the UNMODIFIED tree).
//
// A pass-through node added with WithInputKey / WithOutputKey reports map[string]any as its input / output
// type although its own type has not been inferred yet (cr.genericHelper is still nil). As soon as an edge
// needs that node's generic helper, graphNode.getGenericHelper calls forMapInput / forMapOutput on the nil
// helper and AddEdge panics with a nil pointer dereference instead of returning an error (or succeeding).

func c20bCall(f func() error) (err error, panicked any) {
	defer func() { panicked = recover() }()
	return f(), nil
}

func TestC20Baseline_PassthroughWithKeyMakesAddEdgePanic(t *testing.T) {
	type step func() error
	cases := map[string]func() []step{
		// START's output type is an interface, the node's "input type" is map[string]any: a run-time
		// check is needed on the edge, which asks the (nil) helper of the pass-through node
		"interface predecessor -> passthrough(WithInputKey)": func() []step {
			g := NewGraph[any, any]()
			return []step{
				func() error { return g.AddPassthroughNode("p", WithInputKey("k")) },
				func() error { return g.AddEdge(START, "p") },
			}
		},
		// the successor's type is inferred from "p", whose helper is nil
		"passthrough(WithOutputKey) -> untyped passthrough": func() []step {
			g := NewGraph[string, string]()
			return []step{
				func() error { return g.AddPassthroughNode("p", WithOutputKey("k")) },
				func() error { return g.AddPassthroughNode("q") },
				func() error { return g.AddEdge("p", "q") },
			}
		},
		// the predecessor's type is inferred from "p", whose helper is nil
		"untyped passthrough -> passthrough(WithInputKey)": func() []step {
			g := NewGraph[string, string]()
			return []step{
				func() error { return g.AddPassthroughNode("p", WithInputKey("k")) },
				func() error { return g.AddPassthroughNode("q") },
				func() error { return g.AddEdge("q", "p") },
			}
		},
	}

	for name, mk := range cases {
		for i, s := range mk() {
			err, p := c20bCall(s)
			if p != nil {
				t.Errorf("%s: step %d panicked instead of returning an error: %v", name, i, p)
				break
			}
			_ = err // an error would be fine, so would success: only the panic is the defect
		}
	}
}

// control: the same nodes work when the neighbour's type is concrete, so the option itself is supported
func TestC20Baseline_PassthroughWithKeyControl(t *testing.T) {
	ctx := context.Background()
	g := NewGraph[string, map[string]any]()
	if err := g.AddPassthroughNode("p", WithOutputKey("k")); err != nil {
		t.Fatal(err)
	}
	if err := g.AddEdge(START, "p"); err != nil {
		t.Fatal(err)
	}
	if err := g.AddEdge("p", END); err != nil {
		t.Fatal(err)
	}
	r, err := g.Compile(ctx)
	if err != nil {
		t.Fatal(err)
	}
	out, err := r.Invoke(ctx, "x")
	if err != nil || fmt.Sprint(out) != "map[k:x]" {
		t.Fatalf("out=%v err=%v", out, err)
	}
}
