package compose

import (
	"context"
	"testing"
)

// C20 baseline reproducer (fails on the UNMODIFIED tree).
//
// A Workflow always runs in all-predecessor mode, and Compile validates it with validateDAG. validateDAG
// only follows control edges, so a cycle that is closed by a data-only edge (WithNoDirectDependency) is
// accepted: B waits for A's data, A waits for B. The compiled workflow can never run a single node:
// every Invoke fails at once with "no tasks to execute".
func TestC20Baseline_WorkflowCycleThroughDataOnlyEdgeIsCompiled(t *testing.T) {
	ctx := context.Background()

	wf := NewWorkflow[string, string]()
	wf.AddLambdaNode("A", InvokableLambda(func(ctx context.Context, in string) (string, error) { return in + "a", nil })).
		AddInput("B") // B -> A : control + data
	wf.AddLambdaNode("B", InvokableLambda(func(ctx context.Context, in map[string]any) (string, error) { return "b", nil })).
		AddInput(START, ToField("s")).
		AddInputWithOptions("A", []*FieldMapping{ToField("a")}, WithNoDirectDependency()) // A -> B : data only
	wf.End().AddInput("A")

	r, err := wf.Compile(ctx)
	if err != nil {
		return // rejected: fine
	}
	_, runErr := r.Invoke(ctx, "x")
	t.Fatalf("a workflow whose nodes A and B depend on each other (A needs B's output, B needs A's output) was compiled; Invoke: %v", runErr)
}
