package compose

import (
	"context"
	"testing"
)

// C20 baseline reproducers (fail on the UNMODIFIED tree), lower confidence than the other files: the
// property text does not name these constructions explicitly.

func c20bmCall(f func() error) (err error, panicked any) {
	defer func() { panicked = recover() }()
	return f(), nil
}

// nil arguments make the Add* calls panic (nil pointer dereference) instead of returning an error
func TestC20Baseline_NilArgumentsPanic(t *testing.T) {
	cases := map[string]func() error{
		"AddLambdaNode(nil)": func() error { return NewGraph[string, string]().AddLambdaNode("n", nil) },
		"AddBranch(nil)":     func() error { return NewGraph[string, string]().AddBranch(START, nil) },
		"AddGraphNode(nil)": func() error {
			g := NewGraph[string, string]()
			if err := g.AddGraphNode("n", nil); err != nil {
				return err
			}
			return g.AddEdge(START, "n")
		},
		"AddToolsNode(nil)": func() error { return NewGraph[string, string]().AddToolsNode("n", nil) },
	}
	for name, f := range cases {
		if _, p := c20bmCall(f); p != nil {
			t.Errorf("%s panicked instead of returning an error: %v", name, p)
		}
	}
}

// a branch with exactly one target is rejected ("number of branches is 1"), a branch with no target at
// all is accepted by AddBranch and Compile, although no invocation of it can ever succeed
func TestC20Baseline_ZeroTargetBranchAccepted(t *testing.T) {
	ctx := context.Background()
	g := NewGraph[string, string]()
	if err := g.AddLambdaNode("a", InvokableLambda(func(ctx context.Context, in string) (string, error) { return in, nil })); err != nil {
		t.Fatal(err)
	}
	if err := g.AddEdge(START, "a"); err != nil {
		t.Fatal(err)
	}
	if err := g.AddEdge("a", END); err != nil {
		t.Fatal(err)
	}
	br := NewGraphBranch(func(ctx context.Context, in string) (string, error) { return END, nil }, map[string]bool{})
	if err := g.AddBranch("a", br); err != nil {
		return // rejected: fine
	}
	r, err := g.Compile(ctx)
	if err != nil {
		return // rejected: fine
	}
	_, runErr := r.Invoke(ctx, "x")
	t.Fatalf("a branch without any target was accepted by AddBranch and Compile; Invoke: %v", runErr)
}
