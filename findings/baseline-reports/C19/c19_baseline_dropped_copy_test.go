package compose

import (
	"context"
	"fmt"
	"testing"
	"time"

	"github.com/cloudwego/eino/schema"
)

// All the tests below run on the UNMODIFIED tree.
//
// Common shape: node A is a streaming producer that writes to an unbuffered pipe from its own goroutine.
// Every value has a consumer, every branch condition closes its copy, the caller reads ONE chunk of the
// graph output and closes it. Property C19 requires that the producer (blocked in Send) is then released.

func c19bProducer(n int, exited chan struct{}) *Lambda {
	return StreamableLambda(func(ctx context.Context, in string) (*schema.StreamReader[string], error) {
		sr, sw := schema.Pipe[string](0)
		go func() {
			defer close(exited)
			defer sw.Close()
			for i := 0; i < n; i++ {
				if sw.Send(fmt.Sprintf("chunk-%d", i), nil) {
					return
				}
			}
		}()
		return sr, nil
	})
}

func c19bPass() *Lambda {
	return TransformableLambda(func(ctx context.Context, in *schema.StreamReader[string]) (*schema.StreamReader[string], error) {
		return in, nil
	})
}

func c19bPick(node string, ends map[string]bool) *GraphBranch {
	return NewStreamGraphBranch(func(ctx context.Context, in *schema.StreamReader[string]) (string, error) {
		defer in.Close() // reads a prefix only and closes its copy
		if _, err := in.Recv(); err != nil {
			return "", err
		}
		return node, nil
	}, ends)
}

func c19bReadOneAndClose(t *testing.T, out *schema.StreamReader[string], exited chan struct{}) {
	t.Helper()
	if _, err := out.Recv(); err != nil {
		t.Fatal(err)
	}
	out.Close()
	select {
	case <-exited:
	case <-time.After(3 * time.Second):
		t.Fatal("the run is finished and its output closed, but the producer of node A is still blocked in Send")
	}
}

// control: one branch on A, early close. Passes: shows that the harness itself is fine.
func TestC19BaselineControlOneBranch(t *testing.T) {
	for _, mode := range []NodeTriggerMode{AllPredecessor, AnyPredecessor} {
		t.Run(string(mode), func(t *testing.T) {
			ctx := context.Background()
			exited := make(chan struct{})
			g := NewGraph[string, string]()
			_ = g.AddLambdaNode("A", c19bProducer(1000, exited))
			_ = g.AddLambdaNode("X", c19bPass())
			_ = g.AddLambdaNode("Y", c19bPass())
			_ = g.AddEdge(START, "A")
			_ = g.AddBranch("A", c19bPick("X", map[string]bool{"X": true, "Y": true}))
			_ = g.AddEdge("X", END)
			_ = g.AddEdge("Y", END)
			r, err := g.Compile(ctx, WithNodeTriggerMode(mode))
			if err != nil {
				t.Fatal(err)
			}
			out, err := r.Stream(ctx, "in")
			if err != nil {
				t.Fatal(err)
			}
			c19bReadOneAndClose(t, out, exited)
		})
	}
}

// DEFECT 1: two branches of the same node pick the SAME successor.
// resolveCompletedTasks then has X twice in nextNodeKeys and does
//
//	writeChannelValues["X"]["A"] = vs[0]; writeChannelValues["X"]["A"] = vs[1]
//
// the first copy is overwritten and never closed, so the parent reader never closes A's stream.
func TestC19BaselineTwoBranchesPickSameNode(t *testing.T) {
	for _, mode := range []NodeTriggerMode{AllPredecessor, AnyPredecessor} {
		t.Run(string(mode), func(t *testing.T) {
			ctx := context.Background()
			exited := make(chan struct{})
			g := NewGraph[string, string]()
			_ = g.AddLambdaNode("A", c19bProducer(1000, exited))
			_ = g.AddLambdaNode("X", c19bPass())
			_ = g.AddLambdaNode("Y", c19bPass())
			_ = g.AddEdge(START, "A")
			_ = g.AddBranch("A", c19bPick("X", map[string]bool{"X": true, "Y": true}))
			_ = g.AddBranch("A", c19bPick("X", map[string]bool{"X": true, "Y": true}))
			_ = g.AddEdge("X", END)
			_ = g.AddEdge("Y", END)
			r, err := g.Compile(ctx, WithNodeTriggerMode(mode))
			if err != nil {
				t.Fatal(err)
			}
			out, err := r.Stream(ctx, "in")
			if err != nil {
				t.Fatal(err)
			}
			c19bReadOneAndClose(t, out, exited)
		})
	}
}

// DEFECT 1, the everyday form: in a Workflow a branch carries no data, so the node a branch selects takes
// its input from the branching node through AddInputWithOptions(..., WithNoDirectDependency()) - the pattern
// the documentation of WithNoDirectDependency prescribes. X is then both a data successor of A (writeTo) and
// the node picked by A's branch: again X is twice in nextNodeKeys and one copy is overwritten, never closed.
func TestC19BaselineWorkflowBranchTargetReadsBranchingNode(t *testing.T) {
	ctx := context.Background()
	exited := make(chan struct{})
	wf := NewWorkflow[string, string]()
	wf.AddLambdaNode("A", c19bProducer(1000, exited)).AddInput(START)
	wf.AddLambdaNode("X", c19bPass()).AddInputWithOptions("A", nil, WithNoDirectDependency())
	wf.AddBranch("A", c19bPick("X", map[string]bool{"X": true, END: true}))
	wf.End().AddInput("X")
	r, err := wf.Compile(ctx)
	if err != nil {
		t.Fatal(err)
	}
	out, err := r.Stream(ctx, "in")
	if err != nil {
		t.Fatal(err)
	}
	c19bReadOneAndClose(t, out, exited)
}

// DEFECT 2: a node has two branches, a multi-branch that selects NO node this time and a branch that selects Z.
// resolveCompletedTasks reserves one copy per branch (len(writeToBranches)) but only hands out
// len(nextNodeKeys) of them: with fewer selected nodes than branches the surplus copy is dropped, never closed.
func TestC19BaselineMultiBranchSelectsNothing(t *testing.T) {
	ctx := context.Background()
	exited := make(chan struct{})
	g := NewGraph[string, string]()
	_ = g.AddLambdaNode("A", c19bProducer(1000, exited))
	_ = g.AddLambdaNode("X", c19bPass())
	_ = g.AddLambdaNode("Y", c19bPass())
	_ = g.AddLambdaNode("Z", c19bPass())
	_ = g.AddEdge(START, "A")
	_ = g.AddBranch("A", NewStreamGraphMultiBranch(func(ctx context.Context, in *schema.StreamReader[string]) (map[string]bool, error) {
		in.Close()
		return map[string]bool{}, nil
	}, map[string]bool{"X": true, "Y": true}))
	_ = g.AddBranch("A", c19bPick("Z", map[string]bool{"Z": true, "Y": true}))
	_ = g.AddEdge("X", END)
	_ = g.AddEdge("Y", END)
	_ = g.AddEdge("Z", END)
	r, err := g.Compile(ctx, WithNodeTriggerMode(AllPredecessor))
	if err != nil {
		t.Fatal(err)
	}
	out, err := r.Stream(ctx, "in")
	if err != nil {
		t.Fatal(err)
	}
	c19bReadOneAndClose(t, out, exited)
}
