package compose

import (
	"context"
	"fmt"
	"testing"
	"time"

	"github.com/cloudwego/eino/schema"
)

// A workflow node X streams its output; a (data-less) workflow branch on X picks B and skips C.
// Both B and C read X's output through a data-only edge (WithNoDirectDependency), which is the
// documented way to read data "across a branch".
// The copy of X's stream that is made for the skipped node C is reported to C's (skipped) channel and
// silently dropped there: nobody ever reads or closes it. When the caller closes the output stream
// early, B's copy is closed, but X's source stream is only closed once ALL copies are closed, so the
// producer inside X stays blocked on its send forever.
func TestC19BaselineSkippedBranchTargetKeepsProducerBlocked(t *testing.T) {
	ctx := context.Background()
	producerDone := make(chan struct{})

	wf := NewWorkflow[string, map[string]any]()
	wf.AddLambdaNode("X", StreamableLambda(func(ctx context.Context, in string) (*schema.StreamReader[string], error) {
		sr, sw := schema.Pipe[string](0)
		go func() {
			defer close(producerDone)
			defer sw.Close()
			for i := 0; i < 1000; i++ {
				if closed := sw.Send(fmt.Sprint(i), nil); closed {
					return
				}
			}
		}()
		return sr, nil
	})).AddInput(START)

	tr := func(tag string) *Lambda {
		return TransformableLambda(func(ctx context.Context, in *schema.StreamReader[string]) (*schema.StreamReader[string], error) {
			// lazily converts; closing the result closes the input
			return schema.StreamReaderWithConvert(in, func(s string) (string, error) { return tag + s, nil }), nil
		})
	}
	wf.AddLambdaNode("B", tr("b")).AddInputWithOptions("X", nil, WithNoDirectDependency())
	wf.AddLambdaNode("C", tr("c")).AddInputWithOptions("X", nil, WithNoDirectDependency())
	wf.AddBranch("X", NewStreamGraphBranch(func(ctx context.Context, in *schema.StreamReader[string]) (string, error) {
		in.Close() // the condition closes its own copy
		return "B", nil
	}, map[string]bool{"B": true, "C": true}))
	wf.End().AddInput("B", ToField("b")).AddInput("C", ToField("c"))

	r, err := wf.Compile(ctx)
	if err != nil {
		t.Fatal(err)
	}

	out, err := r.Stream(ctx, "go")
	if err != nil {
		t.Fatal(err)
	}
	chunk, err := out.Recv()
	if err != nil {
		t.Fatal(err)
	}
	if chunk["b"] != "b0" {
		t.Fatalf("unexpected first chunk: %v", chunk)
	}
	out.Close() // the caller stops reading

	select {
	case <-producerDone:
	case <-time.After(3 * time.Second):
		t.Fatal("the producer of node X is still blocked on Send 3s after the caller closed the output stream: " +
			"the stream copy made for the skipped branch target C was never closed")
	}
}
