package compose

import (
	"context"
	"fmt"
	"testing"
	"time"

	"github.com/cloudwego/eino/schema"
)

// Plain graph, all-predecessor mode: A has a direct edge to D and, in addition, a branch whose targets are D and E.
// The branch picks E only. D still has its direct edge from A, and A's output is still copied for it, but D's
// channel is marked "skipped" because its only control predecessor (A) reported a skip through the branch:
// the copy written to D is dropped without being closed (and D silently does not run).
func TestC19BaselineEdgeAndUnselectedBranchToSameNode(t *testing.T) {
	ctx := context.Background()
	producerDone := make(chan struct{})
	dRan := false

	g := NewGraph[string, map[string]any]()
	_ = g.AddLambdaNode("A", StreamableLambda(func(ctx context.Context, in string) (*schema.StreamReader[string], error) {
		sr, sw := schema.Pipe[string](0)
		go func() {
			defer close(producerDone)
			defer sw.Close()
			for i := 0; i < 1000; i++ {
				if closed := sw.Send(fmt.Sprint(i), nil); closed {
					return
				}
			}
		}()
		return sr, nil
	}))
	_ = g.AddLambdaNode("D", TransformableLambda(func(ctx context.Context, in *schema.StreamReader[string]) (*schema.StreamReader[string], error) {
		dRan = true
		return schema.StreamReaderWithConvert(in, func(s string) (string, error) { return "d" + s, nil }), nil
	}), WithOutputKey("d"))
	_ = g.AddLambdaNode("E", TransformableLambda(func(ctx context.Context, in *schema.StreamReader[string]) (*schema.StreamReader[string], error) {
		return schema.StreamReaderWithConvert(in, func(s string) (string, error) { return "e" + s, nil }), nil
	}), WithOutputKey("e"))
	_ = g.AddEdge(START, "A")
	_ = g.AddEdge("A", "D")
	_ = g.AddBranch("A", NewStreamGraphBranch(func(ctx context.Context, in *schema.StreamReader[string]) (string, error) {
		in.Close()
		return "E", nil
	}, map[string]bool{"D": true, "E": true}))
	_ = g.AddEdge("D", END)
	_ = g.AddEdge("E", END)

	r, err := g.Compile(ctx, WithNodeTriggerMode(AllPredecessor))
	if err != nil {
		t.Fatal(err)
	}
	out, err := r.Stream(ctx, "go")
	if err != nil {
		t.Fatal(err)
	}
	chunk, err := out.Recv()
	if err != nil {
		t.Fatal(err)
	}
	t.Logf("first chunk: %v, D ran: %v", chunk, dRan)
	out.Close()

	select {
	case <-producerDone:
	case <-time.After(3 * time.Second):
		t.Fatalf("the producer of node A is still blocked on Send 3s after the caller closed the output stream (D ran: %v)", dRan)
	}
}
