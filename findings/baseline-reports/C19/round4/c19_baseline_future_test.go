package react

import (
	"context"
	"fmt"
	"testing"
	"time"

	"github.com/cloudwego/eino/components/model"
	"github.com/cloudwego/eino/components/tool"
	"github.com/cloudwego/eino/compose"
	"github.com/cloudwego/eino/flow/agent"
	"github.com/cloudwego/eino/schema"
)

// c19StreamingModel streams 1000 content chunks through an unbuffered pipe and reports when its
// producing goroutine has returned.
type c19StreamingModel struct {
	producerDone chan struct{}
}

func (m *c19StreamingModel) Generate(ctx context.Context, input []*schema.Message, opts ...model.Option) (*schema.Message, error) {
	return schema.AssistantMessage("bye", nil), nil
}

func (m *c19StreamingModel) Stream(ctx context.Context, input []*schema.Message, opts ...model.Option) (*schema.StreamReader[*schema.Message], error) {
	sr, sw := schema.Pipe[*schema.Message](0)
	go func() {
		defer close(m.producerDone)
		defer sw.Close()
		for i := 0; i < 1000; i++ {
			if closed := sw.Send(schema.AssistantMessage(fmt.Sprintf("chunk-%d ", i), nil), nil); closed {
				return
			}
		}
	}()
	return sr, nil
}

func (m *c19StreamingModel) WithTools(tools []*schema.ToolInfo) (model.ToolCallingChatModel, error) {
	return m, nil
}

func c19RunAgentAndCloseEarly(t *testing.T, withFuture bool) {
	ctx := context.Background()
	cm := &c19StreamingModel{producerDone: make(chan struct{})}

	a, err := NewAgent(ctx, &AgentConfig{
		ToolCallingModel: cm,
		ToolsConfig:      compose.ToolsNodeConfig{Tools: []tool.BaseTool{&fakeToolGreetForTest{}}},
		MaxStep:          3,
	})
	if err != nil {
		t.Fatal(err)
	}

	var (
		out    *schema.StreamReader[*schema.Message]
		future MessageFuture
	)
	if withFuture {
		var option agent.AgentOption
		option, future = WithMessageFuture()
		out, err = a.Stream(ctx, []*schema.Message{schema.UserMessage("hi")}, option)
	} else {
		out, err = a.Stream(ctx, []*schema.Message{schema.UserMessage("hi")})
	}
	if err != nil {
		t.Fatal(err)
	}

	if _, err = out.Recv(); err != nil {
		t.Fatal(err)
	}
	out.Close() // the caller stops reading after the first chunk

	if withFuture {
		// the caller is well-behaved: it closes every message stream handed out by the future
		iter := future.GetMessageStreams()
		for {
			s, hasNext, e := iter.Next()
			if e != nil {
				t.Fatal(e)
			}
			if !hasNext {
				break
			}
			s.Close()
		}
	}

	select {
	case <-cm.producerDone:
	case <-time.After(3 * time.Second):
		t.Fatal("the chat model's producer goroutine is still blocked on Send 3s after every reader the caller owns was closed")
	}
}

// control: without the MessageFuture option the producer is released as soon as the caller closes the output.
func TestC19BaselineReactStreamCloseEarlyWithoutFuture(t *testing.T) {
	c19RunAgentAndCloseEarly(t, false)
}

// with the MessageFuture option the graph-level OnEndWithStreamOutput handler of the option
// (cbHandler.onGraphEndWithStreamOutput) ignores the copy of the output stream it is given and never closes it,
// so the chat model's stream is never released.
func TestC19BaselineReactStreamCloseEarlyWithFuture(t *testing.T) {
	c19RunAgentAndCloseEarly(t, true)
}
