package compose

import (
	"context"
	"fmt"
	"io"
	"testing"
	"time"

	"github.com/cloudwego/eino/schema"
)

// DEFECT 3 (fault at a particular point): the convert function of a stream that is fanned out to two
// successors panics on one chunk. The panic happens inside parentStreamReader.peek's sync.Once, is recovered by the
// toStream goroutine of one successor's merged input (by design: it becomes an error chunk) and the run goes on.
// But the Once is now "done" with an empty element whose next pointer is nil: the other child reads a zero chunk,
// then its slot in subStreamList becomes nil, so its close() is taken for a repeated close and is not counted.
// closedNum never reaches the number of children, the source is never closed, and A's producer stays blocked.
func TestC19BaselineConvertPanicInFanOut(t *testing.T) {
	c19bConvertFaultInFanOut(t, true)
}

// control: the same graph, the convert function returns an error instead of panicking. Passes.
func TestC19BaselineControlConvertErrorInFanOut(t *testing.T) {
	c19bConvertFaultInFanOut(t, false)
}

func c19bConvertFaultInFanOut(t *testing.T, doPanic bool) {
	ctx := context.Background()
	exited := make(chan struct{})

	a := StreamableLambda(func(ctx context.Context, in string) (*schema.StreamReader[string], error) {
		sr, sw := schema.Pipe[string](0)
		go func() {
			defer close(exited)
			defer sw.Close()
			for i := 0; i < 1000; i++ {
				if sw.Send(fmt.Sprintf("chunk-%d", i), nil) {
					return
				}
			}
		}()
		return schema.StreamReaderWithConvert(sr, func(s string) (string, error) {
			if s == "chunk-1" {
				if doPanic {
					panic("convert failed on " + s)
				}
				return "", fmt.Errorf("convert failed on %s", s)
			}
			return s, nil
		}), nil
	})
	d := InvokableLambda(func(ctx context.Context, in string) (string, error) { return "d", nil })
	pass := func() *Lambda {
		return TransformableLambda(func(ctx context.Context, in *schema.StreamReader[map[string]any]) (*schema.StreamReader[map[string]any], error) {
			return in, nil
		})
	}

	g := NewGraph[string, map[string]any]()
	_ = g.AddLambdaNode("A", a, WithOutputKey("a"))
	_ = g.AddLambdaNode("D", d, WithOutputKey("d"))
	_ = g.AddLambdaNode("B", pass())
	_ = g.AddLambdaNode("C", pass())
	_ = g.AddEdge(START, "A")
	_ = g.AddEdge(START, "D")
	_ = g.AddEdge("A", "B")
	_ = g.AddEdge("D", "B")
	_ = g.AddEdge("A", "C")
	_ = g.AddEdge("D", "C")
	_ = g.AddEdge("B", END)
	_ = g.AddEdge("C", END)
	r, err := g.Compile(ctx, WithNodeTriggerMode(AllPredecessor))
	if err != nil {
		t.Fatal(err)
	}

	out, err := r.Stream(ctx, "in")
	if err != nil {
		t.Fatal(err)
	}
	// the caller reads until the stream reports the (recovered) panic, then closes the output
	sawErr := false
	for i := 0; i < 100; i++ {
		_, err = out.Recv()
		if err == io.EOF {
			break
		}
		if err != nil {
			sawErr = true
			break
		}
	}
	// give the pump goroutine of the other successor the time to reach the broken element
	// (it does not need the reader for that, its intermediate stream is buffered)
	time.Sleep(300 * time.Millisecond)
	out.Close()
	if !sawErr {
		t.Fatal("expected the recovered panic as an error chunk")
	}

	select {
	case <-exited:
	case <-time.After(3 * time.Second):
		t.Fatal("the run is finished and its output closed, but the producer of node A is still blocked in Send")
	}
}
