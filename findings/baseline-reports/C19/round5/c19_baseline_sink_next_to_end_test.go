package compose

import (
	"context"
	"fmt"
	"io"
	"testing"
	"time"

	"github.com/cloudwego/eino/schema"
)

// all-predecessor graph:  START -> A -> END   and   START -> S -> T
// T is a sink: it consumes S's stream (e.g. stores it somewhere), nothing follows it.
// END and T become ready in the same step; calculateNextTasks returns END's value as soon as END is among the
// ready nodes and drops the other ready nodes together with the inputs already taken out of their channels.
func TestC19BaselineSinkNodeNextToEnd(t *testing.T) {
	ctx := context.Background()
	released := make(chan struct{})
	tRan := make(chan struct{})

	g := NewGraph[string, string]()
	_ = g.AddLambdaNode("A", InvokableLambda(func(ctx context.Context, in string) (string, error) { return in, nil }))
	_ = g.AddLambdaNode("S", StreamableLambda(func(ctx context.Context, in string) (*schema.StreamReader[string], error) {
		sr, sw := schema.Pipe[string](0)
		go func() {
			defer close(released)
			defer sw.Close()
			for i := 0; i < 10; i++ {
				if sw.Send(fmt.Sprintf("s%d", i), nil) {
					return
				}
			}
		}()
		return sr, nil
	}))
	_ = g.AddLambdaNode("T", CollectableLambda(func(ctx context.Context, in *schema.StreamReader[string]) (string, error) {
		defer close(tRan)
		defer in.Close()
		for {
			_, err := in.Recv()
			if err == io.EOF {
				return "done", nil
			}
			if err != nil {
				return "", err
			}
		}
	}))
	_ = g.AddEdge(START, "A")
	_ = g.AddEdge("A", END)
	_ = g.AddEdge(START, "S")
	_ = g.AddEdge("S", "T")

	r, err := g.Compile(ctx, WithNodeTriggerMode(AllPredecessor))
	if err != nil {
		t.Fatal(err)
	}
	out, err := r.Stream(ctx, "go")
	if err != nil {
		t.Fatal(err)
	}
	for {
		_, err = out.Recv()
		if err == io.EOF {
			break
		}
		if err != nil {
			t.Fatal(err)
		}
	}
	out.Close()

	select {
	case <-released:
	case <-time.After(3 * time.Second):
		select {
		case <-tRan:
			t.Fatal("T ran but S's producer is still blocked")
		default:
		}
		t.Fatal("S's producer is still blocked on Send 3s after the run finished and its output was read to the end; its consumer T was never run and the stream handed to T was never closed")
	}
}
