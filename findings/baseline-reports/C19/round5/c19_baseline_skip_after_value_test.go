package compose

import (
	"context"
	"fmt"
	"testing"
	"time"

	"github.com/cloudwego/eino/schema"
)

// A workflow (all-predecessor mode, eager):
//
//	START -> X (streaming producer)      START -> A (slow) --branch--> C | D
//	X ..data only (WithNoDirectDependency)..> C,  X ..data only..> D
//	C -> END ("c"), D -> END ("d")
//
// The branch picks D. C is skipped. Every value X produces has a consumer (C and D both read X).
// xFirst == true : X's task is resolved BEFORE A's branch is evaluated (X's copy for C already sits in C's channel).
// xFirst == false: the branch is evaluated first, X's copy for C arrives at an already skipped channel.
func runC19BaselineSkip(t *testing.T, xFirst bool) {
	ctx := context.Background()

	released := make(chan struct{})
	xReturned := make(chan struct{})
	aReturned := make(chan struct{})

	wf := NewWorkflow[string, map[string]any]()

	wf.AddLambdaNode("X", StreamableLambda(func(ctx context.Context, in string) (*schema.StreamReader[string], error) {
		if !xFirst {
			<-aReturned
			time.Sleep(150 * time.Millisecond)
		}
		sr, sw := schema.Pipe[string](0)
		go func() {
			defer close(released)
			defer sw.Close()
			for i := 0; i < 1000; i++ {
				if closed := sw.Send(fmt.Sprintf("x%d", i), nil); closed {
					return
				}
			}
		}()
		close(xReturned)
		return sr, nil
	})).AddInput(START)

	wf.AddLambdaNode("A", InvokableLambda(func(ctx context.Context, in string) (string, error) {
		if xFirst {
			<-xReturned
			time.Sleep(150 * time.Millisecond)
		}
		close(aReturned)
		return in, nil
	})).AddInput(START)

	wf.AddBranch("A", NewGraphBranch(func(ctx context.Context, in string) (string, error) {
		return "D", nil
	}, map[string]bool{"C": true, "D": true}))

	pass := func(ctx context.Context, in *schema.StreamReader[string]) (*schema.StreamReader[string], error) {
		return in, nil
	}
	wf.AddLambdaNode("C", TransformableLambda(pass)).AddInputWithOptions("X", nil, WithNoDirectDependency())
	wf.AddLambdaNode("D", TransformableLambda(pass)).AddInputWithOptions("X", nil, WithNoDirectDependency())

	wf.End().AddInput("C", ToField("c")).AddInput("D", ToField("d"))

	r, err := wf.Compile(ctx)
	if err != nil {
		t.Fatal(err)
	}

	out, err := r.Stream(ctx, "go")
	if err != nil {
		t.Fatal(err)
	}
	chunk, err := out.Recv()
	if err != nil {
		t.Fatal(err)
	}
	if chunk["d"] != "x0" {
		t.Fatalf("unexpected first chunk: %v", chunk)
	}
	// the caller stops reading
	out.Close()

	select {
	case <-released:
	case <-time.After(3 * time.Second):
		t.Fatalf("xFirst=%v: the producer of X is still blocked on Send 3s after the caller closed the output stream", xFirst)
	}
}

func TestC19BaselineSkipAfterValueDelivered(t *testing.T) {
	runC19BaselineSkip(t, true)
}

func TestC19BaselineSkipBeforeValueDelivered(t *testing.T) {
	runC19BaselineSkip(t, false)
}
