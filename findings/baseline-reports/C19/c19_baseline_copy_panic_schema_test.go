package schema

import (
	"testing"
	"time"
)

// Minimal, package-level form of DEFECT 3 (see c19_baseline_convert_panic_test.go in compose):
// the source of a copied reader panics once inside parentStreamReader.peek's sync.Once.
// Afterwards both children are closed, yet the source is never closed and the writer stays blocked.
func TestC19BaselineCopyParentWedgedByPanic(t *testing.T) {
	sr, sw := Pipe[int](0)
	released := make(chan struct{})
	go func() {
		defer close(released)
		defer sw.Close()
		for i := 0; i < 100; i++ {
			if sw.Send(i, nil) {
				return
			}
		}
	}()

	conv := StreamReaderWithConvert(sr, func(i int) (int, error) {
		if i == 0 {
			panic("convert failed")
		}
		return i, nil
	})
	copies := conv.Copy(2)

	func() {
		defer func() { _ = recover() }() // what streamReaderWithConvert/childStreamReader.toStream do
		_, _ = copies[0].Recv()
	}()
	copies[0].Close()

	v, err := copies[1].Recv()
	t.Logf("second child, 1st Recv after the panic: %v, %v", v, err) // 0, <nil>: a chunk that never existed
	v, err = copies[1].Recv()
	t.Logf("second child, 2nd Recv after the panic: %v, %v", v, err) // recv after stream closed (it was never closed)
	copies[1].Close()

	select {
	case <-released:
	case <-time.After(2 * time.Second):
		t.Fatal("both copies are closed but the source reader was not: the writer is still blocked in Send")
	}
}
