package react

import (
	"context"
	"math"
	"runtime"
	"testing"

	"github.com/cloudwego/eino/components/model"
	"github.com/cloudwego/eino/components/tool"
	"github.com/cloudwego/eino/compose"
	"github.com/cloudwego/eino/schema"
)

type hmModel struct{}

func (hmModel) WithTools([]*schema.ToolInfo) (model.ToolCallingChatModel, error) { return hmModel{}, nil }

func (hmModel) Generate(context.Context, []*schema.Message, ...model.Option) (*schema.Message, error) {
	return schema.AssistantMessage("done", nil), nil
}

func (hmModel) Stream(context.Context, []*schema.Message, ...model.Option) (*schema.StreamReader[*schema.Message], error) {
	return schema.StreamReaderFromArray([]*schema.Message{schema.AssistantMessage("done", nil)}), nil
}

type hmTool struct{}

func (hmTool) Info(context.Context) (*schema.ToolInfo, error) {
	return &schema.ToolInfo{Name: "t", Desc: "t"}, nil
}

func (hmTool) InvokableRun(context.Context, string, ...tool.Option) (string, error) { return "", nil }

func hmAgent(t *testing.T, maxStep int) *Agent {
	ag, err := NewAgent(context.Background(), &AgentConfig{
		ToolCallingModel: hmModel{},
		ToolsConfig:      compose.ToolsNodeConfig{Tools: []tool.BaseTool{hmTool{}}},
		MaxStep:          maxStep,
	})
	if err != nil {
		t.Fatal(err)
	}
	return ag
}

// "No limit to speak of": the engine accepts any positive step limit (compose.WithMaxRunSteps(math.MaxInt) runs
// fine), the agent does not: it panics out of Generate / Stream, the model is never called.
func TestMaxStepMaxInt(t *testing.T) {
	for _, stream := range []bool{false, true} {
		func() {
			defer func() {
				if p := recover(); p != nil {
					t.Errorf("stream=%v: the run panicked: %v", stream, p)
				}
			}()
			ag := hmAgent(t, math.MaxInt)
			in := []*schema.Message{schema.UserMessage("hi")}
			if !stream {
				out, err := ag.Generate(context.Background(), in)
				if err != nil || out.Content != "done" {
					t.Errorf("Generate: %v, %v", out, err)
				}
				return
			}
			sr, err := ag.Stream(context.Background(), in)
			if err != nil {
				t.Errorf("Stream: %v", err)
				return
			}
			out, err := sr.Recv()
			sr.Close()
			if err != nil || out.Content != "done" {
				t.Errorf("Stream: %v, %v", out, err)
			}
		}()
	}
}

// A large but harmless limit: every run of a one-step conversation allocates memory proportional to MaxStep
// (8 bytes per step: 512 MiB for 1<<26 steps), before the model is even called.
func TestMaxStepLargeAllocatesPerRun(t *testing.T) {
	ag := hmAgent(t, 1<<26)
	in := []*schema.Message{schema.UserMessage("hi")}

	var before, after runtime.MemStats
	runtime.ReadMemStats(&before)
	out, err := ag.Generate(context.Background(), in)
	runtime.ReadMemStats(&after)
	if err != nil || out.Content != "done" {
		t.Fatalf("Generate: %v, %v", out, err)
	}
	if grown := after.TotalAlloc - before.TotalAlloc; grown > 64<<20 {
		t.Errorf("one model call, no tool call, and the run allocated %d MiB", grown>>20)
	}
}
