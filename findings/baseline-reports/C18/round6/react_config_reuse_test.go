package react

import (
	"context"
	"sync"
	"testing"

	"github.com/cloudwego/eino/components/model"
	"github.com/cloudwego/eino/components/tool"
	"github.com/cloudwego/eino/compose"
	"github.com/cloudwego/eino/schema"
)

type crModel struct {
	mu    sync.Mutex
	calls int
}

func (m *crModel) WithTools([]*schema.ToolInfo) (model.ToolCallingChatModel, error) { return m, nil }

func (m *crModel) Generate(context.Context, []*schema.Message, ...model.Option) (*schema.Message, error) {
	m.mu.Lock()
	defer m.mu.Unlock()
	m.calls++
	if m.calls == 1 {
		return schema.AssistantMessage("", []schema.ToolCall{{ID: "c1", Function: schema.FunctionCall{Name: "direct", Arguments: "{}"}}}), nil
	}
	return schema.AssistantMessage("the model spoke again", nil), nil
}

func (m *crModel) Stream(ctx context.Context, in []*schema.Message, o ...model.Option) (*schema.StreamReader[*schema.Message], error) {
	msg, err := m.Generate(ctx, in, o...)
	if err != nil {
		return nil, err
	}
	return schema.StreamReaderFromArray([]*schema.Message{msg}), nil
}

type crTool struct{}

func (crTool) Info(context.Context) (*schema.ToolInfo, error) {
	return &schema.ToolInfo{Name: "direct", Desc: "direct"}, nil
}

func (crTool) InvokableRun(context.Context, string, ...tool.Option) (string, error) {
	return "tool result", nil
}

// One config value, two agents: the first with a return-directly tool, the second (built from the same struct
// after changing the field) without. The first agent must keep behaving the way it was built.
func TestAgentKeepsItsReturnDirectlySet(t *testing.T) {
	ctx := context.Background()
	m1 := &crModel{}
	cfg := &AgentConfig{
		ToolCallingModel:   m1,
		ToolsConfig:        compose.ToolsNodeConfig{Tools: []tool.BaseTool{crTool{}}},
		MaxStep:            10,
		ToolReturnDirectly: map[string]struct{}{"direct": {}},
	}
	first, err := NewAgent(ctx, cfg)
	if err != nil {
		t.Fatal(err)
	}

	// reuse the struct for a second agent that returns nothing directly
	cfg.ToolCallingModel = &crModel{}
	cfg.ToolReturnDirectly = nil
	if _, err = NewAgent(ctx, cfg); err != nil {
		t.Fatal(err)
	}

	out, err := first.Generate(ctx, []*schema.Message{schema.UserMessage("hi")})
	if err != nil {
		t.Fatal(err)
	}
	if out.Role != schema.Tool || out.Content != "tool result" || m1.calls != 1 {
		t.Errorf("the first agent was built with the tool marked return-directly, but answered %q (role %s) after %d model calls",
			out.Content, out.Role, m1.calls)
	}
}
