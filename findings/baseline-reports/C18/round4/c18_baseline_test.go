package react

import (
	"context"
	"errors"
	"fmt"
	"strings"
	"sync"
	"testing"
	"time"

	"github.com/cloudwego/eino/components/model"
	"github.com/cloudwego/eino/components/tool"
	"github.com/cloudwego/eino/compose"
	"github.com/cloudwego/eino/schema"
)

// ---------- shared helpers ----------

type c18bModel struct {
	mu     sync.Mutex
	script []*schema.Message // the last one is repeated for ever
	n      int
	seen   []string
}

func c18bRender(in []*schema.Message) string {
	var sb strings.Builder
	for i, m := range in {
		if i > 0 {
			sb.WriteString(" | ")
		}
		if m == nil {
			sb.WriteString("<nil message>")
			continue
		}
		fmt.Fprintf(&sb, "%s:%q", m.Role, m.Content)
		for _, tc := range m.ToolCalls {
			fmt.Fprintf(&sb, " call(%q %s)", tc.ID, tc.Function.Name)
		}
		if m.Role == schema.Tool {
			fmt.Fprintf(&sb, " for(%q)", m.ToolCallID)
		}
	}
	return sb.String()
}

func (m *c18bModel) step(in []*schema.Message) *schema.Message {
	m.mu.Lock()
	defer m.mu.Unlock()
	m.seen = append(m.seen, c18bRender(in))
	k := m.n
	m.n++
	if k >= len(m.script) {
		k = len(m.script) - 1
	}
	cp := *m.script[k]
	return &cp
}

func (m *c18bModel) Generate(_ context.Context, in []*schema.Message, _ ...model.Option) (*schema.Message, error) {
	return m.step(in), nil
}

func (m *c18bModel) Stream(_ context.Context, in []*schema.Message, _ ...model.Option) (*schema.StreamReader[*schema.Message], error) {
	return schema.StreamReaderFromArray([]*schema.Message{m.step(in)}), nil
}

func (m *c18bModel) WithTools([]*schema.ToolInfo) (model.ToolCallingChatModel, error) { return m, nil }

type c18bInvTool struct{ name string }

func (t c18bInvTool) Info(context.Context) (*schema.ToolInfo, error) {
	return &schema.ToolInfo{Name: t.name}, nil
}

func (t c18bInvTool) InvokableRun(_ context.Context, args string, _ ...tool.Option) (string, error) {
	return "result of " + t.name, nil
}

func c18bRun(t *testing.T, a *Agent, mode string) (string, error) {
	type res struct {
		s   string
		err error
	}
	done := make(chan res, 1)
	go func() {
		ctx := context.Background()
		in := []*schema.Message{schema.UserMessage("q")}
		var msg *schema.Message
		var err error
		if mode == "generate" {
			msg, err = a.Generate(ctx, in)
		} else {
			var sr *schema.StreamReader[*schema.Message]
			sr, err = a.Stream(ctx, in)
			if err == nil {
				msg, err = schema.ConcatMessageStream(sr)
			}
		}
		if err != nil {
			done <- res{"", err}
			return
		}
		done <- res{string(msg.Role) + ":" + msg.Content, nil}
	}()
	select {
	case r := <-done:
		return r.s, r.err
	case <-time.After(10 * time.Second):
		t.Fatalf("%s: agent did not finish", mode)
		return "", nil
	}
}

// ---------- B1: a return-directly tool whose call carries no ID is not returned directly ----------
//
// Providers that do not number their tool calls (ID == "") are common (several Ollama / Gemini style adapters).
// The agent remembers "which call must be returned directly" as the call's ID and tests it with len(id) > 0,
// so for an ID-less call the return-directly tool is executed but its result is NOT returned: the agent goes back
// to the model (and, if the model keeps asking for that tool, runs into the step limit).

func TestC18BaselineReturnDirectlyWithEmptyToolCallID(t *testing.T) {
	for _, mode := range []string{"generate", "stream"} {
		t.Run(mode, func(t *testing.T) {
			m := &c18bModel{script: []*schema.Message{
				schema.AssistantMessage("", []schema.ToolCall{{ID: "", Type: "function",
					Function: schema.FunctionCall{Name: "finish", Arguments: `{}`}}}),
			}}
			a, err := NewAgent(context.Background(), &AgentConfig{
				ToolCallingModel:   m,
				ToolsConfig:        compose.ToolsNodeConfig{Tools: []tool.BaseTool{c18bInvTool{"finish"}}},
				MaxStep:            8,
				ToolReturnDirectly: map[string]struct{}{"finish": {}},
			})
			if err != nil {
				t.Fatal(err)
			}
			ans, err := c18bRun(t, a, mode)
			if err != nil {
				t.Fatalf("want the result of the return-directly tool, got error %v (step limit: %v); model was called %d times",
					err, errors.Is(err, compose.ErrExceedMaxSteps), m.n)
			}
			if ans != "tool:result of finish" {
				t.Errorf("answer %q, want the tool result", ans)
			}
			if m.n != 1 {
				t.Errorf("model called %d times, want 1", m.n)
			}
		})
	}
}

// ---------- B2: a streaming tool that produces no chunk ----------
//
// Generate fails ("stream reader is empty, concat fail"), Stream silently succeeds and hands the model a history
// that contains a nil *schema.Message where the tool result should be (when another call of the same assistant
// message did produce output).

type c18bSilentStreamTool struct{}

func (c18bSilentStreamTool) Info(context.Context) (*schema.ToolInfo, error) {
	return &schema.ToolInfo{Name: "silent"}, nil
}

func (c18bSilentStreamTool) StreamableRun(context.Context, string, ...tool.Option) (*schema.StreamReader[string], error) {
	return schema.StreamReaderFromArray([]string{}), nil
}

func TestC18BaselineStreamingToolWithoutChunks(t *testing.T) {
	answers := map[string]string{}
	for _, mode := range []string{"generate", "stream"} {
		m := &c18bModel{script: []*schema.Message{
			schema.AssistantMessage("", []schema.ToolCall{
				{ID: "c1", Type: "function", Function: schema.FunctionCall{Name: "loud", Arguments: `{}`}},
				{ID: "c2", Type: "function", Function: schema.FunctionCall{Name: "silent", Arguments: `{}`}},
			}),
			schema.AssistantMessage("bye", nil),
		}}
		a, err := NewAgent(context.Background(), &AgentConfig{
			ToolCallingModel: m,
			ToolsConfig:      compose.ToolsNodeConfig{Tools: []tool.BaseTool{c18bInvTool{"loud"}, c18bSilentStreamTool{}}},
			MaxStep:          8,
		})
		if err != nil {
			t.Fatal(err)
		}
		ans, err := c18bRun(t, a, mode)
		answers[mode] = fmt.Sprintf("answer=%q err=%v", ans, err != nil)
		t.Logf("%s: answer=%q err=%v\n   model inputs: %v", mode, ans, err, m.seen)
		for _, s := range m.seen {
			if strings.Contains(s, "<nil message>") {
				t.Errorf("%s: the model was handed a nil message: %s", mode, s)
			}
		}
	}
	if answers["generate"] != answers["stream"] {
		t.Errorf("Generate and Stream disagree: generate{%s} stream{%s}", answers["generate"], answers["stream"])
	}
}

// ---------- B3 (weaker): the agent keeps reading the caller's AgentConfig after NewAgent ----------
//
// NewAgent captures the *AgentConfig pointer and re-reads config.ToolReturnDirectly on every run, while the graph
// shape (with / without the direct-return node) was fixed at construction. Re-using one config value to build a
// second agent with a different return-directly set silently changes the first agent.

func TestC18BaselineConfigReadAfterNewAgent(t *testing.T) {
	m := &c18bModel{script: []*schema.Message{
		schema.AssistantMessage("", []schema.ToolCall{{ID: "c1", Type: "function",
			Function: schema.FunctionCall{Name: "finish", Arguments: `{}`}}}),
		schema.AssistantMessage("model answer", nil),
	}}
	cfg := &AgentConfig{
		ToolCallingModel:   m,
		ToolsConfig:        compose.ToolsNodeConfig{Tools: []tool.BaseTool{c18bInvTool{"finish"}}},
		MaxStep:            8,
		ToolReturnDirectly: map[string]struct{}{"finish": {}},
	}
	a, err := NewAgent(context.Background(), cfg)
	if err != nil {
		t.Fatal(err)
	}

	// the caller re-uses the config value for another agent that has no return-directly tool
	cfg.ToolReturnDirectly = nil
	if _, err = NewAgent(context.Background(), cfg); err != nil {
		t.Fatal(err)
	}

	ans, err := c18bRun(t, a, "generate")
	if err != nil {
		t.Fatal(err)
	}
	if ans != "tool:result of finish" {
		t.Errorf("first agent answered %q, want the result of its return-directly tool", ans)
	}
}
