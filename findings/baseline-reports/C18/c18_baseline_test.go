package react

import (
	"context"
	"errors"
	"fmt"
	"io"
	"reflect"
	"strings"
	"testing"

	"github.com/cloudwego/eino/components/model"
	"github.com/cloudwego/eino/components/tool"
	"github.com/cloudwego/eino/compose"
	"github.com/cloudwego/eino/schema"
)

// c18bModel replays a fixed script of assistant messages (one per call) and records what every call saw.
type c18bModel struct {
	script []*schema.Message
	seen   [][]string
}

func c18bRender(ms []*schema.Message) []string {
	out := make([]string, 0, len(ms))
	for _, m := range ms {
		if m == nil {
			out = append(out, "<nil message>")
			continue
		}
		var tcs []string
		for _, tc := range m.ToolCalls {
			tcs = append(tcs, fmt.Sprintf("%s=%s(%s)", tc.ID, tc.Function.Name, tc.Function.Arguments))
		}
		out = append(out, fmt.Sprintf("%s|%q|%s|%s", m.Role, m.Content, m.ToolCallID, strings.Join(tcs, ",")))
	}
	return out
}

func (m *c18bModel) next(in []*schema.Message) (*schema.Message, error) {
	m.seen = append(m.seen, c18bRender(in))
	if len(m.seen) > len(m.script) {
		return nil, fmt.Errorf("model called %d times, script has only %d messages", len(m.seen), len(m.script))
	}
	return m.script[len(m.seen)-1], nil
}

func (m *c18bModel) Generate(_ context.Context, in []*schema.Message, _ ...model.Option) (*schema.Message, error) {
	return m.next(in)
}

func (m *c18bModel) Stream(_ context.Context, in []*schema.Message, _ ...model.Option) (*schema.StreamReader[*schema.Message], error) {
	msg, err := m.next(in)
	if err != nil {
		return nil, err
	}
	return schema.StreamReaderFromArray([]*schema.Message{msg}), nil
}

func (m *c18bModel) WithTools(_ []*schema.ToolInfo) (model.ToolCallingChatModel, error) {
	return m, nil
}

type c18bInvokable struct{ name, answer string }

func (t *c18bInvokable) Info(_ context.Context) (*schema.ToolInfo, error) {
	return &schema.ToolInfo{Name: t.name, Desc: t.name}, nil
}

func (t *c18bInvokable) InvokableRun(_ context.Context, _ string, _ ...tool.Option) (string, error) {
	return t.answer, nil
}

// c18bStreamable is a streaming-only tool emitting fixed chunks (possibly none at all).
type c18bStreamable struct {
	name   string
	chunks []string
}

func (t *c18bStreamable) Info(_ context.Context) (*schema.ToolInfo, error) {
	return &schema.ToolInfo{Name: t.name, Desc: t.name}, nil
}

func (t *c18bStreamable) StreamableRun(_ context.Context, _ string, _ ...tool.Option) (*schema.StreamReader[string], error) {
	return schema.StreamReaderFromArray(t.chunks), nil
}

func c18bCall(id, name string) schema.ToolCall {
	return schema.ToolCall{ID: id, Function: schema.FunctionCall{Name: name, Arguments: "{}"}}
}

func c18bRun(stream bool, cfg *AgentConfig) (string, error) {
	ctx := context.Background()
	a, err := NewAgent(ctx, cfg)
	if err != nil {
		return "", err
	}
	in := []*schema.Message{schema.UserMessage("go")}
	if !stream {
		out, err := a.Generate(ctx, in)
		if err != nil {
			return "", err
		}
		return c18bRender([]*schema.Message{out})[0], nil
	}
	sr, err := a.Stream(ctx, in)
	if err != nil {
		return "", err
	}
	defer sr.Close()
	var chunks []*schema.Message
	for {
		c, err := sr.Recv()
		if errors.Is(err, io.EOF) {
			break
		}
		if err != nil {
			return "", err
		}
		chunks = append(chunks, c)
	}
	if len(chunks) == 0 {
		return "", errors.New("agent output stream has no chunk at all")
	}
	out := chunks[0]
	if len(chunks) > 1 {
		if out, err = schema.ConcatMessages(chunks); err != nil {
			return "", err
		}
	}
	return c18bRender([]*schema.Message{out})[0], nil
}

// Defect 1: a streaming tool whose stream ends without a single chunk.
//
// Generate rejects the run ("stream reader is empty, concat fail"), but Stream - when the empty tool is called
// next to another tool - silently hands the model a history that contains a nil *schema.Message in the place of
// the tool result, and carries on. Whatever the intended treatment of an empty tool stream is (error, or an empty
// tool message), the two entry points disagree, and no model call may ever see a nil message.
func TestC18BaselineEmptyToolStream(t *testing.T) {
	newCfg := func() (*c18bModel, *AgentConfig) {
		m := &c18bModel{script: []*schema.Message{
			schema.AssistantMessage("", []schema.ToolCall{c18bCall("id-1", "echo"), c18bCall("id-2", "silent_stream")}),
			schema.AssistantMessage("done", nil),
		}}
		return m, &AgentConfig{
			ToolCallingModel: m,
			ToolsConfig: compose.ToolsNodeConfig{Tools: []tool.BaseTool{
				&c18bInvokable{"echo", "pong"},
				&c18bStreamable{"silent_stream", nil},
			}},
		}
	}

	gm, gcfg := newCfg()
	gOut, gErr := c18bRun(false, gcfg)
	sm, scfg := newCfg()
	sOut, sErr := c18bRun(true, scfg)
	t.Logf("Generate: out=%s err=%v\n  model calls saw %q", gOut, gErr, gm.seen)
	t.Logf("Stream:   out=%s err=%v\n  model calls saw %q", sOut, sErr, sm.seen)

	for _, call := range sm.seen {
		for _, msg := range call {
			if msg == "<nil message>" {
				t.Errorf("Stream: a model call received a nil *schema.Message in its input: %q", call)
			}
		}
	}
	if (gErr == nil) != (sErr == nil) || gOut != sOut || !reflect.DeepEqual(gm.seen, sm.seen) {
		t.Errorf("Generate and Stream disagree: Generate (out=%s err=%v, %d model calls), Stream (out=%s err=%v, %d model calls)",
			gOut, gErr, len(gm.seen), sOut, sErr, len(sm.seen))
	}
}

// Defect 2: a return-directly tool is not returned directly when the model's tool call carries no ID.
//
// The agent remembers "which call must be returned" as state.ReturnDirectlyToolCallID and treats the empty string as
// "none", so for a tool call with ID "" (several providers / local models leave ToolCall.ID empty, and nothing in
// eino requires it to be set: the tools node happily executes such calls) the tool marked return-directly runs, but
// its result is fed back into the model and the agent goes on instead of stopping.
func TestC18BaselineReturnDirectlyWithEmptyToolCallID(t *testing.T) {
	for _, stream := range []bool{false, true} {
		mode := "Generate"
		if stream {
			mode = "Stream"
		}
		t.Run(mode, func(t *testing.T) {
			m := &c18bModel{script: []*schema.Message{
				schema.AssistantMessage("", []schema.ToolCall{c18bCall("", "final")}),
				schema.AssistantMessage("the model was called again", nil),
			}}
			out, err := c18bRun(stream, &AgentConfig{
				ToolCallingModel: m,
				ToolsConfig: compose.ToolsNodeConfig{Tools: []tool.BaseTool{
					&c18bInvokable{"final", "final answer"},
				}},
				ToolReturnDirectly: map[string]struct{}{"final": {}},
			})
			if err != nil {
				t.Fatal(err)
			}
			if len(m.seen) != 1 {
				t.Errorf("model called %d times, want 1 (the tool is marked return-directly); calls saw %q", len(m.seen), m.seen)
			}
			if want := `tool|"final answer"||`; out != want {
				t.Errorf("agent returned %s, want the return-directly tool result %s", out, want)
			}
		})
	}
}
