package react

import (
	"context"
	"errors"
	"fmt"
	"io"
	"math"
	"sync"
	"testing"

	"github.com/cloudwego/eino/components/model"
	"github.com/cloudwego/eino/components/tool"
	"github.com/cloudwego/eino/compose"
	"github.com/cloudwego/eino/schema"
)

// c18bModel replays a script: the k-th call answers with script[k] (one chunk per message here).
type c18bModel struct {
	mu     sync.Mutex
	script []*schema.Message
	calls  int
}

func (m *c18bModel) WithTools(_ []*schema.ToolInfo) (model.ToolCallingChatModel, error) {
	return m, nil
}

func (m *c18bModel) next() (*schema.Message, error) {
	m.mu.Lock()
	defer m.mu.Unlock()
	if m.calls >= len(m.script) {
		return nil, fmt.Errorf("script exhausted at model call %d", m.calls)
	}
	cp := *m.script[m.calls]
	m.calls++
	return &cp, nil
}

func (m *c18bModel) Generate(_ context.Context, _ []*schema.Message, _ ...model.Option) (*schema.Message, error) {
	return m.next()
}

func (m *c18bModel) Stream(_ context.Context, _ []*schema.Message, _ ...model.Option) (*schema.StreamReader[*schema.Message], error) {
	msg, err := m.next()
	if err != nil {
		return nil, err
	}
	return schema.StreamReaderFromArray([]*schema.Message{msg}), nil
}

type c18bTool struct{ name string }

func (e *c18bTool) Info(context.Context) (*schema.ToolInfo, error) {
	return &schema.ToolInfo{Name: e.name, Desc: e.name}, nil
}

func (e *c18bTool) InvokableRun(_ context.Context, args string, _ ...tool.Option) (string, error) {
	return e.name + "(" + args + ")", nil
}

func c18bDrain(sr *schema.StreamReader[*schema.Message]) (*schema.Message, error) {
	defer sr.Close()
	var msgs []*schema.Message
	for {
		m, err := sr.Recv()
		if errors.Is(err, io.EOF) {
			break
		}
		if err != nil {
			return nil, err
		}
		msgs = append(msgs, m)
	}
	if len(msgs) == 0 {
		return nil, errors.New("the agent's stream carried no chunk")
	}
	if len(msgs) == 1 {
		return msgs[0], nil
	}
	return schema.ConcatMessages(msgs)
}

// c18bRun runs the agent once in the given mode; a panic of the run is reported as an error.
func c18bRun(mode string, cfg *AgentConfig) (out *schema.Message, modelCalls int, err error) {
	ctx := context.Background()
	m := cfg.ToolCallingModel.(*c18bModel)
	defer func() {
		if p := recover(); p != nil {
			err = fmt.Errorf("the run panicked: %v", p)
		}
		modelCalls = m.calls
	}()
	a, err := NewAgent(ctx, cfg)
	if err != nil {
		return nil, 0, err
	}
	in := []*schema.Message{schema.UserMessage("hi")}
	if mode == "generate" {
		out, err = a.Generate(ctx, in)
		return out, 0, err
	}
	sr, err := a.Stream(ctx, in)
	if err != nil {
		return nil, 0, err
	}
	out, err = c18bDrain(sr)
	return out, 0, err
}

func c18bCall(id, name, args string) schema.ToolCall {
	return schema.ToolCall{ID: id, Type: "function", Function: schema.FunctionCall{Name: name, Arguments: args}}
}

// (1) A model that leaves the tool-call id empty (several providers do): the call of a tool marked return-directly
// must still end the run with that tool's result. On the unmodified tree the mark is lost (it is keyed on the call id,
// and "" means "no return-directly call"), the model is called again and its next message is returned.
func TestC18BaselineReturnDirectlyWithEmptyCallID(t *testing.T) {
	for _, mode := range []string{"generate", "stream"} {
		cfg := &AgentConfig{
			ToolCallingModel: &c18bModel{script: []*schema.Message{
				schema.AssistantMessage("", []schema.ToolCall{c18bCall("", "b", `{"q":1}`)}),
				schema.AssistantMessage("the model was asked again", nil),
			}},
			ToolsConfig:        compose.ToolsNodeConfig{Tools: []tool.BaseTool{&c18bTool{"a"}, &c18bTool{"b"}}},
			ToolReturnDirectly: map[string]struct{}{"b": {}},
			MaxStep:            10,
		}
		out, calls, err := c18bRun(mode, cfg)
		if err != nil {
			t.Errorf("%s: %v", mode, err)
			continue
		}
		if out.Role != schema.Tool || out.Content != `b({"q":1})` || calls != 1 {
			t.Errorf("%s: got %s message %q after %d model call(s), want the result of the return-directly tool b({\"q\":1}) after 1",
				mode, out.Role, out.Content, calls)
		}
	}
}

// (2) Two calls of one assistant message carry the same id (an id the model repeats, or two empty ids are the common
// case of this), the second one is the return-directly tool. The result that is returned must be the one of the
// return-directly tool, and the same in both modes. On the unmodified tree Generate returns the result of the OTHER
// tool (first message with that id) and Stream returns both results glued together.
func TestC18BaselineReturnDirectlyWithRepeatedCallID(t *testing.T) {
	got := map[string]string{}
	for _, mode := range []string{"generate", "stream"} {
		cfg := &AgentConfig{
			ToolCallingModel: &c18bModel{script: []*schema.Message{
				schema.AssistantMessage("", []schema.ToolCall{c18bCall("x", "a", `{"p":0}`), c18bCall("x", "b", `{"q":1}`)}),
				schema.AssistantMessage("the model was asked again", nil),
			}},
			ToolsConfig:        compose.ToolsNodeConfig{Tools: []tool.BaseTool{&c18bTool{"a"}, &c18bTool{"b"}}},
			ToolReturnDirectly: map[string]struct{}{"b": {}},
			MaxStep:            10,
		}
		out, _, err := c18bRun(mode, cfg)
		if err != nil {
			t.Errorf("%s: %v", mode, err)
			continue
		}
		got[mode] = out.Content
		if out.Content != `b({"q":1})` {
			t.Errorf("%s: returned %q, want the result of the return-directly tool b({\"q\":1})", mode, out.Content)
		}
	}
	if got["generate"] != got["stream"] {
		t.Errorf("Generate returned %q but Stream returned %q", got["generate"], got["stream"])
	}
}

// (3) A step limit meaning "practically unlimited": the agent must answer (the script needs one model call), or at the
// very least fail with an error. On the unmodified tree every run panics: the history buffer is allocated with
// capacity MaxStep+1 ("makeslice: cap out of range" in Generate; in Stream that panic is replaced by a second one,
// "interface conversion: interface is nil, not compose.streamReader", raised by the deferred graph-end callback code).
func TestC18BaselineHugeStepLimit(t *testing.T) {
	for _, limit := range []int{math.MaxInt, math.MaxInt - 1, math.MaxInt / 4} {
		for _, mode := range []string{"generate", "stream"} {
			cfg := &AgentConfig{
				ToolCallingModel: &c18bModel{script: []*schema.Message{schema.AssistantMessage("done", nil)}},
				ToolsConfig:      compose.ToolsNodeConfig{Tools: []tool.BaseTool{&c18bTool{"a"}}},
				MaxStep:          limit,
			}
			out, _, err := c18bRun(mode, cfg)
			if err != nil {
				t.Errorf("MaxStep=%d %s: %v", limit, mode, err)
				continue
			}
			if out.Content != "done" {
				t.Errorf("MaxStep=%d %s: got %q, want \"done\"", limit, mode, out.Content)
			}
		}
	}
}

// (4) (weaker) The return-directly set is read from the caller's AgentConfig at every run instead of being taken at
// NewAgent like every other field (tools, modifier, checker, step limit of the compiled graph): reusing the config
// value to build a second agent changes the behaviour of the first one.
func TestC18BaselineReturnDirectlySetIsNotSnapshotted(t *testing.T) {
	for _, mode := range []string{"generate", "stream"} {
		cfg := &AgentConfig{
			ToolCallingModel: &c18bModel{script: []*schema.Message{
				schema.AssistantMessage("", []schema.ToolCall{c18bCall("y", "b", `{"q":1}`)}),
				schema.AssistantMessage("the model was asked again", nil),
			}},
			ToolsConfig:        compose.ToolsNodeConfig{Tools: []tool.BaseTool{&c18bTool{"a"}, &c18bTool{"b"}}},
			ToolReturnDirectly: map[string]struct{}{"b": {}},
			MaxStep:            10,
		}
		ctx := context.Background()
		first, err := NewAgent(ctx, cfg)
		if err != nil {
			t.Fatal(err)
		}
		// the caller goes on to build another agent, without return-directly tools, from the same config value
		cfg.ToolReturnDirectly = nil
		if _, err = NewAgent(ctx, cfg); err != nil {
			t.Fatal(err)
		}

		in := []*schema.Message{schema.UserMessage("hi")}
		var out *schema.Message
		if mode == "generate" {
			out, err = first.Generate(ctx, in)
		} else {
			var sr *schema.StreamReader[*schema.Message]
			if sr, err = first.Stream(ctx, in); err == nil {
				out, err = c18bDrain(sr)
			}
		}
		if err != nil {
			t.Errorf("%s: %v", mode, err)
			continue
		}
		if out.Content != `b({"q":1})` {
			t.Errorf("%s: the first agent (built with return-directly tool b) returned %q, want b({\"q\":1})", mode, out.Content)
		}
	}
}
