package compose

import (
	"context"
	"sync"
	"testing"
)

// Run with -race.
// A graph may be compiled more than once (the bundled agents do it: NewAgent compiles the graph, and
// ExportGraph hands the same graph to a parent graph which compiles it again). A runnable compiled earlier
// must stay safe to run while that happens: compiling must not write to objects the earlier runnable reads.
func TestC09Baseline_RunWhileTheGraphIsCompiledAgain(t *testing.T) {
	ctx := context.Background()

	g := NewGraph[string, string]()
	if err := g.AddLambdaNode("n", InvokableLambda(func(ctx context.Context, in string) (string, error) {
		return in + "!", nil
	}), WithNodeName("n")); err != nil {
		t.Fatal(err)
	}
	_ = g.AddEdge(START, "n")
	_ = g.AddEdge("n", END)

	r, err := g.Compile(ctx)
	if err != nil {
		t.Fatal(err)
	}

	var wg sync.WaitGroup
	stop := make(chan struct{})
	wg.Add(1)
	go func() {
		defer wg.Done()
		for {
			select {
			case <-stop:
				return
			default:
			}
			out, err := r.Invoke(ctx, "x")
			if err != nil || out != "x!" {
				t.Errorf("run: %q %v", out, err)
				return
			}
		}
	}()

	// the same graph used as a node of a parent graph, as ExportGraph of the agents allows
	for i := 0; i < 50; i++ {
		parent := NewGraph[string, string]()
		_ = parent.AddGraphNode("sub", g)
		_ = parent.AddEdge(START, "sub")
		_ = parent.AddEdge("sub", END)
		if _, err := parent.Compile(ctx); err != nil {
			t.Fatal(err)
		}
	}
	close(stop)
	wg.Wait()
}
