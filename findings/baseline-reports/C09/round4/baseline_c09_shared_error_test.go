package compose

import (
	"context"
	"errors"
	"sync"
	"testing"
)

// A node may legitimately return the same error value in several runs: the result of a shared / memoised /
// single-flighted call. If that call was an eino runnable, the value is an eino *internalError, and the enclosing
// graph "wraps" it by prepending its node key IN PLACE (wrapGraphNodeError, wrapStreamWrapperError): every run
// writes to the one error object all the runs (and all the callers that already got it) share.

var errC09Backend = errors.New("backend down")

func c09BaselineOuter(t *testing.T) Runnable[string, string] {
	t.Helper()
	ctx := context.Background()

	// the shared dependency: a compiled chain whose only node fails
	innerChain := NewChain[string, string]().AppendLambda(InvokableLambda(func(context.Context, string) (string, error) {
		return "", errC09Backend
	}), WithNodeKey("load"))
	inner, err := innerChain.Compile(ctx)
	if err != nil {
		t.Fatal(err)
	}

	// the node memoises the outcome of the dependency (sync.Once here; singleflight or a result cache behave the same)
	var (
		once      sync.Once
		cachedOut string
		cachedErr error
	)
	outer := NewGraph[string, string]()
	if err = outer.AddLambdaNode("resource", InvokableLambda(func(ctx context.Context, in string) (string, error) {
		once.Do(func() { cachedOut, cachedErr = inner.Invoke(ctx, in) })
		return cachedOut, cachedErr
	})); err != nil {
		t.Fatal(err)
	}
	if err = outer.AddEdge(START, "resource"); err != nil {
		t.Fatal(err)
	}
	if err = outer.AddEdge("resource", END); err != nil {
		t.Fatal(err)
	}
	r, err := outer.Compile(ctx)
	if err != nil {
		t.Fatal(err)
	}
	return r
}

// sequential: fails on the unmodified tree without any goroutine
func TestC09Baseline_SharedNodeErrorIsExtendedInPlace(t *testing.T) {
	ctx := context.Background()
	r := c09BaselineOuter(t)

	_, err1 := r.Invoke(ctx, "in")
	if !errors.Is(err1, errC09Backend) {
		t.Fatalf("run 1: want the backend error, got %v", err1)
	}
	alone := err1.Error()

	for i := 2; i <= 3; i++ {
		_, err := r.Invoke(ctx, "in")
		if !errors.Is(err, errC09Backend) {
			t.Fatalf("run %d: want the backend error, got %v", i, err)
		}
		if got := err.Error(); got != alone {
			t.Errorf("run %d does not report what run 1 reported (same graph, same input, same failure):\n--- run 1 ---\n%s\n--- run %d ---\n%s", i, alone, i, got)
		}
	}

	if got := err1.Error(); got != alone {
		t.Errorf("the error already returned to the caller of run 1 was modified by later runs:\n--- when returned ---\n%s\n--- now ---\n%s", alone, got)
	}
}

// concurrent: run with -race, the callers write to the shared error inside wrapGraphNodeError
func TestC09Baseline_SharedNodeErrorIsExtendedInPlace_Concurrent(t *testing.T) {
	ctx := context.Background()
	r := c09BaselineOuter(t)

	const callers = 8
	msgs := make([]string, callers)
	var wg sync.WaitGroup
	for i := 0; i < callers; i++ {
		wg.Add(1)
		go func(i int) {
			defer wg.Done()
			_, e := r.Invoke(ctx, "in")
			if e != nil {
				msgs[i] = e.Error()
			}
		}(i)
	}
	wg.Wait()

	const want = "[NodeRunError]\nbackend down\n------------------------\nnode path: [resource, load]"
	for i, m := range msgs {
		if m != want {
			t.Errorf("caller %d:\n--- want ---\n%s\n--- got ---\n%s", i, want, m)
		}
	}
}
