package react

import (
	"context"
	"io"
	"sync"
	"testing"

	"github.com/cloudwego/eino/components/model"
	"github.com/cloudwego/eino/schema"
)

// NewAgent builds the branch after the chat model as
//
//	modelPostBranchCondition := func(_ context.Context, sr ...) { ... toolCallChecker(ctx, sr) ... }
//
// where ctx is the context NewAgent was called with: every run of the agent hands the user's StreamToolCallChecker
// the constructor's context instead of its own, so all the runs share one context there (its values, its
// cancellation) and none of them sees what its caller put into the context of Generate / Stream.

type c09FakeModel struct{}

func (m *c09FakeModel) Generate(context.Context, []*schema.Message, ...model.Option) (*schema.Message, error) {
	return schema.AssistantMessage("done", nil), nil
}

func (m *c09FakeModel) Stream(context.Context, []*schema.Message, ...model.Option) (*schema.StreamReader[*schema.Message], error) {
	return schema.StreamReaderFromArray([]*schema.Message{schema.AssistantMessage("done", nil)}), nil
}

func (m *c09FakeModel) WithTools([]*schema.ToolInfo) (model.ToolCallingChatModel, error) {
	return m, nil
}

type c09CallerKey struct{}

func TestC09Baseline_StreamToolCallCheckerGetsTheContextOfItsRun(t *testing.T) {
	var (
		mu   sync.Mutex
		seen []any // the caller id the checker finds in its context, per run
		errs []error
	)

	buildCtx, cancelBuild := context.WithCancel(context.Background())
	a, err := NewAgent(buildCtx, &AgentConfig{
		ToolCallingModel: &c09FakeModel{},
		StreamToolCallChecker: func(ctx context.Context, sr *schema.StreamReader[*schema.Message]) (bool, error) {
			defer sr.Close()
			mu.Lock()
			seen = append(seen, ctx.Value(c09CallerKey{}))
			errs = append(errs, ctx.Err())
			mu.Unlock()
			for {
				if _, e := sr.Recv(); e == io.EOF {
					return false, nil
				} else if e != nil {
					return false, e
				}
			}
		},
	})
	if err != nil {
		t.Fatal(err)
	}
	cancelBuild() // construction is over: its context is released, as `defer cancel()` does in an init function

	for _, caller := range []string{"alice", "bob"} {
		runCtx := context.WithValue(context.Background(), c09CallerKey{}, caller)
		out, e := a.Generate(runCtx, []*schema.Message{schema.UserMessage("hi")})
		if e != nil {
			t.Fatalf("%s: %v", caller, e)
		}
		if out.Content != "done" {
			t.Fatalf("%s: got %q", caller, out.Content)
		}
	}

	mu.Lock()
	defer mu.Unlock()
	if len(seen) != 2 {
		t.Fatalf("checker called %d times, want 2", len(seen))
	}
	for i, caller := range []string{"alice", "bob"} {
		if seen[i] != caller {
			t.Errorf("run of %s: the tool call checker got a context carrying caller=%v, want %q", caller, seen[i], caller)
		}
		if errs[i] != nil {
			t.Errorf("run of %s: the tool call checker got a context that is already done (%v) although the run's context is live", caller, errs[i])
		}
	}
}
