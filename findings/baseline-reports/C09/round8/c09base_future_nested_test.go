package react

import (
	"context"
	"testing"
	"time"

	"github.com/cloudwego/eino/components/model"
	"github.com/cloudwego/eino/components/tool"
	"github.com/cloudwego/eino/compose"
	"github.com/cloudwego/eino/schema"
)

// c09baseModel calls the "lookup" tool once, then answers.
type c09baseModel struct{}

func (m *c09baseModel) Generate(_ context.Context, input []*schema.Message, _ ...model.Option) (*schema.Message, error) {
	last := input[len(input)-1]
	if last.Role == schema.Tool {
		return schema.AssistantMessage("model saw: "+last.Content, nil), nil
	}
	return schema.AssistantMessage("", []schema.ToolCall{{
		ID:       "call_" + last.Content,
		Function: schema.FunctionCall{Name: "lookup", Arguments: last.Content},
	}}), nil
}

func (m *c09baseModel) Stream(ctx context.Context, input []*schema.Message, opts ...model.Option) (*schema.StreamReader[*schema.Message], error) {
	msg, _ := m.Generate(ctx, input, opts...)
	return schema.StreamReaderFromArray([]*schema.Message{msg}), nil
}

func (m *c09baseModel) WithTools(_ []*schema.ToolInfo) (model.ToolCallingChatModel, error) {
	return m, nil
}

// a tool that is implemented with a compiled chain of its own, run with the context the tool is given
type c09baseGraphTool struct {
	inner compose.Runnable[string, string]
}

func (c09baseGraphTool) Info(context.Context) (*schema.ToolInfo, error) {
	return &schema.ToolInfo{Name: "lookup", Desc: "looks something up"}, nil
}

func (g c09baseGraphTool) InvokableRun(ctx context.Context, args string, _ ...tool.Option) (string, error) {
	return g.inner.Invoke(ctx, args)
}

func TestC09BaseMessageFutureWithToolRunningAGraph(t *testing.T) {
	ctx := context.Background()
	g := compose.NewGraph[string, string]()
	_ = g.AddLambdaNode("n", compose.InvokableLambda(func(ctx context.Context, in string) (string, error) {
		return "result for " + in, nil
	}))
	_ = g.AddEdge(compose.START, "n")
	_ = g.AddEdge("n", compose.END)
	inner, err := g.Compile(ctx)
	if err != nil {
		t.Fatal(err)
	}

	a, err := NewAgent(ctx, &AgentConfig{
		ToolCallingModel: &c09baseModel{},
		ToolsConfig:      compose.ToolsNodeConfig{Tools: []tool.BaseTool{c09baseGraphTool{inner}}},
		MaxStep:          10,
	})
	if err != nil {
		t.Fatal(err)
	}

	opt, future := WithMessageFuture()
	done := make(chan struct{})
	var out *schema.Message
	go func() {
		defer close(done)
		out, err = a.Generate(ctx, []*schema.Message{schema.UserMessage("A")}, opt)
	}()
	select {
	case <-done:
	case <-time.After(5 * time.Second):
		t.Fatal("timeout")
	}
	if err != nil {
		t.Fatalf("generate: %v", err)
	}
	t.Log(out.Content)

	iter := future.GetMessages()
	n := 0
	for {
		msg, ok, err := iter.Next()
		if !ok {
			break
		}
		if err != nil {
			t.Fatalf("future: %v", err)
		}
		n++
		t.Log(msg.Role, msg.Content, len(msg.ToolCalls))
	}
	if n != 3 {
		t.Fatalf("want 3 messages (tool call, tool result, answer), got %d", n)
	}
}
