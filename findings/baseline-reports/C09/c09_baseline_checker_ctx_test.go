package react

import (
	"context"
	"fmt"
	"sync"
	"testing"

	"github.com/cloudwego/eino/components/model"
	"github.com/cloudwego/eino/schema"
)

type c09BaseModel struct{}

func (m *c09BaseModel) Generate(ctx context.Context, in []*schema.Message, opts ...model.Option) (*schema.Message, error) {
	return schema.AssistantMessage("bye", nil), nil
}

func (m *c09BaseModel) Stream(ctx context.Context, in []*schema.Message, opts ...model.Option) (*schema.StreamReader[*schema.Message], error) {
	return schema.StreamReaderFromArray([]*schema.Message{schema.AssistantMessage("bye", nil)}), nil
}

func (m *c09BaseModel) BindTools(tools []*schema.ToolInfo) error { return nil }

type c09RunIDKey struct{}

// The StreamToolCallChecker of a ReAct agent receives a context. Every run must hand it the context of
// that run (its values, its cancellation); the unmodified agent hands every run the context NewAgent was
// called with.
func TestC09Baseline_ReactToolCallCheckerGetsTheRunContext(t *testing.T) {
	buildCtx, cancelBuild := context.WithCancel(context.WithValue(context.Background(), c09RunIDKey{}, "build"))

	var mu sync.Mutex
	seen := map[string]int{}
	var ctxErrs []error

	a, err := NewAgent(buildCtx, &AgentConfig{
		Model: &c09BaseModel{},
		StreamToolCallChecker: func(ctx context.Context, sr *schema.StreamReader[*schema.Message]) (bool, error) {
			defer sr.Close()
			id, _ := ctx.Value(c09RunIDKey{}).(string)
			mu.Lock()
			seen[id]++
			if ctx.Err() != nil {
				ctxErrs = append(ctxErrs, ctx.Err())
			}
			mu.Unlock()
			return false, nil
		},
	})
	if err != nil {
		t.Fatal(err)
	}
	// the construction context is typically short-lived (an init timeout), it ends once the agent is built.
	cancelBuild()

	const n = 4
	var wg sync.WaitGroup
	for i := 0; i < n; i++ {
		wg.Add(1)
		go func(i int) {
			defer wg.Done()
			runCtx := context.WithValue(context.Background(), c09RunIDKey{}, fmt.Sprintf("run-%d", i))
			if _, err := a.Generate(runCtx, []*schema.Message{schema.UserMessage("hi")}); err != nil {
				t.Errorf("run %d: %v", i, err)
			}
		}(i)
	}
	wg.Wait()

	for i := 0; i < n; i++ {
		if seen[fmt.Sprintf("run-%d", i)] != 1 {
			t.Errorf("the checker of run-%d did not receive the context of that run; contexts seen: %v", i, seen)
		}
	}
	if seen["build"] != 0 {
		t.Errorf("%d runs handed the checker the context NewAgent was built with", seen["build"])
	}
	if len(ctxErrs) != 0 {
		t.Errorf("%d runs handed the checker an already cancelled context although their own context is live: %v", len(ctxErrs), ctxErrs[0])
	}
}
