package compose

import (
	"context"
	"errors"
	"strings"
	"sync/atomic"
	"testing"
	"time"
)

// Reproducers against the UNMODIFIED tree for property C03.

// (1) Eager execution (Workflow): when one node fails, run() returns at once although a sibling node that it started
// is still executing. That execution is never collected (waitOne is never called for it), it goes on running after
// Invoke has returned. The batch mode (same shape as a Graph) does wait for every node of the step before returning
// the error, so the two execution modes disagree on "every started node execution is collected exactly once".
func TestC03BaselineEagerErrorReturnsWhileSiblingStillRuns(t *testing.T) {
	var started, finished int32
	slow := func(ctx context.Context, in string) (string, error) {
		atomic.AddInt32(&started, 1)
		time.Sleep(200 * time.Millisecond)
		atomic.AddInt32(&finished, 1)
		return in, nil
	}
	fail := func(ctx context.Context, in string) (string, error) {
		time.Sleep(20 * time.Millisecond) // let the sibling start
		return "", errors.New("node fault")
	}

	check := func(t *testing.T, r Runnable[string, map[string]any]) {
		atomic.StoreInt32(&started, 0)
		atomic.StoreInt32(&finished, 0)
		_, err := r.Invoke(context.Background(), "x")
		if err == nil {
			t.Fatal("expected an error")
		}
		if s, f := atomic.LoadInt32(&started), atomic.LoadInt32(&finished); s != f {
			t.Fatalf("Invoke returned (%v) while %d started node execution(s) had not finished: never collected", strings.ReplaceAll(err.Error(), "\n", " "), s-f)
		}
	}

	t.Run("batch_graph", func(t *testing.T) {
		g := NewGraph[string, map[string]any]()
		_ = g.AddLambdaNode("slow", InvokableLambda(slow), WithOutputKey("slow"))
		_ = g.AddLambdaNode("fail", InvokableLambda(fail), WithOutputKey("fail"))
		_ = g.AddEdge(START, "slow")
		_ = g.AddEdge(START, "fail")
		_ = g.AddEdge("slow", END)
		_ = g.AddEdge("fail", END)
		r, err := g.Compile(context.Background(), WithNodeTriggerMode(AllPredecessor))
		if err != nil {
			t.Fatal(err)
		}
		check(t, r)
	})

	t.Run("eager_workflow", func(t *testing.T) {
		wf := NewWorkflow[string, map[string]any]()
		wf.AddLambdaNode("slow", InvokableLambda(slow)).AddInput(START)
		wf.AddLambdaNode("fail", InvokableLambda(fail)).AddInput(START)
		wf.End().AddInput("slow", ToField("slow")).AddInput("fail", ToField("fail"))
		r, err := wf.Compile(context.Background())
		if err != nil {
			t.Fatal(err)
		}
		check(t, r)
	})
}

// (2) Batch execution: when two nodes of a step fail, the error that the run reports is the one of the node that
// finished first, i.e. the result of the run depends on the completion order of deterministic node functions.
func TestC03BaselineReportedErrorDependsOnCompletionOrder(t *testing.T) {
	run := func(first string) string {
		aReturned := make(chan struct{})
		bReturned := make(chan struct{})
		g := NewGraph[string, map[string]any]()
		_ = g.AddLambdaNode("A", InvokableLambda(func(ctx context.Context, in string) (string, error) {
			defer close(aReturned)
			if first != "A" {
				<-bReturned
				time.Sleep(50 * time.Millisecond)
			}
			return "", errors.New("fault of A")
		}), WithOutputKey("A"))
		_ = g.AddLambdaNode("B", InvokableLambda(func(ctx context.Context, in string) (string, error) {
			defer close(bReturned)
			if first != "B" {
				<-aReturned
				time.Sleep(50 * time.Millisecond)
			}
			return "", errors.New("fault of B")
		}), WithOutputKey("B"))
		_ = g.AddEdge(START, "A")
		_ = g.AddEdge(START, "B")
		_ = g.AddEdge("A", END)
		_ = g.AddEdge("B", END)
		r, err := g.Compile(context.Background())
		if err != nil {
			t.Fatal(err)
		}
		_, err = r.Invoke(context.Background(), "x")
		if err == nil {
			t.Fatal("expected an error")
		}
		switch {
		case strings.Contains(err.Error(), "fault of A"):
			return "A"
		case strings.Contains(err.Error(), "fault of B"):
			return "B"
		}
		return err.Error()
	}

	whenAFirst, whenBFirst := run("A"), run("B")
	if whenAFirst != whenBFirst {
		t.Fatalf("reported failure depends on the completion order: node %s when A finishes first, node %s when B finishes first", whenAFirst, whenBFirst)
	}
}
