package compose

import (
	"context"
	"fmt"
	"io"
	"testing"
	"time"

	"github.com/cloudwego/eino/schema"
)

// Reproducer for a defect of the UNMODIFIED tree.
//
//	START -> P -> S --branch--> X | Y
//	X reads P's output through a data-only input (WithNoDirectDependency): the documented way to give a branch
//	target its data.
//
// P answers a stream. When P completes, one copy of the stream goes to S and another one is stored in X's channel.
// S reads one chunk, closes its copy and the branch then picks Y: X is skipped. The copy that was stored in X's
// channel BEFORE X was skipped is never closed (dagChannel.reportSkip forgets ch.Values), so P's source stream is
// never closed and its producer stays blocked on Send for ever. A copy that arrives AFTER the skip is closed
// (dagChannel.reportValues), so whether the producer is released depends on whether the value or the skip reaches
// the channel first.
func c03baseRun(t *testing.T, pick string) (released bool, out map[string]any) {
	t.Helper()

	producerDone := make(chan struct{})

	firstChunk := func(ctx context.Context, in *schema.StreamReader[string]) (*schema.StreamReader[string], error) {
		chunk, err := in.Recv()
		in.Close()
		if err != nil && err != io.EOF {
			return nil, err
		}
		return schema.StreamReaderFromArray([]string{chunk}), nil
	}

	wf := NewWorkflow[string, map[string]any]()

	wf.AddLambdaNode("P", StreamableLambda(func(ctx context.Context, in string) (*schema.StreamReader[string], error) {
		sr, sw := schema.Pipe[string](1)
		go func() {
			defer close(producerDone)
			defer sw.Close()
			for i := 0; ; i++ {
				if closed := sw.Send(fmt.Sprintf("p%d", i), nil); closed {
					return
				}
			}
		}()
		return sr, nil
	})).AddInput(START)

	wf.AddLambdaNode("S", TransformableLambda(firstChunk)).AddInput("P")

	wf.AddBranch("S", NewGraphBranch(func(ctx context.Context, in string) (string, error) {
		return pick, nil
	}, map[string]bool{"X": true, "Y": true}))

	wf.AddLambdaNode("X", TransformableLambda(firstChunk)).
		AddInputWithOptions("P", nil, WithNoDirectDependency())
	wf.AddLambdaNode("Y", TransformableLambda(firstChunk)).
		AddInputWithOptions("S", nil, WithNoDirectDependency())

	wf.End().AddInput("X", ToField("x")).AddInput("Y", ToField("y"))

	ctx := context.Background()
	r, err := wf.Compile(ctx)
	if err != nil {
		t.Fatalf("compile: %v", err)
	}

	sr, err := r.Stream(ctx, "in")
	if err != nil {
		t.Fatalf("stream: %v", err)
	}
	out = map[string]any{}
	for {
		chunk, err := sr.Recv()
		if err == io.EOF {
			break
		}
		if err != nil {
			t.Fatalf("recv: %v", err)
		}
		for k, v := range chunk {
			out[k] = v
		}
	}
	sr.Close()

	select {
	case <-producerDone:
		return true, out
	case <-time.After(2 * time.Second):
		return false, out
	}
}

func TestC03Baseline_ValueStoredBeforeSkipIsClosed(t *testing.T) {
	t.Run("control_branch_picks_X", func(t *testing.T) {
		released, out := c03baseRun(t, "X")
		if !released {
			t.Fatalf("producer of P still blocked after the run completed, out=%v", out)
		}
	})
	t.Run("branch_skips_X", func(t *testing.T) {
		released, out := c03baseRun(t, "Y")
		if !released {
			t.Fatalf("the run completed (out=%v) but the producer of P is still blocked on Send: the stream copy "+
				"stored in the channel of the skipped node X was never closed", out)
		}
	})
}
