package compose

import (
	"context"
	"errors"
	"reflect"
	"sync"
	"testing"
	"time"
)

// Reproducer 1 (fails on the UNMODIFIED tree).
//
// Workflow (eager execution), interrupt after A, B asks for InterruptAndRerun on its first execution:
//
//	START -> C --\
//	START -> A ---> S --> END
//	START -> B ---------> END
//
// Order "B first"  : B (rerun) is collected first, A and C are then collected by waitAll -> resume works.
// Order "A first"  : C, then A are collected; A hits interrupt-after, the run loop computes A's successors
//                    (S becomes ready, its channel is consumed and reset), then waitAll collects B (rerun) and the
//                    run loop falls into handleInterruptWithSubGraphAndRerunNodes, which
//                      * drops the already computed next task S, and
//                      * resolves A a second time, re-reporting only A's value to S's (reset) channel.
//                    C's completion is lost, S can never become ready, the resumed run fails with
//                    "no tasks to execute".
func c03BaselineEagerInterrupt(t *testing.T, aFirst bool) (map[string]any, error) {
	t.Helper()
	var mu sync.Mutex
	runs := map[string]int{}
	count := func(k string) int {
		mu.Lock()
		defer mu.Unlock()
		runs[k]++
		return runs[k]
	}
	cDone := make(chan struct{})
	aDone := make(chan struct{})
	bDone := make(chan struct{})

	wf := NewWorkflow[string, map[string]any]()
	wf.AddLambdaNode("C", InvokableLambda(func(ctx context.Context, in string) (string, error) {
		count("C")
		defer close(cDone)
		return "c:" + in, nil
	})).AddInput(START)
	wf.AddLambdaNode("A", InvokableLambda(func(ctx context.Context, in string) (string, error) {
		count("A")
		<-cDone
		if !aFirst {
			<-bDone
		}
		time.Sleep(100 * time.Millisecond)
		close(aDone)
		return "a:" + in, nil
	})).AddInput(START)
	wf.AddLambdaNode("B", InvokableLambda(func(ctx context.Context, in string) (string, error) {
		if count("B") == 1 {
			if aFirst {
				<-aDone
			}
			time.Sleep(100 * time.Millisecond)
			close(bDone)
			return "", InterruptAndRerun
		}
		return "b", nil
	})).AddInput(START)
	wf.AddLambdaNode("S", InvokableLambda(func(ctx context.Context, in map[string]any) (string, error) {
		count("S")
		return in["a"].(string) + "+" + in["c"].(string), nil
	})).AddInput("A", ToField("a")).AddInput("C", ToField("c"))
	wf.End().AddInput("S", ToField("S")).AddInput("B", ToField("B"))

	ctx := context.Background()
	r, err := wf.Compile(ctx, WithCheckPointStore(newInMemoryStore()), WithInterruptAfterNodes([]string{"A"}))
	if err != nil {
		t.Fatal(err)
	}

	type res struct {
		out map[string]any
		err error
	}
	invoke := func(in string) res {
		ch := make(chan res, 1)
		go func() {
			out, err := r.Invoke(ctx, in, WithCheckPointID("cp"))
			ch <- res{out, err}
		}()
		select {
		case x := <-ch:
			return x
		case <-time.After(5 * time.Second):
			t.Fatal("run hangs")
		}
		return res{}
	}
	x := invoke("in")
	if _, ok := ExtractInterruptInfo(x.err); !ok {
		t.Fatalf("first run: expected an interrupt, got out=%v err=%v", x.out, x.err)
	}
	for i := 0; x.err != nil && i < 3; i++ {
		if _, ok := ExtractInterruptInfo(x.err); !ok {
			return nil, x.err
		}
		x = invoke("")
	}
	return x.out, x.err
}

func TestC03Baseline_EagerInterruptAfterPlusRerun(t *testing.T) {
	want := map[string]any{"S": "a:in+c:in", "B": "b"}
	for _, aFirst := range []bool{false, true} {
		name := "rerun_node_B_finishes_before_A"
		if aFirst {
			name = "A_finishes_before_rerun_node_B"
		}
		aFirst := aFirst
		t.Run(name, func(t *testing.T) {
			out, err := c03BaselineEagerInterrupt(t, aFirst)
			if err != nil {
				t.Fatalf("run (with resume) failed: %v", err)
			}
			if !reflect.DeepEqual(out, want) {
				t.Fatalf("result = %v, want %v", out, want)
			}
		})
	}
}

// Reproducer 2 (fails on the UNMODIFIED tree).
//
// Workflow (eager execution) with a node W that has no successor (Compile accepts it):
//
//	START -> A -> END
//	START -> W            (W deterministically returns an error)
//
// The run returns as soon as END is ready and never collects W if W is still running, so the very same
// deterministic workflow returns W's error when W finishes before A, and succeeds when W finishes after A.
// (The same graph built with NewGraph + AllPredecessor/AnyPredecessor, i.e. batch execution, always returns W's error.)
func c03BaselineDangling(t *testing.T, wFirst bool) (string, error) {
	t.Helper()
	aDone := make(chan struct{})
	wDone := make(chan struct{})
	wf := NewWorkflow[string, string]()
	wf.AddLambdaNode("A", InvokableLambda(func(ctx context.Context, in string) (string, error) {
		if wFirst {
			<-wDone
			time.Sleep(100 * time.Millisecond)
		}
		close(aDone)
		return "a:" + in, nil
	})).AddInput(START)
	wf.AddLambdaNode("W", InvokableLambda(func(ctx context.Context, in string) (string, error) {
		if !wFirst {
			<-aDone
			time.Sleep(100 * time.Millisecond)
		}
		close(wDone)
		return "", errors.New("W failed")
	})).AddInput(START)
	wf.End().AddInput("A")
	ctx := context.Background()
	r, err := wf.Compile(ctx)
	if err != nil {
		t.Fatal(err)
	}
	return r.Invoke(ctx, "in")
}

func TestC03Baseline_EagerRunResultDependsOnUncollectedNode(t *testing.T) {
	out1, err1 := c03BaselineDangling(t, true)
	out2, err2 := c03BaselineDangling(t, false)
	t.Logf("W finishes before A: out=%q err=%v", out1, err1)
	t.Logf("W finishes after  A: out=%q err=%v", out2, err2)
	if (err1 == nil) != (err2 == nil) || out1 != out2 {
		t.Fatalf("run result depends on the completion order of A and W")
	}
}
