package compose

import (
	"context"
	"errors"
	"sync/atomic"
	"testing"
	"time"
)

// eager: node fails while sibling is running
func TestC03Base_EagerErrorLeavesSiblingRunning(t *testing.T) {
	var bFinished int32
	aFailed := make(chan struct{})
	wf := NewWorkflow[string, map[string]any]()
	wf.AddLambdaNode("a", InvokableLambda(func(ctx context.Context, in string) (string, error) {
		defer close(aFailed)
		return "", errors.New("boom")
	})).AddInput(START)
	wf.AddLambdaNode("b", InvokableLambda(func(ctx context.Context, in string) (string, error) {
		<-aFailed
		time.Sleep(100 * time.Millisecond)
		atomic.StoreInt32(&bFinished, 1)
		return "b", nil
	})).AddInput(START)
	wf.End().AddInput("a", ToField("a")).AddInput("b", ToField("b"))
	r, err := wf.Compile(context.Background())
	if err != nil {
		t.Fatal(err)
	}
	_, err = r.Invoke(context.Background(), "x")
	if err == nil {
		t.Fatal("expected error")
	}
	if atomic.LoadInt32(&bFinished) == 0 {
		t.Errorf("eager run returned (err=%v) while node b was still running", err)
	}
}

// batch (AllPredecessor graph): node fails while sibling is running
func TestC03Base_BatchErrorWaitsSibling(t *testing.T) {
	for i := 0; i < 10; i++ {
		var bFinished int32
		aFailed := make(chan struct{})
		g := NewGraph[string, map[string]any]()
		_ = g.AddLambdaNode("a", InvokableLambda(func(ctx context.Context, in string) (string, error) {
			defer close(aFailed)
			return "", errors.New("boom")
		}), WithOutputKey("a"))
		_ = g.AddLambdaNode("b", InvokableLambda(func(ctx context.Context, in string) (string, error) {
			<-aFailed
			time.Sleep(50 * time.Millisecond)
			atomic.StoreInt32(&bFinished, 1)
			return "b", nil
		}), WithOutputKey("b"))
		_ = g.AddEdge(START, "a")
		_ = g.AddEdge(START, "b")
		_ = g.AddEdge("a", END)
		_ = g.AddEdge("b", END)
		r, err := g.Compile(context.Background(), WithNodeTriggerMode(AllPredecessor))
		if err != nil {
			t.Fatal(err)
		}
		_, err = r.Invoke(context.Background(), "x")
		if err == nil {
			t.Fatal("expected error")
		}
		if atomic.LoadInt32(&bFinished) == 0 {
			t.Errorf("batch run returned (err=%v) while node b was still running", err)
		}
	}
}
