package compose

import (
	"context"
	"reflect"
	"testing"
)

// START -> a -> b -> END, "b" named twice in the interrupt-before list, "a" named twice in the interrupt-after list.
// One node is pending before / has completed after: each list of the interrupt info should name it once.
func TestBaselineC06_DuplicateInterruptBeforeName(t *testing.T) {
	ctx := context.Background()
	g := NewGraph[string, string]()
	_ = g.AddLambdaNode("a", InvokableLambda(func(ctx context.Context, in string) (string, error) { return in + "a", nil }))
	_ = g.AddLambdaNode("b", InvokableLambda(func(ctx context.Context, in string) (string, error) { return in + "b", nil }))
	_ = g.AddEdge(START, "a")
	_ = g.AddEdge("a", "b")
	_ = g.AddEdge("b", END)
	r, err := g.Compile(ctx, WithCheckPointStore(newInMemoryStore()),
		WithInterruptBeforeNodes([]string{"b", "b"}), WithInterruptAfterNodes([]string{"a", "a"}))
	if err != nil {
		t.Fatal(err)
	}
	_, err = r.Invoke(ctx, "in", WithCheckPointID("1"))
	info, ok := ExtractInterruptInfo(err)
	if !ok {
		t.Fatalf("want interrupt, got %v", err)
	}
	if !reflect.DeepEqual(info.AfterNodes, []string{"a"}) {
		t.Errorf("AfterNodes = %v, want [a]", info.AfterNodes)
	}
	if !reflect.DeepEqual(info.BeforeNodes, []string{"b"}) {
		t.Errorf("BeforeNodes = %v, want [b] (one task is pending, it is listed once per occurrence of its name in the option)", info.BeforeNodes)
	}
}
