package compose

import (
	"context"
	"testing"
)

// The interrupt points are part of what Compile fixes: the compiled graph must keep honouring them whatever the caller
// does afterwards with the slice it handed to WithInterruptBeforeNodes / WithInterruptAfterNodes (a caller typically
// builds that slice in a scratch variable it reuses for the next graph it compiles).
func TestC06Baseline_InterruptListsAreAliased(t *testing.T) {
	ctx := context.Background()

	build := func() (*Graph[string, string], *[]string) {
		var ran []string
		g := NewGraph[string, string]()
		for _, name := range []string{"a", "b"} {
			name := name
			_ = g.AddLambdaNode(name, InvokableLambda(func(_ context.Context, in string) (string, error) {
				ran = append(ran, name)
				return in + name, nil
			}))
		}
		_ = g.AddEdge(START, "a")
		_ = g.AddEdge("a", "b")
		_ = g.AddEdge("b", END)
		return g, &ran
	}

	t.Run("before", func(t *testing.T) {
		g, ran := build()
		scratch := []string{"b"}
		r, err := g.Compile(ctx, WithInterruptBeforeNodes(scratch))
		if err != nil {
			t.Fatal(err)
		}
		scratch[0] = "some node of the next graph" // the caller reuses its slice

		_, err = r.Invoke(ctx, "x")
		info, ok := ExtractInterruptInfo(err)
		if !ok {
			t.Fatalf("node b was configured as interrupt-before at Compile, but the run did not interrupt (err=%v) and ran %v", err, *ran)
		}
		if len(info.BeforeNodes) != 1 || info.BeforeNodes[0] != "b" {
			t.Fatalf("before nodes = %v, want [b]", info.BeforeNodes)
		}
	})

	t.Run("after", func(t *testing.T) {
		g, ran := build()
		scratch := []string{"a"}
		r, err := g.Compile(ctx, WithInterruptAfterNodes(scratch))
		if err != nil {
			t.Fatal(err)
		}
		scratch[0] = "some node of the next graph"

		_, err = r.Invoke(ctx, "x")
		info, ok := ExtractInterruptInfo(err)
		if !ok {
			t.Fatalf("node a was configured as interrupt-after at Compile, but the run did not interrupt (err=%v) and ran %v", err, *ran)
		}
		if len(info.AfterNodes) != 1 || info.AfterNodes[0] != "a" {
			t.Fatalf("after nodes = %v, want [a]", info.AfterNodes)
		}
	})
}
