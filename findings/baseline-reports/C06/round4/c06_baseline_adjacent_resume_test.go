package compose

import (
	"context"
	"io"
	"testing"
)

// ADJACENT FINDINGS (fail on the unmodified tree). In both cases the interrupt itself is reported correctly,
// but the run can never be "explicitly resumed": the resume fails. They are about the checkpoint content
// rather than about honouring the interrupt point, so they are filed as adjacent to C06.

// A nested graph (or a rerun node) added with WithInputKey: at interrupt time the node's input is replaced by
// action.inputZeroValue() - for the input-keyed wrapper that is a nil map[string]any - and on resume the
// wrapper (inputKeyedComposableRunnable) looks the key up in it before calling the nested graph:
// "cannot find input key: k". Only the Invoke form fails; in Stream mode the empty stream passes the filter.
func TestC06BaselineAdjacent_ResumeNestedGraphWithInputKey(t *testing.T) {
	ctx := context.Background()
	sub := NewGraph[string, string]()
	_ = sub.AddLambdaNode("s1", InvokableLambda(func(ctx context.Context, in string) (string, error) { return in + "s1", nil }))
	_ = sub.AddLambdaNode("s2", InvokableLambda(func(ctx context.Context, in string) (string, error) { return in + "s2", nil }))
	_ = sub.AddEdge(START, "s1")
	_ = sub.AddEdge("s1", "s2")
	_ = sub.AddEdge("s2", END)

	g := NewGraph[map[string]any, string]()
	_ = g.AddGraphNode("sub", sub, WithInputKey("k"), WithGraphCompileOptions(WithInterruptAfterNodes([]string{"s1"})))
	_ = g.AddEdge(START, "sub")
	_ = g.AddEdge("sub", END)
	r, err := g.Compile(ctx, WithCheckPointStore(newInMemoryStore()))
	if err != nil {
		t.Fatal(err)
	}
	_, err = r.Invoke(ctx, map[string]any{"k": "in"}, WithCheckPointID("cp"))
	info, ok := ExtractInterruptInfo(err)
	if !ok || info.SubGraphs["sub"] == nil {
		t.Fatalf("want nested interrupt, got %v", err)
	}
	out, err := r.Invoke(ctx, map[string]any{}, WithCheckPointID("cp"))
	if err != nil {
		t.Fatalf("the reported interrupt cannot be resumed: %v", err)
	}
	if out != "ins1s2" {
		t.Fatalf("got %q", out)
	}
}

// DAG, Stream mode, an edge whose types only "may" be assignable (A returns `any`, J wants map[string]any): the
// edge handler converts the stream to streamReader[map[string]any] before it is stored in J's channel. When an
// interrupt happens while that value is pending, it is concatenated and later restored with A's pair (`any`),
// so the resumed run holds a streamReader[any] in the channel, the edge handler is not applied again and
// merging it with the other predecessor's stream fails: "(mergeValues | stream type) unsupported chunk type".
func TestC06BaselineAdjacent_ResumeStreamWithPendingConvertedValue(t *testing.T) {
	ctx := context.Background()
	g := NewGraph[string, string]()
	_ = g.AddLambdaNode("A", InvokableLambda(func(ctx context.Context, in string) (any, error) {
		return map[string]any{"a": in + "A"}, nil
	}))
	_ = g.AddLambdaNode("C1", InvokableLambda(func(ctx context.Context, in string) (string, error) { return in + "C1", nil }))
	_ = g.AddLambdaNode("C", InvokableLambda(func(ctx context.Context, in string) (map[string]any, error) {
		return map[string]any{"c": in + "C"}, nil
	}))
	_ = g.AddLambdaNode("J", InvokableLambda(func(ctx context.Context, in map[string]any) (string, error) {
		return in["a"].(string) + "|" + in["c"].(string), nil
	}))
	for _, e := range [][2]string{{START, "A"}, {START, "C1"}, {"C1", "C"}, {"A", "J"}, {"C", "J"}, {"J", END}} {
		if err := g.AddEdge(e[0], e[1]); err != nil {
			t.Fatal(err)
		}
	}
	r, err := g.Compile(ctx, WithNodeTriggerMode(AllPredecessor), WithCheckPointStore(newInMemoryStore()), WithInterruptAfterNodes([]string{"C1"}))
	if err != nil {
		t.Fatal(err)
	}
	_, err = r.Stream(ctx, "in", WithCheckPointID("s"))
	if _, ok := ExtractInterruptInfo(err); !ok {
		t.Fatalf("stream: %v", err)
	}
	sr, err := r.Stream(ctx, "", WithCheckPointID("s"))
	if err != nil {
		t.Fatalf("the reported interrupt cannot be resumed: %v", err)
	}
	res := ""
	for {
		c, err := sr.Recv()
		if err == io.EOF {
			break
		}
		if err != nil {
			t.Fatalf("recv: %v", err)
		}
		res += c
	}
	if res != "inA|inC1C" {
		t.Fatalf("got %q", res)
	}
}
