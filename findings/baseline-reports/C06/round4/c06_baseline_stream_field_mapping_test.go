package compose

import (
	"context"
	"io"
	"testing"
)

type c06BaselineIn struct {
	F1 string
	F2 string
}

// BASELINE DEFECT 2 (fails on the unmodified tree).
//
// Workflow, Stream mode:
//
//	START.F1 -> B                     B is configured interrupt-before (direct successor of START)
//	START.F2 -> C.f2 ; B -> C.b ; C -> END
//
// When the run is interrupted before B, the value START sent to C is pending in C's channel and has to be
// saved. Channel values are stored AFTER the edge handlers ran, i.e. after the field mapping turned the
// START output (c06BaselineIn) into a map[string]any. In Stream mode checkPointer.convertCheckPoint
// concatenates every pending stream with the stream convert pair of the node the value came FROM
// (outputPairs[START] = pair for c06BaselineIn), which cannot unpack a stream of map[string]any:
//
//	failed to convert checkpoint: cannot convert sr to streamReader[compose.c06BaselineIn]
//
// So the run, which did hit its interrupt point, returns an error without interrupt info and writes no
// checkpoint. The very same workflow works with Invoke (first half of the test).
// It is the same for any mapped edge between two ordinary nodes whose value is pending at interrupt time.
func TestC06Baseline_StreamInterruptWithPendingFieldMappedValue(t *testing.T) {
	ctx := context.Background()
	wf := NewWorkflow[c06BaselineIn, map[string]any]()
	wf.AddLambdaNode("B", InvokableLambda(func(ctx context.Context, in string) (string, error) {
		return in + "B", nil
	})).AddInput(START, FromField("F1"))
	wf.AddLambdaNode("C", InvokableLambda(func(ctx context.Context, in map[string]any) (map[string]any, error) {
		return in, nil
	})).AddInput(START, MapFields("F2", "f2")).AddInput("B", ToField("b"))
	wf.End().AddInput("C")

	store := newInMemoryStore()
	r, err := wf.Compile(ctx, WithCheckPointStore(store), WithInterruptBeforeNodes([]string{"B"}))
	if err != nil {
		t.Fatal(err)
	}

	// Invoke: fine
	_, err = r.Invoke(ctx, c06BaselineIn{F1: "1", F2: "2"}, WithCheckPointID("invoke"))
	info, ok := ExtractInterruptInfo(err)
	if !ok || len(info.BeforeNodes) != 1 || info.BeforeNodes[0] != "B" {
		t.Fatalf("invoke: want interrupt before B, got %v", err)
	}
	out, err := r.Invoke(ctx, c06BaselineIn{}, WithCheckPointID("invoke"))
	if err != nil || out["b"] != "1B" || out["f2"] != "2" {
		t.Fatalf("invoke resume: out=%v err=%v", out, err)
	}

	// Stream: the interrupt is not returned as an interrupt
	_, err = r.Stream(ctx, c06BaselineIn{F1: "1", F2: "2"}, WithCheckPointID("stream"))
	info, ok = ExtractInterruptInfo(err)
	if !ok {
		t.Fatalf("stream: the run stopped at its interrupt-before point but the error carries no interrupt info: %v", err)
	}
	if len(info.BeforeNodes) != 1 || info.BeforeNodes[0] != "B" {
		t.Fatalf("stream: BeforeNodes=%v", info.BeforeNodes)
	}
	if _, written := store.m["stream"]; !written {
		t.Fatalf("stream: no checkpoint written")
	}
	sr, err := r.Stream(ctx, c06BaselineIn{}, WithCheckPointID("stream"))
	if err != nil {
		t.Fatalf("stream resume: %v", err)
	}
	got := map[string]any{}
	for {
		chunk, err := sr.Recv()
		if err == io.EOF {
			break
		}
		if err != nil {
			t.Fatalf("stream resume recv: %v", err)
		}
		for k, v := range chunk {
			got[k] = v
		}
	}
	if got["b"] != "1B" || got["f2"] != "2" {
		t.Fatalf("stream resume: got %v", got)
	}
}
