package compose

import (
	"context"
	"sync/atomic"
	"testing"
	"time"
)

// BASELINE DEFECT 1 (fails on the unmodified tree).
//
// Workflow (the only eager runner: tasks are collected one by one while others are still in flight):
//
//	START -> A (fast) -> X          X is configured interrupt-before
//	START -> R (slow, asks for InterruptAndRerun the first time)
//	X, R  -> END
//
// A finishes first: runner.run computes the next tasks ([X]), sees the interrupt-before hit and waits for the
// tasks in flight. The late finisher R asks for a rerun, so run() takes the
// handleInterruptWithSubGraphAndRerunNodes exit (graph_run.go, second `if len(subGraphInterrupts)+len(interruptRerunNodes) > 0`).
// That function saves X as a pending input but its InterruptInfo has no BeforeNodes at all: the hit keys
// computed a few lines above are dropped. On resume X is rebuilt from the checkpoint by restoreTasks and
// starts at once - restored tasks are (rightly) not gated again.
//
// Result: X, configured interrupt-before, begins executing although no interrupt ever reported it.
// The same happens when the late finisher is a nested graph that interrupts instead of a rerun node.
func TestC06Baseline_InterruptBeforeNodeNotReportedWhenLateFinisherReruns(t *testing.T) {
	ctx := context.Background()
	var xRuns, rRuns int32

	wf := NewWorkflow[string, map[string]any]()
	wf.AddLambdaNode("A", InvokableLambda(func(ctx context.Context, in string) (string, error) {
		return in + "A", nil
	})).AddInput(START)
	wf.AddLambdaNode("R", InvokableLambda(func(ctx context.Context, in string) (string, error) {
		if atomic.AddInt32(&rRuns, 1) == 1 {
			time.Sleep(300 * time.Millisecond) // A is long done and its successors are computed
			return "", InterruptAndRerun
		}
		return in + "R", nil
	})).AddInput(START)
	wf.AddLambdaNode("X", InvokableLambda(func(ctx context.Context, in string) (string, error) {
		atomic.AddInt32(&xRuns, 1)
		return in + "X", nil
	})).AddInput("A")
	wf.End().AddInput("X", ToField("x")).AddInput("R", ToField("r"))

	r, err := wf.Compile(ctx, WithCheckPointStore(newInMemoryStore()), WithInterruptBeforeNodes([]string{"X"}))
	if err != nil {
		t.Fatal(err)
	}

	reported := false
	for i := 0; i < 4; i++ {
		out, err := r.Invoke(ctx, "in", WithCheckPointID("cp"))
		info, ok := ExtractInterruptInfo(err)
		if ok {
			t.Logf("run %d interrupted: before=%v after=%v rerun=%v", i+1, info.BeforeNodes, info.AfterNodes, info.RerunNodes)
			for _, k := range info.BeforeNodes {
				if k == "X" {
					reported = true
				}
			}
		}
		if atomic.LoadInt32(&xRuns) > 0 && !reported {
			t.Fatalf("run %d: X is configured interrupt-before and has begun executing, but no interrupt ever reported it in BeforeNodes (out=%v err=%v)", i+1, out, err)
		}
		if !ok {
			if err != nil {
				t.Fatalf("run %d: %v", i+1, err)
			}
			if !reported {
				t.Fatalf("the run finished without ever reporting X")
			}
			return
		}
	}
	t.Fatalf("still interrupted after 4 runs")
}
