package compose

import (
	"context"
	"sync"
	"testing"
)

// Reproducer (fails on the UNMODIFIED tree).
//
// A node of the outer graph runs another compiled graph as an independent top-level run (the inner run does not get the
// node's context, e.g. because the node detaches it for its own timeout / uses a context captured elsewhere) and
// returns the inner run's error. When the inner run interrupts, its *interruptError passes through the outer run
// unchanged (wrapGraphNodeError lets every "interrupt error" through, and internalError.Unwrap makes it reachable in any
// case): the OUTER Invoke, which was given a checkpoint id, returns an error from which ExtractInterruptInfo extracts
// interrupt information (the inner graph's, naming inner node keys as if they were the outer graph's), but no
// checkpoint is written under the caller's id, and a second Invoke with the same id does not resume anything.

type baseC06Store struct {
	mu   sync.Mutex
	m    map[string][]byte
	sets int
}

func (s *baseC06Store) Get(_ context.Context, id string) ([]byte, bool, error) {
	s.mu.Lock()
	defer s.mu.Unlock()
	v, ok := s.m[id]
	return v, ok, nil
}

func (s *baseC06Store) Set(_ context.Context, id string, b []byte) error {
	s.mu.Lock()
	defer s.mu.Unlock()
	s.m[id] = b
	s.sets++
	return nil
}

func TestBaselineC06_ForeignInterruptErrorReportedWithoutCheckpoint(t *testing.T) {
	ctx := context.Background()

	inner := NewGraph[string, string]()
	_ = inner.AddLambdaNode("ia", InvokableLambda(func(ctx context.Context, in string) (string, error) { return in + "ia", nil }))
	_ = inner.AddLambdaNode("ib", InvokableLambda(func(ctx context.Context, in string) (string, error) { return in + "ib", nil }))
	_ = inner.AddEdge(START, "ia")
	_ = inner.AddEdge("ia", "ib")
	_ = inner.AddEdge("ib", END)
	ir, err := inner.Compile(ctx, WithInterruptBeforeNodes([]string{"ib"}))
	if err != nil {
		t.Fatal(err)
	}

	xRuns := 0
	g := NewGraph[string, string]()
	_ = g.AddLambdaNode("x", InvokableLambda(func(ctx context.Context, in string) (string, error) {
		xRuns++
		return in + "x", nil
	}))
	_ = g.AddLambdaNode("call", InvokableLambda(func(_ context.Context, in string) (string, error) {
		// an independent run of the inner graph: not a nested graph of this run
		return ir.Invoke(context.Background(), in)
	}))
	_ = g.AddEdge(START, "x")
	_ = g.AddEdge("x", "call")
	_ = g.AddEdge("call", END)

	st := &baseC06Store{m: map[string][]byte{}}
	r, err := g.Compile(ctx, WithCheckPointStore(st))
	if err != nil {
		t.Fatal(err)
	}

	_, err = r.Invoke(ctx, "in", WithCheckPointID("id"))
	if err == nil {
		t.Fatal("expected an error")
	}
	info, isInterrupt := ExtractInterruptInfo(err)
	t.Logf("outer run: err=%v, interrupt info extractable=%v info=%+v, checkpoints written=%d", err, isInterrupt, info, st.sets)

	// property: with a checkpoint id, a checkpoint is written exactly when an interrupt error is returned
	if isInterrupt != (st.sets == 1) {
		t.Errorf("outer run returned interrupt error = %v but wrote %d checkpoint(s) under the caller's id", isInterrupt, st.sets)
	}
	if isInterrupt {
		// the reported node is not a node of the graph that was run
		for _, k := range info.BeforeNodes {
			if k != "x" && k != "call" {
				t.Errorf("interrupt info of the outer run names node %q, which the outer graph does not have", k)
			}
		}
		// "resuming" under the same id starts from scratch
		_, _ = r.Invoke(ctx, "in", WithCheckPointID("id"))
		if xRuns != 1 {
			t.Errorf("node x, completed before the reported interrupt, was executed %d times: the second Invoke with the same id did not resume", xRuns)
		}
	}
}

// Same effect without detaching anything: the condition of a branch of a TOP-LEVEL graph is handed the run's context,
// which carries no node path, so a compiled graph invoked from it (with that very context) runs as an independent
// top-level run as well. Its interrupt error comes back wrapped ("branch invoke run error ... failed to calculate next
// tasks"), ExtractInterruptInfo still reaches it, and the outer run reports an interrupt it has no checkpoint for.
func TestBaselineC06_InterruptOfGraphRunInBranchCondition(t *testing.T) {
	ctx := context.Background()

	classifier := NewGraph[string, string]()
	_ = classifier.AddLambdaNode("review", InvokableLambda(func(ctx context.Context, in string) (string, error) { return "b", nil }))
	_ = classifier.AddEdge(START, "review")
	_ = classifier.AddEdge("review", END)
	cr, err := classifier.Compile(ctx, WithInterruptBeforeNodes([]string{"review"}))
	if err != nil {
		t.Fatal(err)
	}

	aRuns := 0
	g := NewGraph[string, string]()
	_ = g.AddLambdaNode("a", InvokableLambda(func(ctx context.Context, in string) (string, error) {
		aRuns++
		return in + "a", nil
	}))
	_ = g.AddLambdaNode("b", InvokableLambda(func(ctx context.Context, in string) (string, error) { return in + "b", nil }))
	_ = g.AddLambdaNode("c", InvokableLambda(func(ctx context.Context, in string) (string, error) { return in + "c", nil }))
	_ = g.AddEdge(START, "a")
	_ = g.AddBranch("a", NewGraphBranch(func(ctx context.Context, in string) (string, error) {
		return cr.Invoke(ctx, in) // the run's own context
	}, map[string]bool{"b": true, "c": true}))
	_ = g.AddEdge("b", END)
	_ = g.AddEdge("c", END)

	st := &baseC06Store{m: map[string][]byte{}}
	r, err := g.Compile(ctx, WithCheckPointStore(st))
	if err != nil {
		t.Fatal(err)
	}

	_, err = r.Invoke(ctx, "in", WithCheckPointID("id"))
	if err == nil {
		t.Fatal("expected an error")
	}
	info, isInterrupt := ExtractInterruptInfo(err)
	t.Logf("outer run: err=%v, interrupt info extractable=%v info=%+v, checkpoints written=%d", err, isInterrupt, info, st.sets)
	if isInterrupt != (st.sets == 1) {
		t.Errorf("outer run returned interrupt error = %v but wrote %d checkpoint(s) under the caller's id", isInterrupt, st.sets)
	}
	if isInterrupt {
		_, _ = r.Invoke(ctx, "in", WithCheckPointID("id"))
		if aRuns != 1 {
			t.Errorf("node a, completed before the reported interrupt, was executed %d times: the second Invoke with the same id did not resume", aRuns)
		}
	}
}
