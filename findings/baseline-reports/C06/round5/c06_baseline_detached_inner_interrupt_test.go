package compose

import (
	"context"
	"sync/atomic"
	"testing"
)

type c06bStore struct{ m map[string][]byte }

func (s *c06bStore) Get(_ context.Context, id string) ([]byte, bool, error) {
	v, ok := s.m[id]
	return v, ok, nil
}

func (s *c06bStore) Set(_ context.Context, id string, v []byte) error {
	s.m[id] = v
	return nil
}

// A Lambda node runs another compiled graph as a run of its own (fresh context, its own store and checkpoint id).
// When that inner run is interrupted, the Lambda returns the inner run's error, as any node returns an error.
// The outer run then returns an error from which ExtractInterruptInfo extracts interrupt information, but no
// checkpoint is written under the checkpoint id the outer caller supplied; calling the outer graph again with
// that id does not resume anything, it starts the outer graph from START again (node "pre" runs a second time).
func TestC06BaselineInterruptErrorOfDetachedInnerRun(t *testing.T) {
	ctx := context.Background()

	inner := NewGraph[string, string]()
	if err := inner.AddLambdaNode("i1", InvokableLambda(func(ctx context.Context, in string) (string, error) { return in + "-i1", nil })); err != nil {
		t.Fatal(err)
	}
	if err := inner.AddLambdaNode("i2", InvokableLambda(func(ctx context.Context, in string) (string, error) { return in + "-i2", nil })); err != nil {
		t.Fatal(err)
	}
	for _, e := range [][2]string{{START, "i1"}, {"i1", "i2"}, {"i2", END}} {
		if err := inner.AddEdge(e[0], e[1]); err != nil {
			t.Fatal(err)
		}
	}
	innerStore := &c06bStore{m: map[string][]byte{}}
	innerRun, err := inner.Compile(ctx, WithCheckPointStore(innerStore), WithInterruptBeforeNodes([]string{"i2"}))
	if err != nil {
		t.Fatal(err)
	}

	var preRuns int32
	outer := NewGraph[string, string]()
	if err = outer.AddLambdaNode("pre", InvokableLambda(func(ctx context.Context, in string) (string, error) {
		atomic.AddInt32(&preRuns, 1)
		return in + "-pre", nil
	})); err != nil {
		t.Fatal(err)
	}
	if err = outer.AddLambdaNode("call", InvokableLambda(func(_ context.Context, in string) (string, error) {
		// a run of its own: nothing of the outer run's context is handed over
		return innerRun.Invoke(context.Background(), in, WithCheckPointID("inner-id"))
	})); err != nil {
		t.Fatal(err)
	}
	for _, e := range [][2]string{{START, "pre"}, {"pre", "call"}, {"call", END}} {
		if err = outer.AddEdge(e[0], e[1]); err != nil {
			t.Fatal(err)
		}
	}
	outerStore := &c06bStore{m: map[string][]byte{}}
	outerRun, err := outer.Compile(ctx, WithCheckPointStore(outerStore))
	if err != nil {
		t.Fatal(err)
	}

	_, err = outerRun.Invoke(ctx, "in", WithCheckPointID("outer-id"))
	if err == nil {
		t.Fatal("expected an error")
	}
	info, isInterrupt := ExtractInterruptInfo(err)
	_, written := outerStore.m["outer-id"]
	t.Logf("outer error: %v", err)
	t.Logf("ExtractInterruptInfo: ok=%v info=%+v; checkpoint under outer-id written: %v", isInterrupt, info, written)

	// a checkpoint is written under the caller's id exactly when an interrupt error is returned
	if isInterrupt != written {
		t.Errorf("outer run returned an error with extractable interrupt info (%v) but checkpoint written under the caller's id = %v", isInterrupt, written)
	}
	// the info, if any, must describe the run it is returned from: the outer graph has no node "i2"
	if isInterrupt && len(info.BeforeNodes) > 0 {
		t.Errorf("outer run reports BeforeNodes=%v, none of which is a node of the outer graph", info.BeforeNodes)
	}
}
