package compose

import (
	"context"
	"sync/atomic"
	"testing"
)

type c06bStore struct{ m map[string][]byte }

func (s *c06bStore) Get(_ context.Context, id string) ([]byte, bool, error) {
	v, ok := s.m[id]
	return v, ok, nil
}
func (s *c06bStore) Set(_ context.Context, id string, v []byte) error { s.m[id] = v; return nil }

// A nested graph added with WithInputKey interrupts (interrupt-before on one of its inner nodes). The
// interrupt is reported correctly and a checkpoint is written, but the explicit resume fails in Invoke
// mode with "cannot find input key: k": the parent stores the *zero value* of the keyed wrapper's input
// type (a nil map[string]any) as the input of the interrupted sub-graph task, and on resume the key
// extraction of the wrapper (inputKeyedComposableRunnable) runs on that nil map before the sub graph gets
// a chance to restore itself from its own checkpoint. The very same graph resumes fine in Stream mode.
func TestC06BaselineNestedGraphWithInputKeyCannotResume(t *testing.T) {
	for _, stream := range []bool{false, true} {
		name := "invoke"
		if stream {
			name = "stream"
		}
		t.Run(name, func(t *testing.T) {
			var bCalls int32
			sub := NewGraph[string, string]()
			_ = sub.AddLambdaNode("a", InvokableLambda(func(ctx context.Context, in string) (string, error) { return in + "a", nil }))
			_ = sub.AddLambdaNode("b", InvokableLambda(func(ctx context.Context, in string) (string, error) {
				atomic.AddInt32(&bCalls, 1)
				return in + "b", nil
			}))
			_ = sub.AddEdge(START, "a")
			_ = sub.AddEdge("a", "b")
			_ = sub.AddEdge("b", END)

			g := NewGraph[string, string]()
			_ = g.AddLambdaNode("1", InvokableLambda(func(ctx context.Context, in string) (map[string]any, error) {
				return map[string]any{"k": in + "1"}, nil
			}))
			_ = g.AddGraphNode("S", sub, WithInputKey("k"), WithGraphCompileOptions(WithInterruptBeforeNodes([]string{"b"})))
			_ = g.AddEdge(START, "1")
			_ = g.AddEdge("1", "S")
			_ = g.AddEdge("S", END)

			ctx := context.Background()
			store := &c06bStore{m: map[string][]byte{}}
			r, err := g.Compile(ctx, WithCheckPointStore(store))
			if err != nil {
				t.Fatal(err)
			}
			call := func() (string, error) {
				if stream {
					sr, err := r.Stream(ctx, "in", WithCheckPointID("cp"))
					if err != nil {
						return "", err
					}
					return concatStreamReader(sr)
				}
				return r.Invoke(ctx, "in", WithCheckPointID("cp"))
			}

			_, err = call()
			info, ok := ExtractInterruptInfo(err)
			if !ok {
				t.Fatalf("expected interrupt, got %v", err)
			}
			if sg := info.SubGraphs["S"]; sg == nil || len(sg.BeforeNodes) != 1 || sg.BeforeNodes[0] != "b" {
				t.Fatalf("unexpected interrupt info: %+v", info)
			}
			if _, ok := store.m["cp"]; !ok {
				t.Fatalf("no checkpoint written")
			}
			if bCalls != 0 {
				t.Fatalf("b executed before the interrupt was resumed")
			}

			out, err := call() // explicit resume
			if err != nil {
				t.Fatalf("resume failed: %v", err)
			}
			if out != "in1ab" || bCalls != 1 {
				t.Fatalf("out=%q bCalls=%d", out, bCalls)
			}
		})
	}
}

// Same root cause with a plain node: a lambda added with WithInputKey that returns InterruptAndRerun can
// never be re-run in Invoke mode (the resume dies in the key extraction), while without WithInputKey (or in
// Stream mode) it is re-run with a zero input as designed.
func TestC06BaselineRerunNodeWithInputKeyCannotResume(t *testing.T) {
	var calls int32
	g := NewGraph[map[string]any, string]()
	_ = g.AddLambdaNode("1", InvokableLambda(func(ctx context.Context, in string) (string, error) {
		if atomic.AddInt32(&calls, 1) == 1 {
			return "", InterruptAndRerun
		}
		return "done", nil
	}), WithInputKey("k"))
	_ = g.AddEdge(START, "1")
	_ = g.AddEdge("1", END)

	ctx := context.Background()
	store := &c06bStore{m: map[string][]byte{}}
	r, err := g.Compile(ctx, WithCheckPointStore(store))
	if err != nil {
		t.Fatal(err)
	}
	_, err = r.Invoke(ctx, map[string]any{"k": "v"}, WithCheckPointID("cp"))
	info, ok := ExtractInterruptInfo(err)
	if !ok || len(info.RerunNodes) != 1 {
		t.Fatalf("expected rerun interrupt, got %v", err)
	}
	out, err := r.Invoke(ctx, map[string]any{"k": "v"}, WithCheckPointID("cp"))
	if err != nil {
		t.Fatalf("resume failed: %v", err)
	}
	if out != "done" || calls != 2 {
		t.Fatalf("out=%q calls=%d", out, calls)
	}
}
