package compose

import (
	"context"
	"sync/atomic"
	"testing"
)

// LOWER-CONFIDENCE finding (aliasing hazard): WithInterruptBeforeNodes / WithInterruptAfterNodes keep the
// caller's slice and the compiled runner reads it on every step, so re-using the slice after Compile
// (e.g. a buffer re-filled to compile the next graph) silently changes the interrupt points of an
// already compiled graph: node "2" below, configured as interrupt-before at compile time, executes
// without any interrupt.
func TestC06BaselineInterruptConfigAliasesCallerSlice(t *testing.T) {
	var calls2 int32
	g := NewGraph[string, string]()
	_ = g.AddLambdaNode("1", InvokableLambda(func(ctx context.Context, in string) (string, error) { return in + "1", nil }))
	_ = g.AddLambdaNode("2", InvokableLambda(func(ctx context.Context, in string) (string, error) {
		atomic.AddInt32(&calls2, 1)
		return in + "2", nil
	}))
	_ = g.AddEdge(START, "1")
	_ = g.AddEdge("1", "2")
	_ = g.AddEdge("2", END)

	ctx := context.Background()
	before := []string{"2"}
	r, err := g.Compile(ctx, WithInterruptBeforeNodes(before))
	if err != nil {
		t.Fatal(err)
	}
	before[0] = "other" // the caller re-uses its slice for something else

	_, err = r.Invoke(ctx, "in")
	if _, ok := ExtractInterruptInfo(err); !ok || calls2 != 0 {
		t.Fatalf("node 2 was compiled as interrupt-before but ran without interrupt: err=%v calls2=%d", err, calls2)
	}
}
