package compose

import (
	"context"
	"sync/atomic"
	"testing"
)

type c06bStore struct{ m map[string][]byte }

func (s *c06bStore) Get(_ context.Context, id string) ([]byte, bool, error) {
	v, ok := s.m[id]
	return v, ok, nil
}

func (s *c06bStore) Set(_ context.Context, id string, b []byte) error {
	s.m[id] = b
	return nil
}

// A lambda node runs a compiled inner graph twice, one call after the other (think of "for each item: run the sub
// agent", or of a ToolsNode whose message carries two calls of the same graph-backed tool). The inner graph has an
// interrupt-before node c.
//
// run 1: the first inner call is interrupted before c; reported as SubGraphs[L].BeforeNodes=[c]. Fine.
// run 2 (resume): the first inner call resumes and runs c. The second inner call is a new run of the inner graph (new
// input "x2"): its node c has never been reported, so it has to be gated like in any new run. Instead the second call
// finds the very same forwarded checkpoint in the node's context, "resumes" from it as well, and runs c a second time
// (with the input of the first call) without any interrupt being reported.
func TestC06BaselineForwardedCheckpointIsConsumedByEveryNestedRunOfTheNode(t *testing.T) {
	ctx := context.Background()
	var cRuns int32
	var cInputs []string

	inner := NewGraph[string, string]()
	_ = inner.AddLambdaNode("a", InvokableLambda(func(ctx context.Context, in string) (string, error) { return in + "a", nil }))
	_ = inner.AddLambdaNode("c", InvokableLambda(func(ctx context.Context, in string) (string, error) {
		atomic.AddInt32(&cRuns, 1)
		cInputs = append(cInputs, in)
		return in + "c", nil
	}))
	_ = inner.AddEdge(START, "a")
	_ = inner.AddEdge("a", "c")
	_ = inner.AddEdge("c", END)
	ir, err := inner.Compile(ctx, WithInterruptBeforeNodes([]string{"c"}))
	if err != nil {
		t.Fatal(err)
	}

	g := NewGraph[string, string]()
	_ = g.AddLambdaNode("L", InvokableLambda(func(ctx context.Context, in string) (string, error) {
		o1, err := ir.Invoke(ctx, "x1")
		if err != nil {
			return "", err
		}
		o2, err := ir.Invoke(ctx, "x2")
		if err != nil {
			return "", err
		}
		return o1 + "|" + o2, nil
	}))
	_ = g.AddEdge(START, "L")
	_ = g.AddEdge("L", END)
	r, err := g.Compile(ctx, WithCheckPointStore(&c06bStore{m: map[string][]byte{}}))
	if err != nil {
		t.Fatal(err)
	}

	_, err = r.Invoke(ctx, "in", WithCheckPointID("cp"))
	info, ok := ExtractInterruptInfo(err)
	if !ok || info.SubGraphs["L"] == nil || len(info.SubGraphs["L"].BeforeNodes) != 1 {
		t.Fatalf("run 1: expected the nested interrupt before c, got err=%v info=%+v", err, info)
	}
	if cRuns != 0 {
		t.Fatalf("run 1: c ran %d time(s)", cRuns)
	}

	out, err := r.Invoke(ctx, "in", WithCheckPointID("cp"))
	_, interrupted := ExtractInterruptInfo(err)
	t.Logf("run 2: out=%q err=%v, c ran %d time(s) with inputs %v", out, err, cRuns, cInputs)
	if n := atomic.LoadInt32(&cRuns); n > 1 && !interrupted {
		t.Errorf("run 2: interrupt-before node c was executed %d times after ONE reported interrupt and ONE resume: "+
			"the second run of the inner graph (input x2) ran c (input %q) without being interrupted", n, cInputs[len(cInputs)-1])
	}
	if err == nil && out != "x1ac|x2ac" {
		t.Errorf("run 2: finished with %q; the second inner run was given x2 and must yield x2ac", out)
	}
}

// A lambda node runs another compiled graph as an independent top-level run (detached context, own store, own
// checkpoint id). That inner run is interrupted and returns its interrupt error, which the lambda hands back.
// For the outer run this is a failed node - the outer run was not interrupted and has nothing to resume: it writes no
// checkpoint under the id it was given. But the error it returns is passed through unchanged (wrapGraphNodeError /
// resolveInterruptCompletedTasks let every "interrupt error" through), so ExtractInterruptInfo(err) succeeds on the
// outer run's error: the caller is told "interrupted", no checkpoint exists under its id.
func TestC06BaselineForeignInterruptErrorLooksLikeAnInterruptOfTheOuterRun(t *testing.T) {
	ctx := context.Background()

	inner := NewGraph[string, string]()
	_ = inner.AddLambdaNode("a", InvokableLambda(func(ctx context.Context, in string) (string, error) { return in + "a", nil }))
	_ = inner.AddEdge(START, "a")
	_ = inner.AddEdge("a", END)
	innerStore := &c06bStore{m: map[string][]byte{}}
	ir, err := inner.Compile(ctx, WithInterruptBeforeNodes([]string{"a"}), WithCheckPointStore(innerStore))
	if err != nil {
		t.Fatal(err)
	}

	g := NewGraph[string, string]()
	_ = g.AddLambdaNode("L", InvokableLambda(func(_ context.Context, in string) (string, error) {
		// an independent run: not the node's context
		return ir.Invoke(context.Background(), in, WithCheckPointID("inner"))
	}))
	_ = g.AddEdge(START, "L")
	_ = g.AddEdge("L", END)
	outerStore := &c06bStore{m: map[string][]byte{}}
	r, err := g.Compile(ctx, WithCheckPointStore(outerStore))
	if err != nil {
		t.Fatal(err)
	}

	_, err = r.Invoke(ctx, "in", WithCheckPointID("outer"))
	if err == nil {
		t.Fatal("expected an error")
	}
	info, isInterrupt := ExtractInterruptInfo(err)
	_, written := outerStore.m["outer"]
	t.Logf("err=%v\ninterrupt=%v info=%+v checkpoint[outer] written=%v checkpoint[inner] written=%v", err, isInterrupt, info, written, len(innerStore.m) == 1)
	if isInterrupt != written {
		t.Errorf("the run was given checkpoint id %q: interrupt error returned = %v, checkpoint written = %v (must go together)", "outer", isInterrupt, written)
	}
}
