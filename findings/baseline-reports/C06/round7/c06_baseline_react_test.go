package react

import (
	"context"
	"testing"

	"github.com/cloudwego/eino/components/model"
	"github.com/cloudwego/eino/components/tool"
	"github.com/cloudwego/eino/compose"
	"github.com/cloudwego/eino/schema"
)

type c06Store struct{ m map[string][]byte }

func (s *c06Store) Get(_ context.Context, id string) ([]byte, bool, error) {
	v, ok := s.m[id]
	return v, ok, nil
}
func (s *c06Store) Set(_ context.Context, id string, b []byte) error { s.m[id] = b; return nil }

// a chat model that asks for the tool once, then answers
type c06Model struct{ calls int }

func (m *c06Model) Generate(_ context.Context, in []*schema.Message, _ ...model.Option) (*schema.Message, error) {
	m.calls++
	for _, msg := range in {
		if msg.Role == schema.Tool {
			return schema.AssistantMessage("done: "+msg.Content, nil), nil
		}
	}
	return schema.AssistantMessage("", []schema.ToolCall{{ID: "call-1", Function: schema.FunctionCall{Name: "approve", Arguments: `{}`}}}), nil
}
func (m *c06Model) Stream(ctx context.Context, in []*schema.Message, opts ...model.Option) (*schema.StreamReader[*schema.Message], error) {
	msg, err := m.Generate(ctx, in, opts...)
	if err != nil {
		return nil, err
	}
	return schema.StreamReaderFromArray([]*schema.Message{msg}), nil
}
func (m *c06Model) BindTools(_ []*schema.ToolInfo) error { return nil }

// a tool that needs a human approval: the first call interrupts the run
type c06ApproveTool struct{ calls int }

func (a *c06ApproveTool) Info(_ context.Context) (*schema.ToolInfo, error) {
	return &schema.ToolInfo{Name: "approve", Desc: "asks a human"}, nil
}
func (a *c06ApproveTool) InvokableRun(_ context.Context, _ string, _ ...tool.Option) (string, error) {
	a.calls++
	if a.calls == 1 {
		return "", compose.InterruptAndRerun
	}
	return "approved", nil
}

// The graph of a ReAct agent (ExportGraph) is a node of a graph compiled with a checkpoint store. A tool of the agent
// interrupts the run (InterruptAndRerun). The run was given a checkpoint id: it has to return an interrupt error
// (with the nested information of the agent) and write the checkpoint under that id.
func TestC06BaselineInterruptInsideExportedReactAgent(t *testing.T) {
	ctx := context.Background()
	tl := &c06ApproveTool{}
	a, err := NewAgent(ctx, &AgentConfig{
		Model:       &c06Model{},
		ToolsConfig: compose.ToolsNodeConfig{Tools: []tool.BaseTool{tl}},
	})
	if err != nil {
		t.Fatal(err)
	}
	ag, agOpts := a.ExportGraph()

	g := compose.NewGraph[[]*schema.Message, *schema.Message]()
	if err = g.AddGraphNode("agent", ag, agOpts...); err != nil {
		t.Fatal(err)
	}
	_ = g.AddEdge(compose.START, "agent")
	_ = g.AddEdge("agent", compose.END)
	store := &c06Store{m: map[string][]byte{}}
	r, err := g.Compile(ctx, compose.WithCheckPointStore(store))
	if err != nil {
		t.Fatal(err)
	}

	_, err = r.Invoke(ctx, []*schema.Message{schema.UserMessage("please do it")}, compose.WithCheckPointID("cp"))
	info, ok := compose.ExtractInterruptInfo(err)
	if !ok {
		t.Fatalf("the tool interrupted the run, but the run did not return an interrupt error: %v", err)
	}
	if _, ok = store.m["cp"]; !ok {
		t.Fatalf("interrupt error returned, but no checkpoint written")
	}
	if info.SubGraphs["agent"] == nil || len(info.SubGraphs["agent"].RerunNodes) != 1 {
		t.Fatalf("nested interrupt information of the agent missing: %+v", info)
	}
}
