package compose

import (
	"context"
	"fmt"
	"testing"

	"github.com/cloudwego/eino/components/tool"
	"github.com/cloudwego/eino/schema"
)

type c13bTool struct {
	name string
	run  func(ctx context.Context, args string) (string, error)
}

func (c *c13bTool) Info(context.Context) (*schema.ToolInfo, error) {
	return &schema.ToolInfo{Name: c.name, Desc: c.name}, nil
}

func (c *c13bTool) InvokableRun(ctx context.Context, args string, _ ...tool.Option) (string, error) {
	return c.run(ctx, args)
}

// ToolsNode is an exported component with exported Invoke / Stream methods that can be called on its own (the
// existing tests do: TestUnknownTool, TestToolsNodeOptions). A panicking tool call is turned into the error of the call when it is the 2nd, 3rd, ... call of
// the message, but the panic of the FIRST call (which runs inline) - or of the only call - escapes to the caller.
func TestC13Baseline_StandaloneToolsNodePanicOfFirstCall(t *testing.T) {
	ctx := context.Background()
	fine := &c13bTool{name: "fine", run: func(ctx context.Context, args string) (string, error) { return "ok", nil }}
	bad := &c13bTool{name: "bad", run: func(ctx context.Context, args string) (string, error) { panic("c13 baseline: tool exploded") }}

	tn, err := NewToolNode(ctx, &ToolsNodeConfig{Tools: []tool.BaseTool{fine, bad}})
	if err != nil {
		t.Fatal(err)
	}

	call := func(names ...string) (out []*schema.Message, err error, escaped any) {
		defer func() { escaped = recover() }()
		msg := &schema.Message{Role: schema.Assistant}
		for i, n := range names {
			msg.ToolCalls = append(msg.ToolCalls, schema.ToolCall{ID: fmt.Sprintf("call-%d", i), Function: schema.FunctionCall{Name: n, Arguments: "{}"}})
		}
		out, err = tn.Invoke(ctx, msg)
		return
	}

	// reference: the panicking call is not the first one -> an error
	_, err, escaped := call("fine", "bad")
	if escaped != nil || err == nil {
		t.Fatalf("reference case: err=%v escaped=%v", err, escaped)
	}

	// the panicking call is the first one
	_, err, escaped = call("bad", "fine")
	if escaped != nil {
		t.Errorf("panic of the first tool call escaped ToolsNode.Invoke: %v", escaped)
	} else if err == nil {
		t.Errorf("panic of the first tool call was swallowed")
	}

	// the panicking call is the only one
	_, err, escaped = call("bad")
	if escaped != nil {
		t.Errorf("panic of the only tool call escaped ToolsNode.Invoke: %v", escaped)
	} else if err == nil {
		t.Errorf("panic of the only tool call was swallowed")
	}
}
