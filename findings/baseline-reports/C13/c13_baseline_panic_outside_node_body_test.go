package compose

import (
	"context"
	"strings"
	"testing"
)

// Property C13: panics are contained - a panic raised by user code while the graph runs surfaces as an error of the
// run, it never kills the process.
//
// Unmodified tree: only the node body is run under recover() (taskManager.executor). User code that the engine runs
// AROUND the node body on the goroutine of the run loop - a branch condition (runner.calculateBranch), a state
// pre-handler (taskManager.submit) and a state post-handler (taskManager.waitOne) - is not: its panic unwinds
// through Runnable.Invoke into the caller. When such a graph is itself a node of a parent graph the parent's executor
// happens to catch it, so the very same graph is "safe" nested and process-killing at top level.
//
// (Weaker than the other baseline finding: the property text names "a node body, a tool call or a stream-forwarding
// goroutine"; branch conditions and state handlers are user callbacks attached to a node but not its body.)

type c13PanicState struct{}

func c13RunContained(t *testing.T, r Runnable[string, string]) {
	t.Helper()
	var err error
	func() {
		defer func() {
			if p := recover(); p != nil {
				t.Fatalf("the panic escaped from Runnable.Invoke into the caller instead of becoming a run error: %v", p)
			}
		}()
		_, err = r.Invoke(context.Background(), "x")
	}()
	if err == nil || !strings.Contains(err.Error(), "c13 panic") {
		t.Fatalf("expected a run error carrying the panic, got: %v", err)
	}
}

func TestC13BaselineBranchConditionPanicEscapes(t *testing.T) {
	g := NewGraph[string, string]()
	_ = g.AddLambdaNode("a", InvokableLambda(func(ctx context.Context, in string) (string, error) { return in, nil }))
	_ = g.AddLambdaNode("b", InvokableLambda(func(ctx context.Context, in string) (string, error) { return in, nil }))
	_ = g.AddEdge(START, "a")
	_ = g.AddBranch("a", NewGraphBranch(func(ctx context.Context, in string) (string, error) {
		panic("c13 panic in branch condition")
	}, map[string]bool{"b": true, END: true}))
	_ = g.AddEdge("b", END)
	r, err := g.Compile(context.Background())
	if err != nil {
		t.Fatal(err)
	}
	c13RunContained(t, r)
}

func TestC13BaselineStatePreHandlerPanicEscapes(t *testing.T) {
	g := NewGraph[string, string](WithGenLocalState(func(ctx context.Context) *c13PanicState { return &c13PanicState{} }))
	_ = g.AddLambdaNode("a", InvokableLambda(func(ctx context.Context, in string) (string, error) { return in, nil }),
		WithStatePreHandler(func(ctx context.Context, in string, s *c13PanicState) (string, error) {
			panic("c13 panic in state pre handler")
		}))
	_ = g.AddEdge(START, "a")
	_ = g.AddEdge("a", END)
	r, err := g.Compile(context.Background())
	if err != nil {
		t.Fatal(err)
	}
	c13RunContained(t, r)
}

func TestC13BaselineStatePostHandlerPanicEscapes(t *testing.T) {
	g := NewGraph[string, string](WithGenLocalState(func(ctx context.Context) *c13PanicState { return &c13PanicState{} }))
	_ = g.AddLambdaNode("a", InvokableLambda(func(ctx context.Context, in string) (string, error) { return in, nil }),
		WithStatePostHandler(func(ctx context.Context, out string, s *c13PanicState) (string, error) {
			panic("c13 panic in state post handler")
		}))
	_ = g.AddEdge(START, "a")
	_ = g.AddEdge("a", END)
	r, err := g.Compile(context.Background())
	if err != nil {
		t.Fatal(err)
	}
	c13RunContained(t, r)
}

// control: the same graph as a node of a parent graph - the parent's executor contains the panic.
func TestC13BaselineControlNestedBranchPanicIsContained(t *testing.T) {
	sub := NewGraph[string, string]()
	_ = sub.AddLambdaNode("a", InvokableLambda(func(ctx context.Context, in string) (string, error) { return in, nil }))
	_ = sub.AddLambdaNode("b", InvokableLambda(func(ctx context.Context, in string) (string, error) { return in, nil }))
	_ = sub.AddEdge(START, "a")
	_ = sub.AddBranch("a", NewGraphBranch(func(ctx context.Context, in string) (string, error) {
		panic("c13 panic in branch condition")
	}, map[string]bool{"b": true, END: true}))
	_ = sub.AddEdge("b", END)

	g := NewGraph[string, string]()
	_ = g.AddGraphNode("sub", sub)
	_ = g.AddEdge(START, "sub")
	_ = g.AddEdge("sub", END)
	r, err := g.Compile(context.Background())
	if err != nil {
		t.Fatal(err)
	}
	c13RunContained(t, r)
}
