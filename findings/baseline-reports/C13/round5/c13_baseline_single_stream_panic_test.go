package compose

import (
	"context"
	"fmt"
	"io"
	"testing"

	"github.com/cloudwego/eino/callbacks"
	"github.com/cloudwego/eino/components/tool"
	"github.com/cloudwego/eino/schema"
)

// A streaming tool whose output stream is produced lazily (schema.StreamReaderWithConvert): the code of the tool
// that runs while the stream is read panics on the second chunk.
type c13bStreamTool struct {
	name   string
	panics bool
}

func (p *c13bStreamTool) Info(context.Context) (*schema.ToolInfo, error) {
	return &schema.ToolInfo{Name: p.name, Desc: p.name}, nil
}

func (p *c13bStreamTool) StreamableRun(context.Context, string, ...tool.Option) (*schema.StreamReader[string], error) {
	return schema.StreamReaderWithConvert(schema.StreamReaderFromArray([]string{"a", "b", "c"}), func(s string) (string, error) {
		if p.panics && s == "b" {
			panic("boom while producing the tool's stream")
		}
		return s, nil
	}), nil
}

// c13bDrain reads the stream of the run to its end, and tells how the failure of the tool showed up.
func c13bDrain(sr *schema.StreamReader[[]*schema.Message]) (errItem error, panicked any) {
	defer sr.Close()
	defer func() { panicked = recover() }()
	for {
		_, err := sr.Recv()
		if err == io.EOF {
			return nil, nil
		}
		if err != nil {
			return err, nil
		}
	}
}

func c13bToolsGraph(t *testing.T) Runnable[*schema.Message, []*schema.Message] {
	t.Helper()
	tn, err := NewToolNode(context.Background(), &ToolsNodeConfig{Tools: []tool.BaseTool{
		&c13bStreamTool{name: "bad", panics: true}, &c13bStreamTool{name: "good"}}})
	if err != nil {
		t.Fatal(err)
	}
	g := NewGraph[*schema.Message, []*schema.Message]()
	if err = g.AddToolsNode("tools", tn); err != nil {
		t.Fatal(err)
	}
	if err = g.AddEdge(START, "tools"); err != nil {
		t.Fatal(err)
	}
	if err = g.AddEdge("tools", END); err != nil {
		t.Fatal(err)
	}
	r, err := g.Compile(context.Background())
	if err != nil {
		t.Fatal(err)
	}
	return r
}

func c13bCalls(names ...string) *schema.Message {
	m := &schema.Message{Role: schema.Assistant}
	for i, n := range names {
		m.ToolCalls = append(m.ToolCalls, schema.ToolCall{ID: fmt.Sprint(i), Function: schema.FunctionCall{Name: n}})
	}
	return m
}

// reference: with two tool calls in the message the panic is an error item of the run's stream
func TestC13BaselineTwoCallsPanicIsAnErrorItem(t *testing.T) {
	sr, err := c13bToolsGraph(t).Stream(context.Background(), c13bCalls("bad", "good"))
	if err != nil {
		return // an error of the run is fine as well
	}
	errItem, panicked := c13bDrain(sr)
	if panicked != nil {
		t.Fatalf("the panic of the tool came out of the caller's Recv: %v", panicked)
	}
	if errItem == nil {
		t.Fatal("the panic of the tool was swallowed")
	}
}

// reference: with one tool call and a callback handler on the run, it is an error item too
func TestC13BaselineOneCallWithCallbacksPanicIsAnErrorItem(t *testing.T) {
	h := callbacks.NewHandlerBuilder().OnEndWithStreamOutputFn(
		func(ctx context.Context, _ *callbacks.RunInfo, out *schema.StreamReader[callbacks.CallbackOutput]) context.Context {
			out.Close()
			return ctx
		}).Build()
	sr, err := c13bToolsGraph(t).Stream(context.Background(), c13bCalls("bad"), WithCallbacks(h))
	if err != nil {
		return
	}
	errItem, panicked := c13bDrain(sr)
	if panicked != nil {
		t.Fatalf("the panic of the tool came out of the caller's Recv: %v", panicked)
	}
	if errItem == nil {
		t.Fatal("the panic of the tool was swallowed")
	}
}

// FAILS on the unmodified tree: the same tool, the same graph, one tool call, no callbacks - the panic is raised in
// the goroutine of whoever reads the stream the run returned
func TestC13BaselineOneCallPanicIsAnErrorItem(t *testing.T) {
	sr, err := c13bToolsGraph(t).Stream(context.Background(), c13bCalls("bad"))
	if err != nil {
		return
	}
	errItem, panicked := c13bDrain(sr)
	if panicked != nil {
		t.Fatalf("the panic of the tool came out of the caller's Recv: %v", panicked)
	}
	if errItem == nil {
		t.Fatal("the panic of the tool was swallowed")
	}
}
