package router

import (
	"context"
	"testing"

	"github.com/cloudwego/eino/components/retriever"
)

// Aside (not C13 proper): Config.Router is documented as optional - NewRetriever builds a default router that
// selects every retriever - but the default is never stored (routerRetriever.router is set to config.Router),
// so Retrieve calls a nil func and panics.
func TestC13BaselineDefaultRouterIsUsed(t *testing.T) {
	r, err := NewRetriever(context.Background(), &Config{
		Retrievers: map[string]retriever.Retriever{"1": &mockRetriever{}},
	})
	if err != nil {
		t.Fatal(err)
	}
	defer func() {
		if p := recover(); p != nil {
			t.Fatalf("Retrieve panicked with the default router: %v", p)
		}
	}()
	if _, err = r.Retrieve(context.Background(), "1"); err != nil {
		t.Fatal(err)
	}
}
