package compose

import (
	"context"
	"fmt"
	"io"
	"strings"
	"testing"

	"github.com/cloudwego/eino/callbacks"
	"github.com/cloudwego/eino/schema"
)

// node A returns a stream whose chunks are produced by a convert function of the node; the function panics on "b"
func c13BaselineGraph(t *testing.T) Runnable[string, string] {
	g := NewGraph[string, string]()
	err := g.AddLambdaNode("A", StreamableLambda(func(ctx context.Context, in string) (*schema.StreamReader[string], error) {
		return schema.StreamReaderWithConvert(schema.StreamReaderFromArray([]string{"a", "b", "c"}), func(s string) (string, error) {
			if s == "b" {
				panic("boom in node A's stream")
			}
			return strings.ToUpper(s), nil
		}), nil
	}))
	if err != nil {
		t.Fatal(err)
	}
	if err = g.AddEdge(START, "A"); err != nil {
		t.Fatal(err)
	}
	if err = g.AddEdge("A", END); err != nil {
		t.Fatal(err)
	}
	r, err := g.Compile(context.Background())
	if err != nil {
		t.Fatal(err)
	}
	return r
}

// reads the run's output stream the way the documentation shows; reports a panic that reaches the reader
func c13BaselineDrain(sr *schema.StreamReader[string]) (chunks []string, err error, escaped any) {
	defer func() { escaped = recover() }()
	defer sr.Close()
	for {
		c, e := sr.Recv()
		if e == io.EOF {
			return chunks, nil, nil
		}
		if e != nil {
			return chunks, e, nil
		}
		chunks = append(chunks, c)
	}
}

// FAILS on the unmodified tree: the panic of the node's stream is raised in the goroutine of the caller that reads
// the output stream of the run (an unprepared caller dies), instead of arriving as an error item.
func TestC13Baseline_LazyStreamPanicReachesTheCaller(t *testing.T) {
	r := c13BaselineGraph(t)
	sr, err := r.Stream(context.Background(), "x")
	if err != nil {
		return // reported as the run's error: fine as well
	}
	chunks, err, escaped := c13BaselineDrain(sr)
	if escaped != nil {
		t.Fatalf("after chunks %q the panic of node A escaped into the reader of the output stream: %v", chunks, escaped)
	}
	if err == nil {
		t.Fatalf("the panic was swallowed, chunks %q", chunks)
	}
}

// PASSES on the unmodified tree, for comparison: as soon as the stream is copied on its way (here: a handler that
// wants stream outputs is attached to the run) the very same panic is an error item, as the property demands.
func TestC13Baseline_SamePanicIsAnErrorItemOnceTheStreamIsCopied(t *testing.T) {
	r := c13BaselineGraph(t)
	h := callbacks.NewHandlerBuilder().OnEndWithStreamOutputFn(
		func(ctx context.Context, info *callbacks.RunInfo, out *schema.StreamReader[callbacks.CallbackOutput]) context.Context {
			out.Close()
			return ctx
		}).Build()
	sr, err := r.Stream(context.Background(), "x", WithCallbacks(h))
	if err != nil {
		t.Fatal(err)
	}
	chunks, err, escaped := c13BaselineDrain(sr)
	if escaped != nil {
		t.Fatalf("escaped: %v", escaped)
	}
	if err == nil || !strings.Contains(err.Error(), "boom in node A's stream") {
		t.Fatalf("chunks %q err %v", chunks, err)
	}
	_ = fmt.Sprint(chunks)
}

// FAILS on the unmodified tree: with a successor that reads the stream, the panic of A's stream is contained, but
// the run names the successor B as the failing node; nothing in the error leads to A.
func TestC13Baseline_LazyStreamPanicIsBlamedOnTheSuccessor(t *testing.T) {
	g := NewGraph[string, string]()
	must := func(err error) {
		t.Helper()
		if err != nil {
			t.Fatal(err)
		}
	}
	must(g.AddLambdaNode("A", StreamableLambda(func(ctx context.Context, in string) (*schema.StreamReader[string], error) {
		return schema.StreamReaderWithConvert(schema.StreamReaderFromArray([]string{"a", "b"}), func(s string) (string, error) {
			if s == "b" {
				panic("boom in node A's stream")
			}
			return s, nil
		}), nil
	})))
	must(g.AddLambdaNode("B", InvokableLambda(func(ctx context.Context, in string) (string, error) { return in, nil })))
	must(g.AddEdge(START, "A"))
	must(g.AddEdge("A", "B"))
	must(g.AddEdge("B", END))
	r, err := g.Compile(context.Background())
	must(err)

	_, err = r.Stream(context.Background(), "x")
	if err == nil {
		t.Fatal("no error")
	}
	var ie *internalError
	if !asInternal(err, &ie) {
		t.Fatalf("not a run error: %v", err)
	}
	if len(ie.nodePath.path) == 0 || ie.nodePath.path[0] != "A" {
		t.Fatalf("the failing node is reported as %v, the panic happened in the stream of node A", ie.nodePath.path)
	}
}

func asInternal(err error, target **internalError) bool {
	for err != nil {
		if ie, ok := err.(*internalError); ok {
			*target = ie
			return true
		}
		u, ok := err.(interface{ Unwrap() error })
		if !ok {
			return false
		}
		err = u.Unwrap()
	}
	return false
}
