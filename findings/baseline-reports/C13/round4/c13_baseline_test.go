package compose

import (
	"context"
	"strings"
	"testing"
	"time"

	"github.com/cloudwego/eino/schema"
)

type c13bOutcome struct {
	out      any
	err      error
	panicked any
}

// c13bRun calls f on its own goroutine, so that a panic escaping the run is reported instead of killing the test binary.
func c13bRun(t *testing.T, f func() (any, error)) c13bOutcome {
	ch := make(chan c13bOutcome, 1)
	go func() {
		var o c13bOutcome
		defer func() {
			if p := recover(); p != nil {
				o.panicked = p
			}
			ch <- o
		}()
		o.out, o.err = f()
	}()
	select {
	case o := <-ch:
		return o
	case <-time.After(5 * time.Second):
		t.Fatal("the run hangs")
		return c13bOutcome{}
	}
}

func c13bExpectContained(t *testing.T, o c13bOutcome, what string) {
	t.Helper()
	if o.panicked != nil {
		t.Fatalf("the panic escaped the run into the caller: %v", o.panicked)
	}
	if o.err == nil {
		t.Fatalf("the panic was swallowed: the run returned output %q and a nil error", o.out)
	}
	if !strings.Contains(o.err.Error(), what) {
		t.Fatalf("the error of the run does not carry the panic: %v", o.err)
	}
}

// 1. (in scope, but needs the pre-go1.21 meaning of panic(nil), which is what this module gets from its `go 1.18` line)
// A node body that calls panic(nil) is treated as a node that succeeded with a nil output: recover() returns nil, and both
// runWithCallbacks (compose/utils.go) and taskManager.executor (compose/graph_manager.go) test `recover() != nil`.
// The run goes on with the zero value and reports success.
func TestC13BaselinePanicNilInNodeIsSwallowed(t *testing.T) {
	ctx := context.Background()
	g := NewGraph[string, string]()
	_ = g.AddLambdaNode("1", InvokableLambda(func(ctx context.Context, in string) (string, error) {
		panic(nil)
	}))
	_ = g.AddLambdaNode("2", InvokableLambda(func(ctx context.Context, in string) (string, error) {
		return in + "_2", nil
	}))
	_ = g.AddEdge(START, "1")
	_ = g.AddEdge("1", "2")
	_ = g.AddEdge("2", END)
	r, err := g.Compile(ctx)
	if err != nil {
		t.Fatal(err)
	}
	o := c13bRun(t, func() (any, error) { return r.Invoke(ctx, "x") })
	if o.panicked != nil {
		t.Fatalf("the panic escaped the run into the caller: %v", o.panicked)
	}
	if o.err == nil {
		t.Fatalf("panic(nil) inside node 1 was swallowed: the run returned output %q and a nil error", o.out)
	}
}

type c13bState struct{}

func c13bGenState(ctx context.Context) *c13bState { return &c13bState{} }

// 2a. (borderline: a state handler is user code attached to a node, but not literally "the node body")
// The state pre handler of a node runs in taskManager.submit, on the goroutine of the run loop, outside every recover.
func TestC13BaselinePanicInStatePreHandlerEscapes(t *testing.T) {
	ctx := context.Background()
	g := NewGraph[string, string](WithGenLocalState(c13bGenState))
	_ = g.AddLambdaNode("1", InvokableLambda(func(ctx context.Context, in string) (string, error) {
		return in, nil
	}), WithStatePreHandler(func(ctx context.Context, in string, s *c13bState) (string, error) {
		panic("pre handler boom")
	}))
	_ = g.AddEdge(START, "1")
	_ = g.AddEdge("1", END)
	r, err := g.Compile(ctx)
	if err != nil {
		t.Fatal(err)
	}
	o := c13bRun(t, func() (any, error) { return r.Invoke(ctx, "x") })
	c13bExpectContained(t, o, "pre handler boom")
}

// 2b. same for the state post handler (taskManager.waitOne)
func TestC13BaselinePanicInStatePostHandlerEscapes(t *testing.T) {
	ctx := context.Background()
	g := NewGraph[string, string](WithGenLocalState(c13bGenState))
	_ = g.AddLambdaNode("1", InvokableLambda(func(ctx context.Context, in string) (string, error) {
		return in, nil
	}), WithStatePostHandler(func(ctx context.Context, out string, s *c13bState) (string, error) {
		panic("post handler boom")
	}))
	_ = g.AddEdge(START, "1")
	_ = g.AddEdge("1", END)
	r, err := g.Compile(ctx)
	if err != nil {
		t.Fatal(err)
	}
	o := c13bRun(t, func() (any, error) { return r.Invoke(ctx, "x") })
	c13bExpectContained(t, o, "post handler boom")
}

// 2c. same for a branch condition (runner.calculateBranch, called from the run loop)
func TestC13BaselinePanicInBranchConditionEscapes(t *testing.T) {
	ctx := context.Background()
	g := NewGraph[string, string]()
	_ = g.AddLambdaNode("1", InvokableLambda(func(ctx context.Context, in string) (string, error) {
		return in, nil
	}))
	_ = g.AddLambdaNode("2", InvokableLambda(func(ctx context.Context, in string) (string, error) {
		return in, nil
	}))
	_ = g.AddEdge(START, "1")
	_ = g.AddBranch("1", NewGraphBranch(func(ctx context.Context, in string) (string, error) {
		panic("branch boom")
	}, map[string]bool{"2": true, END: true}))
	_ = g.AddEdge("2", END)
	r, err := g.Compile(ctx)
	if err != nil {
		t.Fatal(err)
	}
	o := c13bRun(t, func() (any, error) { return r.Invoke(ctx, "x") })
	c13bExpectContained(t, o, "branch boom")
}

// 3. (borderline: the code that panics belongs to the node, but it runs lazily, when the stream is read)
// The last node returns a converted stream whose convert function panics. With Stream() the output stream is read by
// the caller, and the panic comes out of the caller's Recv() instead of arriving as an error item.
func TestC13BaselinePanicInLazyStreamOfLastNodeEscapes(t *testing.T) {
	ctx := context.Background()
	g := NewGraph[string, string]()
	_ = g.AddLambdaNode("1", TransformableLambda(func(ctx context.Context, in *schema.StreamReader[string]) (*schema.StreamReader[string], error) {
		return schema.StreamReaderWithConvert(in, func(s string) (string, error) {
			panic("lazy boom")
		}), nil
	}))
	_ = g.AddEdge(START, "1")
	_ = g.AddEdge("1", END)
	r, err := g.Compile(ctx)
	if err != nil {
		t.Fatal(err)
	}
	o := c13bRun(t, func() (any, error) {
		sr, err := r.Stream(ctx, "x")
		if err != nil {
			return nil, err
		}
		defer sr.Close()
		return sr.Recv()
	})
	c13bExpectContained(t, o, "lazy boom")
}
