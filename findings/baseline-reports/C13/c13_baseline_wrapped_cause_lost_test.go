package compose

import (
	"context"
	"errors"
	"fmt"
	"testing"

	"github.com/cloudwego/eino/schema"
)

// Property C13: when a node fails, the original error can be recovered from the run error with errors.Is / errors.As.
//
// Unmodified tree: wrapGraphNodeError (compose/error.go) looks for an *internalError anywhere in the chain of the
// node's error with errors.As and, when it finds one, RETURNS THAT INNER ERROR (after prepending the node key to its
// path) instead of wrapping the error the node actually returned. Everything the node put around the inner error
// - a sentinel, a typed error, a second joined error - is dropped.
//
// That happens whenever a node body runs another compiled eino runnable by hand (a lambda calling an agent / a
// sub-chain, a tool backed by a graph, ...) and wraps or joins its error, which is the idiomatic thing to do.

var errC13AgentFailed = errors.New("c13: agent step failed") // the sentinel the application matches on

type c13RetryableError struct { // the typed error the application inspects with errors.As
	Attempts int
	Cause    error
}

func (e *c13RetryableError) Error() string { return fmt.Sprintf("gave up after %d attempts: %v", e.Attempts, e.Cause) }
func (e *c13RetryableError) Unwrap() error { return e.Cause }

func c13BaselineInner(t *testing.T) Runnable[string, string] {
	inner := NewGraph[string, string]()
	_ = inner.AddLambdaNode("in", InvokableLambda(func(ctx context.Context, in string) (string, error) {
		return "", errors.New("inner boom")
	}))
	_ = inner.AddEdge(START, "in")
	_ = inner.AddEdge("in", END)
	ir, err := inner.Compile(context.Background())
	if err != nil {
		t.Fatal(err)
	}
	return ir
}

func c13BaselineOuter(t *testing.T, body func(ctx context.Context, in string) (string, error)) error {
	g := NewGraph[string, string]()
	_ = g.AddLambdaNode("outer", InvokableLambda(body))
	_ = g.AddEdge(START, "outer")
	_ = g.AddEdge("outer", END)
	r, err := g.Compile(context.Background())
	if err != nil {
		t.Fatal(err)
	}
	_, err = r.Invoke(context.Background(), "x")
	if err == nil {
		t.Fatal("expected an error")
	}
	return err
}

// control: the very same node error, when no eino error sits below it, is fully recoverable.
func TestC13BaselineControlPlainCause(t *testing.T) {
	err := c13BaselineOuter(t, func(ctx context.Context, in string) (string, error) {
		return "", fmt.Errorf("%w: %w", errC13AgentFailed, &c13RetryableError{Attempts: 3, Cause: errors.New("plain boom")})
	})
	var re *c13RetryableError
	if !errors.Is(err, errC13AgentFailed) || !errors.As(err, &re) {
		t.Fatalf("control failed: %v", err)
	}
}

func TestC13BaselineSentinelAroundInnerRunErrorIsLost(t *testing.T) {
	ir := c13BaselineInner(t)
	err := c13BaselineOuter(t, func(ctx context.Context, in string) (string, error) {
		_, e := ir.Invoke(ctx, in)
		return "", fmt.Errorf("%w: %w", errC13AgentFailed, e)
	})
	if !errors.Is(err, errC13AgentFailed) {
		t.Fatalf("the error returned by node 'outer' matched errC13AgentFailed, the run error does not:\n%v", err)
	}
}

func TestC13BaselineTypedErrorAroundInnerRunErrorIsLost(t *testing.T) {
	ir := c13BaselineInner(t)
	err := c13BaselineOuter(t, func(ctx context.Context, in string) (string, error) {
		_, e := ir.Invoke(ctx, in)
		return "", &c13RetryableError{Attempts: 3, Cause: e}
	})
	var re *c13RetryableError
	if !errors.As(err, &re) {
		t.Fatalf("node 'outer' returned a *c13RetryableError, errors.As cannot find it in the run error:\n%v", err)
	}
}

func TestC13BaselineJoinedErrorNextToInnerRunErrorIsLost(t *testing.T) {
	ir := c13BaselineInner(t)
	errCleanup := errors.New("c13: cleanup failed too")
	err := c13BaselineOuter(t, func(ctx context.Context, in string) (string, error) {
		_, e := ir.Invoke(ctx, in)
		return "", errors.Join(e, errCleanup)
	})
	if !errors.Is(err, errCleanup) {
		t.Fatalf("node 'outer' returned errors.Join(innerErr, errCleanup), errCleanup is gone from the run error:\n%v", err)
	}
}

// the same loss through the stream-wrapper path (wrapStreamWrapperError): a stream-only lambda run with Invoke.
func TestC13BaselineSentinelLostThroughStreamWrapper(t *testing.T) {
	ir := c13BaselineInner(t)
	g := NewGraph[string, string]()
	_ = g.AddLambdaNode("outer", StreamableLambda(func(ctx context.Context, in string) (*schema.StreamReader[string], error) {
		_, e := ir.Invoke(ctx, in)
		return nil, fmt.Errorf("%w: %w", errC13AgentFailed, e)
	}))
	_ = g.AddEdge(START, "outer")
	_ = g.AddEdge("outer", END)
	r, err := g.Compile(context.Background())
	if err != nil {
		t.Fatal(err)
	}
	_, err = r.Invoke(context.Background(), "x")
	if err == nil {
		t.Fatal("expected an error")
	}
	if !errors.Is(err, errC13AgentFailed) {
		t.Fatalf("the error returned by node 'outer' matched errC13AgentFailed, the run error does not:\n%v", err)
	}
}
