package router

import (
	"context"
	"strings"
	"testing"

	"github.com/cloudwego/eino/components/retriever"
	"github.com/cloudwego/eino/compose"
	"github.com/cloudwego/eino/schema"
)

type c13BaseRetriever struct{ id string }

func (r c13BaseRetriever) Retrieve(ctx context.Context, q string, opts ...retriever.Option) ([]*schema.Document, error) {
	return []*schema.Document{{ID: r.id, Content: q}}, nil
}

func c13BaseNewRouter(t *testing.T) retriever.Retriever {
	t.Helper()
	// Config.Router is optional: NewRetriever builds a default router that selects every retriever
	r, err := NewRetriever(context.Background(), &Config{
		Retrievers: map[string]retriever.Retriever{"a": c13BaseRetriever{"a"}, "b": c13BaseRetriever{"b"}},
	})
	if err != nil {
		t.Fatal(err)
	}
	return r
}

// Called directly, Retrieve of a router retriever built without Config.Router panics with a nil dereference: the
// default router that NewRetriever prepares is never stored (the struct is filled from config.Router again).
func TestC13BaselineRouterWithoutRouterFuncDirect(t *testing.T) {
	r := c13BaseNewRouter(t)
	defer func() {
		if p := recover(); p != nil {
			t.Fatalf("Retrieve panicked instead of using the default router: %v", p)
		}
	}()
	docs, err := r.Retrieve(context.Background(), "q")
	if err != nil {
		t.Fatalf("unexpected error: %v", err)
	}
	if len(docs) != 2 {
		t.Fatalf("the default router selects every retriever: want 2 documents, got %d", len(docs))
	}
}

// As a graph node the panic is contained by the task executor, but every run of the node fails with a
// "panic error: ... nil pointer dereference" although the configuration is one NewRetriever accepted.
func TestC13BaselineRouterWithoutRouterFuncInGraph(t *testing.T) {
	r := c13BaseNewRouter(t)
	g := compose.NewGraph[string, []*schema.Document]()
	if err := g.AddRetrieverNode("router", r); err != nil {
		t.Fatal(err)
	}
	_ = g.AddEdge(compose.START, "router")
	_ = g.AddEdge("router", compose.END)
	run, err := g.Compile(context.Background())
	if err != nil {
		t.Fatal(err)
	}
	docs, err := run.Invoke(context.Background(), "q")
	if err != nil {
		msg := err.Error()
		if i := strings.Index(msg, "\nstack"); i > 0 {
			msg = msg[:i]
		}
		t.Fatalf("run failed: %s", msg)
	}
	if len(docs) != 2 {
		t.Fatalf("want 2 documents, got %d", len(docs))
	}
}
