package compose

import (
	"context"
	"fmt"
	"sync"
	"testing"

	"github.com/cloudwego/eino/callbacks"
	"github.com/cloudwego/eino/components/tool"
	"github.com/cloudwego/eino/schema"
)

// c10Rec records every callback as "<Component>:<Name>".
type c10Rec struct {
	mu     sync.Mutex
	starts []string
	ends   []string
	errs   []string
}

func (r *c10Rec) handler() callbacks.Handler {
	return callbacks.NewHandlerBuilder().
		OnStartFn(func(ctx context.Context, info *callbacks.RunInfo, input callbacks.CallbackInput) context.Context {
			r.mu.Lock()
			defer r.mu.Unlock()
			r.starts = append(r.starts, string(info.Component)+":"+info.Name)
			return ctx
		}).
		OnEndFn(func(ctx context.Context, info *callbacks.RunInfo, output callbacks.CallbackOutput) context.Context {
			r.mu.Lock()
			defer r.mu.Unlock()
			r.ends = append(r.ends, string(info.Component)+":"+info.Name)
			return ctx
		}).
		OnErrorFn(func(ctx context.Context, info *callbacks.RunInfo, err error) context.Context {
			r.mu.Lock()
			defer r.mu.Unlock()
			r.errs = append(r.errs, string(info.Component)+":"+info.Name)
			return ctx
		}).Build()
}

func c10Count(list []string, s string) int {
	n := 0
	for _, e := range list {
		if e == s {
			n++
		}
	}
	return n
}

// DEFECT 1: the same *Lambda value added as two nodes (different keys, different node names).
// graphNode.compileIfNeeded writes r.meta / r.nodeInfo into the Lambda's single shared
// *composableRunnable, so whichever node is compiled last wins and BOTH nodes then report that
// node's name in their RunInfo: one node execution fires its callbacks with another node's run info.
func TestC10BaselineSharedLambdaRunInfo(t *testing.T) {
	ctx := context.Background()
	l := InvokableLambda(func(ctx context.Context, in string) (string, error) { return in + "x", nil })

	g := NewGraph[string, string]()
	_ = g.AddLambdaNode("a", l, WithNodeName("nodeA"))
	_ = g.AddLambdaNode("b", l, WithNodeName("nodeB"))
	_ = g.AddEdge(START, "a")
	_ = g.AddEdge("a", "b")
	_ = g.AddEdge("b", END)
	r, err := g.Compile(ctx, WithGraphName("G"))
	if err != nil {
		t.Fatal(err)
	}

	rec := &c10Rec{}
	out, err := r.Invoke(ctx, "i", WithCallbacks(rec.handler()))
	if err != nil || out != "ixx" {
		t.Fatal(out, err)
	}

	for _, want := range []string{"Lambda:nodeA", "Lambda:nodeB"} {
		if c10Count(rec.starts, want) != 1 || c10Count(rec.ends, want) != 1 {
			t.Errorf("%s must start once and end once with its own run info; starts=%v ends=%v", want, rec.starts, rec.ends)
		}
	}
}

// DEFECT 2: a node that panics. The node-level OnStart has fired, the panic is recovered by the task
// executor and turned into the node's error, but nobody fires the node-level OnError (or OnEnd):
// the node's handlers see a start that is never paired with an end. (The graph-level OnError does fire.)
func TestC10BaselinePanickingNodeIsNeverEnded(t *testing.T) {
	ctx := context.Background()
	g := NewGraph[string, string]()
	_ = g.AddLambdaNode("a", InvokableLambda(func(ctx context.Context, in string) (string, error) {
		panic("boom")
	}), WithNodeName("nodeA"))
	_ = g.AddEdge(START, "a")
	_ = g.AddEdge("a", END)
	r, err := g.Compile(ctx, WithGraphName("G"))
	if err != nil {
		t.Fatal(err)
	}

	rec := &c10Rec{}
	_, err = r.Invoke(ctx, "i", WithCallbacks(rec.handler()))
	if err == nil {
		t.Fatal("expected the panic to surface as an error")
	}

	if c10Count(rec.starts, "Lambda:nodeA") != 1 {
		t.Fatalf("node start not fired once: %v", rec.starts)
	}
	if c10Count(rec.ends, "Lambda:nodeA")+c10Count(rec.errs, "Lambda:nodeA") != 1 {
		t.Errorf("node started but was never ended (end/error): starts=%v ends=%v errs=%v", rec.starts, rec.ends, rec.errs)
	}
}

// same for a tool call that panics inside a ToolsNode
type c10PanicTool struct{}

func (c10PanicTool) Info(ctx context.Context) (*schema.ToolInfo, error) {
	return &schema.ToolInfo{Name: "panic_tool"}, nil
}
func (c10PanicTool) InvokableRun(ctx context.Context, args string, opts ...tool.Option) (string, error) {
	panic("tool boom")
}

type c10OkTool struct{ name string }

func (o c10OkTool) Info(ctx context.Context) (*schema.ToolInfo, error) {
	return &schema.ToolInfo{Name: o.name}, nil
}
func (o c10OkTool) InvokableRun(ctx context.Context, args string, opts ...tool.Option) (string, error) {
	return "ok", nil
}

func TestC10BaselinePanickingToolCallIsNeverEnded(t *testing.T) {
	ctx := context.Background()
	tn, err := NewToolNode(ctx, &ToolsNodeConfig{Tools: []tool.BaseTool{c10OkTool{"ok_tool"}, c10PanicTool{}}})
	if err != nil {
		t.Fatal(err)
	}
	rec := &c10Rec{}
	cctx := callbacks.InitCallbacks(ctx, &callbacks.RunInfo{Name: "TN", Component: ComponentOfToolsNode}, rec.handler())
	// the panicking call is the second one, so it runs in a goroutine whose panic is recovered into task.err
	_, err = tn.Invoke(cctx, &schema.Message{Role: schema.Assistant, ToolCalls: []schema.ToolCall{
		{ID: "1", Function: schema.FunctionCall{Name: "ok_tool", Arguments: `{}`}},
		{ID: "2", Function: schema.FunctionCall{Name: "panic_tool", Arguments: `{}`}},
	}})
	if err == nil {
		t.Fatal("expected error")
	}
	if c10Count(rec.starts, "Tool:panic_tool") != 1 {
		t.Fatalf("tool call start not fired once: %v", rec.starts)
	}
	if c10Count(rec.ends, "Tool:panic_tool")+c10Count(rec.errs, "Tool:panic_tool") != 1 {
		t.Errorf("tool call started but was never ended: starts=%v ends=%v errs=%v", rec.starts, rec.ends, rec.errs)
	}
}

// DEFECT 3: a tool call answered by ToolsNodeConfig.UnknownToolsHandler is an executed tool call
// (it gets its own RunInfo via ReuseHandlers, name = the hallucinated tool, type "UnknownTool",
// meta.isComponentCallbackEnabled=false, i.e. "the framework must fire the callbacks"), but
// newUnknownToolTask builds its runnable with enableCallback=false, so no handler is ever invoked for it.
func TestC10BaselineUnknownToolCallHasNoCallbacks(t *testing.T) {
	ctx := context.Background()
	tn, err := NewToolNode(ctx, &ToolsNodeConfig{
		Tools: []tool.BaseTool{c10OkTool{"ok_tool"}},
		UnknownToolsHandler: func(ctx context.Context, name, input string) (string, error) {
			return "unknown tool " + name, nil
		},
	})
	if err != nil {
		t.Fatal(err)
	}
	g := NewGraph[*schema.Message, []*schema.Message]()
	_ = g.AddToolsNode("tools", tn, WithNodeName("TN"))
	_ = g.AddEdge(START, "tools")
	_ = g.AddEdge("tools", END)
	r, err := g.Compile(ctx, WithGraphName("G"))
	if err != nil {
		t.Fatal(err)
	}

	rec := &c10Rec{}
	out, err := r.Invoke(ctx, &schema.Message{Role: schema.Assistant, ToolCalls: []schema.ToolCall{
		{ID: "1", Function: schema.FunctionCall{Name: "ok_tool", Arguments: `{}`}},
		{ID: "2", Function: schema.FunctionCall{Name: "nope", Arguments: `{}`}},
	}}, WithCallbacks(rec.handler()))
	if err != nil || len(out) != 2 {
		t.Fatal(out, err)
	}

	if c10Count(rec.starts, "Tool:ok_tool") != 1 || c10Count(rec.ends, "Tool:ok_tool") != 1 {
		t.Fatalf("known tool call not reported once: %v %v", rec.starts, rec.ends)
	}
	if c10Count(rec.starts, "Tool:nope") != 1 || c10Count(rec.ends, "Tool:nope") != 1 {
		t.Errorf("the tool call handled by UnknownToolsHandler fired no callbacks: starts=%v ends=%v", rec.starts, rec.ends)
	}
}

// LOWER CONFIDENCE (may be intended): a passthrough node is a node execution with its own component
// kind (ComponentOfPassthrough, meta.isComponentCallbackEnabled=false), but composablePassthrough's
// runnable is never wrapped with callbacks, so neither run-wide handlers nor a handler explicitly
// designated to that node are ever invoked for it (the designation is accepted silently).
func TestC10BaselinePassthroughNodeHasNoCallbacks(t *testing.T) {
	ctx := context.Background()
	g := NewGraph[string, string]()
	_ = g.AddPassthroughNode("p", WithNodeName("P"))
	_ = g.AddLambdaNode("a", InvokableLambda(func(ctx context.Context, in string) (string, error) { return in, nil }), WithNodeName("A"))
	_ = g.AddEdge(START, "p")
	_ = g.AddEdge("p", "a")
	_ = g.AddEdge("a", END)
	r, err := g.Compile(ctx, WithGraphName("G"))
	if err != nil {
		t.Fatal(err)
	}
	rec := &c10Rec{}
	if _, err = r.Invoke(ctx, "i", WithCallbacks(rec.handler()).DesignateNode("p")); err != nil {
		t.Fatal(err)
	}
	want := fmt.Sprintf("%s:P", ComponentOfPassthrough)
	if c10Count(rec.starts, want) != 1 || c10Count(rec.ends, want) != 1 {
		t.Errorf("handler designated to the passthrough node never fired: starts=%v ends=%v", rec.starts, rec.ends)
	}
}
