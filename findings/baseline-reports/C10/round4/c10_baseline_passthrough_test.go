package compose

import (
	"context"
	"sync"
	"testing"

	"github.com/cloudwego/eino/callbacks"
)

// LOW CONFIDENCE (probably intended, see notes.md): a pass-through node is a node of the graph, it is executed as a
// task like every other node, and a handler may be designated to it (extractOption accepts a callbacks-only option
// for a pass-through node) - but no callback is ever fired for its execution, neither for designated nor for
// global / per-call handlers.
func TestC10Baseline_PassthroughNodeFiresNoCallbacks(t *testing.T) {
	ctx := context.Background()
	g := NewGraph[string, string]()
	_ = g.AddLambdaNode("x", InvokableLambda(func(ctx context.Context, in string) (string, error) { return in + "x", nil }), WithNodeName("X"))
	_ = g.AddPassthroughNode("p", WithNodeName("P"))
	_ = g.AddEdge(START, "x")
	_ = g.AddEdge("x", "p")
	_ = g.AddEdge("p", END)
	r, err := g.Compile(ctx, WithGraphName("TOP"))
	if err != nil {
		t.Fatal(err)
	}

	var mu sync.Mutex
	events := map[string][]string{} // handler id -> events
	mk := func(id string) callbacks.Handler {
		return callbacks.NewHandlerBuilder().
			OnStartFn(func(ctx context.Context, info *callbacks.RunInfo, _ callbacks.CallbackInput) context.Context {
				mu.Lock()
				events[id] = append(events[id], "start "+info.Name)
				mu.Unlock()
				return ctx
			}).
			OnEndFn(func(ctx context.Context, info *callbacks.RunInfo, _ callbacks.CallbackOutput) context.Context {
				mu.Lock()
				events[id] = append(events[id], "end "+info.Name)
				mu.Unlock()
				return ctx
			}).Build()
	}

	out, err := r.Invoke(ctx, "in", WithCallbacks(mk("common")), WithCallbacks(mk("designated")).DesignateNode("p"))
	if err != nil || out != "inx" {
		t.Fatalf("out=%q err=%v", out, err)
	}

	if len(events["designated"]) != 2 {
		t.Errorf("handler designated to pass-through node p: events %v, want [start P, end P]", events["designated"])
	}
	seenP := false
	for _, e := range events["common"] {
		if e == "start P" {
			seenP = true
		}
	}
	if !seenP {
		t.Errorf("common handler saw no event for the execution of node p: %v", events["common"])
	}
}
