package compose

import (
	"context"
	"fmt"
	"sync"
	"testing"

	"github.com/cloudwego/eino/callbacks"
	"github.com/cloudwego/eino/schema"
)

// c10bRec records, per unit name, the starts and the end-like events (with payload) a handler is given.
type c10bRec struct {
	mu     sync.Mutex
	starts map[string]int
	ends   map[string][]string
}

func newC10bRec() *c10bRec {
	return &c10bRec{starts: map[string]int{}, ends: map[string][]string{}}
}

func (h *c10bRec) start(info *callbacks.RunInfo) {
	h.mu.Lock()
	h.starts[info.Name]++
	h.mu.Unlock()
}

func (h *c10bRec) end(info *callbacks.RunInfo, what string) {
	h.mu.Lock()
	h.ends[info.Name] = append(h.ends[info.Name], what)
	h.mu.Unlock()
}

func (h *c10bRec) OnStart(ctx context.Context, info *callbacks.RunInfo, _ callbacks.CallbackInput) context.Context {
	h.start(info)
	return ctx
}

func (h *c10bRec) OnEnd(ctx context.Context, info *callbacks.RunInfo, out callbacks.CallbackOutput) context.Context {
	h.end(info, fmt.Sprintf("end(%v)", out))
	return ctx
}

func (h *c10bRec) OnError(ctx context.Context, info *callbacks.RunInfo, err error) context.Context {
	h.end(info, "error")
	return ctx
}

func (h *c10bRec) OnStartWithStreamInput(ctx context.Context, info *callbacks.RunInfo,
	input *schema.StreamReader[callbacks.CallbackInput]) context.Context {
	input.Close()
	h.start(info)
	return ctx
}

func (h *c10bRec) OnEndWithStreamOutput(ctx context.Context, info *callbacks.RunInfo,
	output *schema.StreamReader[callbacks.CallbackOutput]) context.Context {
	output.Close()
	h.end(info, "stream-end")
	return ctx
}

func (h *c10bRec) get(unit string) (int, []string) {
	h.mu.Lock()
	defer h.mu.Unlock()
	return h.starts[unit], append([]string(nil), h.ends[unit]...)
}

func c10bAppend(tag string) *Lambda {
	return InvokableLambda(func(ctx context.Context, in string) (string, error) { return in + tag, nil })
}

// inner graph: START -> x -> branch(condition) -> y | z -> END
func c10bGraphWithBranch(cond func(ctx context.Context, in string) (string, error)) *Graph[string, string] {
	g := NewGraph[string, string]()
	_ = g.AddLambdaNode("x", c10bAppend("x"), WithNodeName("X"))
	_ = g.AddLambdaNode("y", c10bAppend("y"), WithNodeName("Y"))
	_ = g.AddLambdaNode("z", c10bAppend("z"), WithNodeName("Z"))
	_ = g.AddEdge(START, "x")
	_ = g.AddBranch("x", NewGraphBranch(cond, map[string]bool{"y": true, "z": true}))
	_ = g.AddEdge("y", END)
	_ = g.AddEdge("z", END)
	return g
}

func c10bOuter(t *testing.T, inner AnyGraph) Runnable[string, string] {
	t.Helper()
	outer := NewGraph[string, string]()
	if err := outer.AddGraphNode("sub", inner, WithNodeName("SUB")); err != nil {
		t.Fatal(err)
	}
	_ = outer.AddEdge(START, "sub")
	_ = outer.AddEdge("sub", END)
	r, err := outer.Compile(context.Background(), WithGraphName("OUTER"))
	if err != nil {
		t.Fatal(err)
	}
	return r
}

func c10bExpectFailedUnit(t *testing.T, rec *c10bRec, unit string) {
	t.Helper()
	starts, ends := rec.get(unit)
	if starts != 1 {
		t.Errorf("unit %q: %d starts, want 1", unit, starts)
	}
	if len(ends) != 1 || ends[0] != "error" {
		t.Errorf("unit %q crashed (the run reports an error for it), its handlers must be given exactly one OnError; got %v",
			unit, ends)
	}
}

// A branch condition runs in the goroutine of the graph's run loop. When it panics, the sub graph's run is aborted
// by the panic, the enclosing graph reports a node error for the sub graph node - but the handlers of the sub graph
// unit are told that it ENDED successfully, with a nil output it never produced.
func TestC10Baseline_SubGraphCrashedByBranchPanic_Invoke(t *testing.T) {
	inner := c10bGraphWithBranch(func(ctx context.Context, in string) (string, error) {
		panic("branch condition boom")
	})
	r := c10bOuter(t, inner)

	rec := newC10bRec()
	out, err := r.Invoke(context.Background(), "in", WithCallbacks(rec))
	if err == nil {
		t.Fatalf("expected the run to fail, got output %q", out)
	}
	c10bExpectFailedUnit(t, rec, "SUB")
	c10bExpectFailedUnit(t, rec, "OUTER")
}

// Same in a streaming run. Here the deferred callback code of the crashed graph itself panics (it asserts the nil
// result to a stream), so the sub graph unit gets a start and no end event at all.
func TestC10Baseline_SubGraphCrashedByBranchPanic_Stream(t *testing.T) {
	inner := c10bGraphWithBranch(func(ctx context.Context, in string) (string, error) {
		panic("branch condition boom")
	})
	r := c10bOuter(t, inner)

	rec := newC10bRec()
	sr, err := r.Stream(context.Background(), "in", WithCallbacks(rec))
	if err == nil {
		sr.Close()
		t.Fatalf("expected the run to fail")
	}
	c10bExpectFailedUnit(t, rec, "SUB")
	c10bExpectFailedUnit(t, rec, "OUTER")
}

type c10bState struct{ n int }

// A state pre handler also runs in the goroutine of the run loop (taskManager.submit): same outcome.
func TestC10Baseline_SubGraphCrashedByStatePreHandlerPanic(t *testing.T) {
	inner := NewGraph[string, string](WithGenLocalState(func(ctx context.Context) *c10bState { return &c10bState{} }))
	_ = inner.AddLambdaNode("x", c10bAppend("x"), WithNodeName("X"),
		WithStatePreHandler(func(ctx context.Context, in string, s *c10bState) (string, error) {
			panic("state pre handler boom")
		}))
	_ = inner.AddEdge(START, "x")
	_ = inner.AddEdge("x", END)
	r := c10bOuter(t, inner)

	rec := newC10bRec()
	out, err := r.Invoke(context.Background(), "in", WithCallbacks(rec))
	if err == nil {
		t.Fatalf("expected the run to fail, got output %q", out)
	}
	c10bExpectFailedUnit(t, rec, "SUB")
}

// At top level the panic escapes to the caller of Invoke; on its way out the graph's handlers are told that the
// graph ended successfully with a nil output.
func TestC10Baseline_TopLevelGraphCrashedByBranchPanic(t *testing.T) {
	g := c10bGraphWithBranch(func(ctx context.Context, in string) (string, error) {
		panic("branch condition boom")
	})
	r, err := g.Compile(context.Background(), WithGraphName("TOP"))
	if err != nil {
		t.Fatal(err)
	}

	rec := newC10bRec()
	func() {
		defer func() {
			if p := recover(); p != nil {
				t.Logf("the panic escaped Invoke: %v", p)
			}
		}()
		_, _ = r.Invoke(context.Background(), "in", WithCallbacks(rec))
	}()
	_, ends := rec.get("TOP")
	for _, e := range ends {
		if e != "error" {
			t.Errorf("graph TOP crashed, but its handlers were given %q (all events: %v)", e, ends)
		}
	}
}
