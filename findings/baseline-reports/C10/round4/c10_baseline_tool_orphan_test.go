package compose

import (
	"context"
	"sync"
	"testing"
	"time"

	"github.com/cloudwego/eino/callbacks"
	"github.com/cloudwego/eino/components/tool"
	"github.com/cloudwego/eino/schema"
)

type c10oTool struct {
	name string
	run  func(ctx context.Context, arg string) (string, error)
}

func (x *c10oTool) Info(ctx context.Context) (*schema.ToolInfo, error) {
	return &schema.ToolInfo{Name: x.name}, nil
}

func (x *c10oTool) InvokableRun(ctx context.Context, arg string, opts ...tool.Option) (string, error) {
	return x.run(ctx, arg)
}

// c10oSeq records the global order of events as "<kind> <unit name>".
type c10oSeq struct {
	mu  sync.Mutex
	evs []string
}

func (s *c10oSeq) add(e string) {
	s.mu.Lock()
	s.evs = append(s.evs, e)
	s.mu.Unlock()
}

func (s *c10oSeq) snapshot() []string {
	s.mu.Lock()
	defer s.mu.Unlock()
	return append([]string(nil), s.evs...)
}

// The first tool call of a message runs in the goroutine of the ToolsNode, the others in goroutines of their own.
// When the first one panics, parallelRunToolCall is left by the panic without waiting for the others: the tools
// node, and then the whole graph, are reported as ended (OnError) while a tool call is still running; that call's
// end callback fires after the run has returned to the caller.
func TestC10Baseline_ToolCallOutlivesTheRunWhenFirstCallPanics(t *testing.T) {
	ctx := context.Background()

	release := make(chan struct{})
	slowStarted := make(chan struct{})
	slowDone := make(chan struct{})

	tn, err := NewToolNode(ctx, &ToolsNodeConfig{Tools: []tool.BaseTool{
		&c10oTool{"boom", func(ctx context.Context, arg string) (string, error) {
			<-slowStarted // make sure the other call is really running
			panic("tool boom")
		}},
		&c10oTool{"slow", func(ctx context.Context, arg string) (string, error) {
			close(slowStarted)
			<-release
			return "done", nil
		}},
	}})
	if err != nil {
		t.Fatal(err)
	}

	g := NewGraph[*schema.Message, []*schema.Message]()
	_ = g.AddToolsNode("tools", tn, WithNodeName("TOOLS"))
	_ = g.AddEdge(START, "tools")
	_ = g.AddEdge("tools", END)
	r, err := g.Compile(ctx, WithGraphName("TOP"))
	if err != nil {
		t.Fatal(err)
	}

	seq := &c10oSeq{}
	h := callbacks.NewHandlerBuilder().
		OnStartFn(func(ctx context.Context, info *callbacks.RunInfo, _ callbacks.CallbackInput) context.Context {
			seq.add("start " + info.Name)
			return ctx
		}).
		OnEndFn(func(ctx context.Context, info *callbacks.RunInfo, _ callbacks.CallbackOutput) context.Context {
			seq.add("end " + info.Name)
			if info.Name == "slow" {
				close(slowDone)
			}
			return ctx
		}).
		OnErrorFn(func(ctx context.Context, info *callbacks.RunInfo, _ error) context.Context {
			seq.add("error " + info.Name)
			return ctx
		}).Build()

	msg := &schema.Message{Role: schema.Assistant, ToolCalls: []schema.ToolCall{
		{ID: "c0", Function: schema.FunctionCall{Name: "boom", Arguments: "{}"}}, // first: runs in the node's goroutine
		{ID: "c1", Function: schema.FunctionCall{Name: "slow", Arguments: "{}"}},
	}}

	_, err = r.Invoke(ctx, msg, WithCallbacks(h))
	if err == nil {
		t.Fatal("expected the run to fail")
	}

	atReturn := seq.snapshot()

	// let the orphan finish, so that the test does not leak it, and see where its end event lands
	close(release)
	select {
	case <-slowDone:
	case <-time.After(5 * time.Second):
		t.Fatal("tool call 'slow' never ended")
	}
	final := seq.snapshot()

	started, ended := map[string]bool{}, map[string]bool{}
	for _, e := range atReturn {
		var kind, name string
		for i := range e {
			if e[i] == ' ' {
				kind, name = e[:i], e[i+1:]
				break
			}
		}
		if kind == "start" {
			started[name] = true
		} else {
			ended[name] = true
		}
	}
	for name := range started {
		if !ended[name] {
			t.Errorf("Invoke has returned (graph TOP was reported as ended), but unit %q has started and not ended.\n"+
				"events when Invoke returned: %v\nevents in the end:           %v", name, atReturn, final)
		}
	}
}
