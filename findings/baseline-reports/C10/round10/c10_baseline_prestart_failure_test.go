package compose

import (
	"context"
	"errors"
	"fmt"
	"strings"
	"sync"
	"testing"

	"github.com/cloudwego/eino/callbacks"
	"github.com/cloudwego/eino/schema"
)

type c10bRecorder struct {
	mu     sync.Mutex
	events map[string][]string
}

func newC10bRecorder() *c10bRecorder { return &c10bRecorder{events: map[string][]string{}} }

func (r *c10bRecorder) add(kind string, info *callbacks.RunInfo) {
	r.mu.Lock()
	defer r.mu.Unlock()
	unit := fmt.Sprintf("%s/%s", info.Component, info.Name)
	r.events[unit] = append(r.events[unit], kind)
}

func (r *c10bRecorder) of(unit string) string {
	r.mu.Lock()
	defer r.mu.Unlock()
	return fmt.Sprint(r.events[unit])
}

func (r *c10bRecorder) handler() callbacks.Handler {
	return callbacks.NewHandlerBuilder().
		OnStartFn(func(ctx context.Context, info *callbacks.RunInfo, _ callbacks.CallbackInput) context.Context {
			r.add("start", info)
			return ctx
		}).
		OnEndFn(func(ctx context.Context, info *callbacks.RunInfo, _ callbacks.CallbackOutput) context.Context {
			r.add("end", info)
			return ctx
		}).
		OnErrorFn(func(ctx context.Context, info *callbacks.RunInfo, _ error) context.Context {
			r.add("error", info)
			return ctx
		}).
		OnStartWithStreamInputFn(func(ctx context.Context, info *callbacks.RunInfo, in *schema.StreamReader[callbacks.CallbackInput]) context.Context {
			in.Close()
			r.add("start", info)
			return ctx
		}).
		OnEndWithStreamOutputFn(func(ctx context.Context, info *callbacks.RunInfo, out *schema.StreamReader[callbacks.CallbackOutput]) context.Context {
			out.Close()
			r.add("end", info)
			return ctx
		}).Build()
}

// Stream run, A (stream producer) -> B (invoke-only lambda). A's stream carries an error chunk. The run fails with a
// node error of B ("node path: [B]"): the failure happens in B's task, inside the stream->value adapter the framework
// puts around B's function (transformByInvoke: concat of the input stream), i.e. outside the callback wrapper that sits
// around the function itself. B's handlers, including one designated to B, hear nothing: no start, no error.
func TestC10Baseline_NodeFailingInInputAdapterFiresNoCallbacks(t *testing.T) {
	ctx := context.Background()
	g := NewGraph[string, string]()
	_ = g.AddLambdaNode("A", TransformableLambda(func(ctx context.Context, in *schema.StreamReader[string]) (*schema.StreamReader[string], error) {
		in.Close()
		sr, sw := schema.Pipe[string](2)
		sw.Send("x", nil)
		sw.Send("", errors.New("boom"))
		sw.Close()
		return sr, nil
	}), WithNodeName("A"))
	_ = g.AddLambdaNode("B", InvokableLambda(func(ctx context.Context, in string) (string, error) {
		return in + "b", nil
	}), WithNodeName("B"))
	_ = g.AddEdge(START, "A")
	_ = g.AddEdge("A", "B")
	_ = g.AddEdge("B", END)
	r, err := g.Compile(ctx, WithGraphName("G"))
	if err != nil {
		t.Fatal(err)
	}

	all, onlyB := newC10bRecorder(), newC10bRecorder()
	sr, err := r.Stream(ctx, "in", WithCallbacks(all.handler()), WithCallbacks(onlyB.handler()).DesignateNode("B"))
	if err == nil {
		sr.Close()
		t.Fatal("expected the run to fail")
	}
	if !strings.Contains(err.Error(), "node path: [B]") {
		t.Fatalf("expected a node error of B, got: %v", err)
	}
	t.Logf("run error: %v", err)
	t.Logf("events: %v", all.events)

	if got, want := all.of("Lambda/B"), "[start error]"; got != want {
		t.Errorf("node B failed (the run error carries node path [B]) but its callbacks were: %s, want %s", got, want)
	}
	if got, want := onlyB.of("Lambda/B"), "[start error]"; got != want {
		t.Errorf("handler designated to node B: %s, want %s", got, want)
	}
}

// The same class in invoke mode: a node added with WithInputKey whose key is missing from the input map fails with a
// node error of its own ("[NodeRunError] cannot find input key"), raised by the keyed wrapper around the callback
// wrapper: no callback of the node fires.
func TestC10Baseline_NodeFailingInInputKeyWrapperFiresNoCallbacks(t *testing.T) {
	ctx := context.Background()
	g := NewGraph[map[string]any, string]()
	_ = g.AddLambdaNode("B", InvokableLambda(func(ctx context.Context, in string) (string, error) {
		return in + "b", nil
	}), WithNodeName("B"), WithInputKey("k"))
	_ = g.AddEdge(START, "B")
	_ = g.AddEdge("B", END)
	r, err := g.Compile(ctx, WithGraphName("G"))
	if err != nil {
		t.Fatal(err)
	}
	all := newC10bRecorder()
	_, err = r.Invoke(ctx, map[string]any{"other": "x"}, WithCallbacks(all.handler()))
	if err == nil || !strings.Contains(err.Error(), "node path: [B]") {
		t.Fatalf("expected a node error of B, got: %v", err)
	}
	t.Logf("run error: %v", err)
	t.Logf("events: %v", all.events)
	if got, want := all.of("Lambda/B"), "[start error]"; got != want {
		t.Errorf("node B failed (the run error carries node path [B]) but its callbacks were: %s, want %s", got, want)
	}
}
