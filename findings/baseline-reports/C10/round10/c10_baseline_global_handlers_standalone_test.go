package compose

import (
	"context"
	"fmt"
	"sync"
	"testing"

	"github.com/cloudwego/eino/callbacks"
	"github.com/cloudwego/eino/components/tool"
	icb "github.com/cloudwego/eino/internal/callbacks"
	"github.com/cloudwego/eino/schema"
)

type c10bTool struct{ name string }

func (c *c10bTool) Info(context.Context) (*schema.ToolInfo, error) {
	return &schema.ToolInfo{Name: c.name}, nil
}

func (c *c10bTool) InvokableRun(_ context.Context, args string, _ ...tool.Option) (string, error) {
	return c.name + ":" + args, nil
}

// Global handlers (callbacks.AppendGlobalHandlers) apply to every unit. Inside a graph run the tool calls of a ToolsNode
// are reported to them. When the same ToolsNode is called on its own (ToolsNode.Invoke / Stream are public and documented
// as usable that way) with a context that carries no handlers yet, the tool calls are reported to nobody: the node
// prepares each call with callbacks.ReuseHandlers, which returns the context untouched when it holds no manager instead
// of creating one from the global handlers (InitCallbacks / AppendHandlers do create one). The same holds for the inner
// units of the retriever flows (router, multi-query, parent) when they are used outside a graph.
func TestC10Baseline_GlobalHandlersMissToolCallsOfStandaloneToolsNode(t *testing.T) {
	ctx := context.Background()

	var mu sync.Mutex
	events := map[string][]string{}
	add := func(kind string, info *callbacks.RunInfo) {
		mu.Lock()
		defer mu.Unlock()
		unit := fmt.Sprintf("%s/%s", info.Component, info.Name)
		events[unit] = append(events[unit], kind)
	}
	global := callbacks.NewHandlerBuilder().
		OnStartFn(func(ctx context.Context, info *callbacks.RunInfo, _ callbacks.CallbackInput) context.Context {
			add("start", info)
			return ctx
		}).
		OnEndFn(func(ctx context.Context, info *callbacks.RunInfo, _ callbacks.CallbackOutput) context.Context {
			add("end", info)
			return ctx
		}).
		OnErrorFn(func(ctx context.Context, info *callbacks.RunInfo, _ error) context.Context {
			add("error", info)
			return ctx
		}).Build()

	old := icb.GlobalHandlers
	defer func() { icb.GlobalHandlers = old }()
	callbacks.AppendGlobalHandlers(global)

	tn, err := NewToolNode(ctx, &ToolsNodeConfig{Tools: []tool.BaseTool{&c10bTool{name: "t1"}}})
	if err != nil {
		t.Fatal(err)
	}
	msg := &schema.Message{Role: schema.Assistant, ToolCalls: []schema.ToolCall{
		{ID: "c1", Function: schema.FunctionCall{Name: "t1", Arguments: "a"}},
	}}

	// control: inside a graph the global handler hears about the tool call
	g := NewGraph[*schema.Message, []*schema.Message]()
	_ = g.AddToolsNode("tools", tn, WithNodeName("tools"))
	_ = g.AddEdge(START, "tools")
	_ = g.AddEdge("tools", END)
	r, err := g.Compile(ctx)
	if err != nil {
		t.Fatal(err)
	}
	if _, err = r.Invoke(ctx, msg); err != nil {
		t.Fatal(err)
	}
	if got := fmt.Sprint(events["Tool/t1"]); got != "[start end]" {
		t.Fatalf("control (inside a graph): tool call events %s, want [start end]", got)
	}

	mu.Lock()
	events = map[string][]string{}
	mu.Unlock()

	// the ToolsNode on its own
	out, err := tn.Invoke(ctx, msg)
	if err != nil || len(out) != 1 {
		t.Fatalf("unexpected result: %v %v", out, err)
	}
	mu.Lock()
	defer mu.Unlock()
	if got := fmt.Sprint(events["Tool/t1"]); got != "[start end]" {
		t.Errorf("standalone ToolsNode: the global handler got %s for the tool call, want [start end] (all events: %v)", got, events)
	}
}
