package parent

import (
	"context"
	"fmt"
	"sync"
	"testing"

	"github.com/cloudwego/eino/callbacks"
	"github.com/cloudwego/eino/components/document"
	"github.com/cloudwego/eino/components/indexer"
	"github.com/cloudwego/eino/compose"
	"github.com/cloudwego/eino/schema"
)

// both wrapped components fire their own callbacks (components.Checker), like real store / splitter implementations

type c10SelfReportingTransformer struct{}

func (tr *c10SelfReportingTransformer) GetType() string          { return "InnerSplitter" }
func (tr *c10SelfReportingTransformer) IsCallbacksEnabled() bool { return true }

func (tr *c10SelfReportingTransformer) Transform(ctx context.Context, src []*schema.Document, _ ...document.TransformerOption) ([]*schema.Document, error) {
	ctx = callbacks.OnStart(ctx, &document.TransformerCallbackInput{Input: src})
	var out []*schema.Document
	for _, d := range src {
		out = append(out, &schema.Document{ID: d.ID, Content: d.Content + "-1"}, &schema.Document{ID: d.ID, Content: d.Content + "-2"})
	}
	callbacks.OnEnd(ctx, &document.TransformerCallbackOutput{Output: out})
	return out, nil
}

type c10SelfReportingIndexer struct{}

func (ix *c10SelfReportingIndexer) GetType() string          { return "InnerStore" }
func (ix *c10SelfReportingIndexer) IsCallbacksEnabled() bool { return true }

func (ix *c10SelfReportingIndexer) Store(ctx context.Context, docs []*schema.Document, _ ...indexer.Option) ([]string, error) {
	ctx = callbacks.OnStart(ctx, &indexer.CallbackInput{Docs: docs})
	ids := make([]string, 0, len(docs))
	for _, d := range docs {
		ids = append(ids, d.ID)
	}
	callbacks.OnEnd(ctx, &indexer.CallbackOutput{IDs: ids})
	return ids, nil
}

type c10Recorder struct {
	mu     sync.Mutex
	starts map[string][]string // unit -> payload types
	ends   map[string][]string
}

func c10Unit(info *callbacks.RunInfo) string {
	return fmt.Sprintf("%s/%s/%s", info.Component, info.Name, info.Type)
}

func (r *c10Recorder) handler() callbacks.Handler {
	return callbacks.NewHandlerBuilder().
		OnStartFn(func(ctx context.Context, info *callbacks.RunInfo, in callbacks.CallbackInput) context.Context {
			r.mu.Lock()
			r.starts[c10Unit(info)] = append(r.starts[c10Unit(info)], fmt.Sprintf("%T", in))
			r.mu.Unlock()
			return ctx
		}).
		OnEndFn(func(ctx context.Context, info *callbacks.RunInfo, out callbacks.CallbackOutput) context.Context {
			r.mu.Lock()
			r.ends[c10Unit(info)] = append(r.ends[c10Unit(info)], fmt.Sprintf("%T", out))
			r.mu.Unlock()
			return ctx
		}).
		OnErrorFn(func(ctx context.Context, info *callbacks.RunInfo, err error) context.Context {
			r.mu.Lock()
			r.ends[c10Unit(info)] = append(r.ends[c10Unit(info)], "error")
			r.mu.Unlock()
			return ctx
		}).Build()
}

// The parent indexer runs as one graph node; the transformer and the indexer it wraps are units of their own: every
// unit is reported once, under its own run info.
func TestC10Baseline_ParentIndexerInnerUnits(t *testing.T) {
	ctx := context.Background()
	pi, err := NewIndexer(ctx, &Config{
		Indexer:     &c10SelfReportingIndexer{},
		Transformer: &c10SelfReportingTransformer{},
		ParentIDKey: "parent",
		SubIDGenerator: func(ctx context.Context, parentID string, num int) ([]string, error) {
			ids := make([]string, num)
			for i := range ids {
				ids[i] = fmt.Sprintf("%s_%d", parentID, i)
			}
			return ids, nil
		},
	})
	if err != nil {
		t.Fatal(err)
	}

	g := compose.NewGraph[[]*schema.Document, []string]()
	if err = g.AddIndexerNode("ix", pi, compose.WithNodeName("parent_indexer")); err != nil {
		t.Fatal(err)
	}
	if err = g.AddEdge(compose.START, "ix"); err != nil {
		t.Fatal(err)
	}
	if err = g.AddEdge("ix", compose.END); err != nil {
		t.Fatal(err)
	}
	run, err := g.Compile(ctx, compose.WithGraphName("g"))
	if err != nil {
		t.Fatal(err)
	}

	rec := &c10Recorder{starts: map[string][]string{}, ends: map[string][]string{}}
	ids, err := run.Invoke(ctx, []*schema.Document{{ID: "d", Content: "c"}}, compose.WithCallbacks(rec.handler()))
	if err != nil {
		t.Fatal(err)
	}
	if len(ids) != 2 {
		t.Fatalf("unexpected ids: %v", ids)
	}

	rec.mu.Lock()
	defer rec.mu.Unlock()
	for unit, s := range rec.starts {
		if len(s) != 1 || len(rec.ends[unit]) != 1 {
			t.Errorf("unit %q: starts with payloads %v, ends with payloads %v: want exactly one start and one end",
				unit, s, rec.ends[unit])
		}
	}
	if len(rec.starts) != 4 {
		t.Errorf("want 4 units (graph, parent indexer node, wrapped transformer, wrapped indexer), got starts=%v ends=%v", rec.starts, rec.ends)
	}
}
