package parent

import (
	"context"
	"fmt"
	"sync"
	"testing"

	"github.com/cloudwego/eino/callbacks"
	"github.com/cloudwego/eino/components/retriever"
	"github.com/cloudwego/eino/compose"
	"github.com/cloudwego/eino/schema"
)

// c10SelfReportingRetriever fires its own callbacks, like the retrievers of real stores do
// (components.Checker): whoever runs it only has to give it the context of its own unit.
type c10SelfReportingRetriever struct{}

func (r *c10SelfReportingRetriever) GetType() string          { return "Inner" }
func (r *c10SelfReportingRetriever) IsCallbacksEnabled() bool { return true }

func (r *c10SelfReportingRetriever) Retrieve(ctx context.Context, query string, _ ...retriever.Option) ([]*schema.Document, error) {
	ctx = callbacks.OnStart(ctx, &retriever.CallbackInput{Query: query})
	docs := []*schema.Document{{ID: "sub", MetaData: map[string]any{"parent": "p1"}}}
	callbacks.OnEnd(ctx, &retriever.CallbackOutput{Docs: docs})
	return docs, nil
}

type c10Recorder struct {
	mu     sync.Mutex
	starts map[string][]string // unit -> payload types
	ends   map[string][]string
}

func c10Unit(info *callbacks.RunInfo) string {
	return fmt.Sprintf("%s/%s/%s", info.Component, info.Name, info.Type)
}

func (r *c10Recorder) handler() callbacks.Handler {
	return callbacks.NewHandlerBuilder().
		OnStartFn(func(ctx context.Context, info *callbacks.RunInfo, in callbacks.CallbackInput) context.Context {
			r.mu.Lock()
			r.starts[c10Unit(info)] = append(r.starts[c10Unit(info)], fmt.Sprintf("%T", in))
			r.mu.Unlock()
			return ctx
		}).
		OnEndFn(func(ctx context.Context, info *callbacks.RunInfo, out callbacks.CallbackOutput) context.Context {
			r.mu.Lock()
			r.ends[c10Unit(info)] = append(r.ends[c10Unit(info)], fmt.Sprintf("%T", out))
			r.mu.Unlock()
			return ctx
		}).
		OnErrorFn(func(ctx context.Context, info *callbacks.RunInfo, err error) context.Context {
			r.mu.Lock()
			r.ends[c10Unit(info)] = append(r.ends[c10Unit(info)], "error")
			r.mu.Unlock()
			return ctx
		}).Build()
}

// The parent retriever runs as one graph node, the retriever it wraps is a unit of its own (as the wrapped
// retrievers of the multi-query and router flows are): every unit is reported once, under its own run info.
func TestC10Baseline_ParentRetrieverInnerUnit(t *testing.T) {
	ctx := context.Background()
	pr, err := NewRetriever(ctx, &Config{
		Retriever:   &c10SelfReportingRetriever{},
		ParentIDKey: "parent",
		OrigDocGetter: func(ctx context.Context, ids []string) ([]*schema.Document, error) {
			ret := make([]*schema.Document, 0, len(ids))
			for _, id := range ids {
				ret = append(ret, &schema.Document{ID: id})
			}
			return ret, nil
		},
	})
	if err != nil {
		t.Fatal(err)
	}

	g := compose.NewGraph[string, []*schema.Document]()
	if err = g.AddRetrieverNode("r", pr, compose.WithNodeName("parent_retriever")); err != nil {
		t.Fatal(err)
	}
	if err = g.AddEdge(compose.START, "r"); err != nil {
		t.Fatal(err)
	}
	if err = g.AddEdge("r", compose.END); err != nil {
		t.Fatal(err)
	}
	run, err := g.Compile(ctx, compose.WithGraphName("g"))
	if err != nil {
		t.Fatal(err)
	}

	rec := &c10Recorder{starts: map[string][]string{}, ends: map[string][]string{}}
	docs, err := run.Invoke(ctx, "q", compose.WithCallbacks(rec.handler()))
	if err != nil {
		t.Fatal(err)
	}
	if len(docs) != 1 || docs[0].ID != "p1" {
		t.Fatalf("unexpected docs: %v", docs)
	}

	rec.mu.Lock()
	defer rec.mu.Unlock()
	for unit, s := range rec.starts {
		if len(s) != 1 || len(rec.ends[unit]) != 1 {
			t.Errorf("unit %q: starts with payloads %v, ends with payloads %v: want exactly one start and one end",
				unit, s, rec.ends[unit])
		}
	}
	if len(rec.starts) != 3 {
		t.Errorf("want 3 units (graph, parent retriever node, wrapped retriever), got starts=%v ends=%v", rec.starts, rec.ends)
	}
}
