package compose

import (
	"context"
	"fmt"
	"strings"
	"sync"
	"testing"

	"github.com/cloudwego/eino/callbacks"
	"github.com/cloudwego/eino/components/prompt"
	"github.com/cloudwego/eino/schema"
)

type c10bRecorder struct {
	mu     sync.Mutex
	starts map[string]int
	ends   map[string]int
	log    []string
}

func (r *c10bRecorder) handler() callbacks.Handler {
	key := func(info *callbacks.RunInfo) string { return fmt.Sprintf("%s/%s", info.Component, info.Name) }
	return callbacks.NewHandlerBuilder().
		OnStartFn(func(ctx context.Context, info *callbacks.RunInfo, _ callbacks.CallbackInput) context.Context {
			r.mu.Lock()
			defer r.mu.Unlock()
			r.starts[key(info)]++
			r.log = append(r.log, "start "+key(info))
			return ctx
		}).
		OnEndFn(func(ctx context.Context, info *callbacks.RunInfo, _ callbacks.CallbackOutput) context.Context {
			r.mu.Lock()
			defer r.mu.Unlock()
			r.ends[key(info)]++
			r.log = append(r.log, "end "+key(info))
			return ctx
		}).
		OnErrorFn(func(ctx context.Context, info *callbacks.RunInfo, err error) context.Context {
			r.mu.Lock()
			defer r.mu.Unlock()
			r.ends[key(info)]++
			r.log = append(r.log, "error "+key(info)+": "+strings.SplitN(err.Error(), "\n", 2)[0])
			return ctx
		}).Build()
}

// The built-in chat template fires its own callbacks (IsCallbacksEnabled() == true), so the graph does not wrap the
// node. When formatting panics (here: the jinja2 engine divides by zero while rendering "{{ a % b }}", b == 0) the
// template has already delivered OnStart, but nobody delivers OnError for the node: the task executor recovers the
// panic and fails the run, and the handler is left with a started-but-never-ended ChatTemplate unit.
// A lambda node that panics in the same place does get its OnError (runWithCallbacks reports the panic).
func TestC10Baseline_ChatTemplatePanicLeavesNodeUnended(t *testing.T) {
	ctx := context.Background()

	build := func(t *testing.T, addNode func(g *Graph[map[string]any, []*schema.Message]) error) Runnable[map[string]any, []*schema.Message] {
		g := NewGraph[map[string]any, []*schema.Message]()
		if err := addNode(g); err != nil {
			t.Fatal(err)
		}
		if err := g.AddEdge(START, "n"); err != nil {
			t.Fatal(err)
		}
		if err := g.AddEdge("n", END); err != nil {
			t.Fatal(err)
		}
		r, err := g.Compile(ctx, WithGraphName("G"))
		if err != nil {
			t.Fatal(err)
		}
		return r
	}

	check := func(t *testing.T, rec *c10bRecorder, unit string, runErr error) {
		t.Helper()
		if runErr == nil {
			t.Fatalf("expected the run to fail")
		}
		t.Logf("run error: %s", strings.SplitN(runErr.Error(), "\n", 2)[0])
		rec.mu.Lock()
		defer rec.mu.Unlock()
		for _, u := range []string{unit, "Graph/G"} {
			if rec.starts[u] != 1 || rec.ends[u] != 1 {
				t.Errorf("unit %s: started %d time(s), ended %d time(s); want 1 and 1\nevents:\n  %s",
					u, rec.starts[u], rec.ends[u], strings.Join(rec.log, "\n  "))
			}
		}
	}

	input := map[string]any{"a": 1, "b": 0}

	t.Run("reference: a lambda node that panics is reported", func(t *testing.T) {
		r := build(t, func(g *Graph[map[string]any, []*schema.Message]) error {
			return g.AddLambdaNode("n", InvokableLambda(func(ctx context.Context, in map[string]any) ([]*schema.Message, error) {
				_ = in["a"].(int) % in["b"].(int)
				return nil, nil
			}), WithNodeName("N"))
		})
		rec := &c10bRecorder{starts: map[string]int{}, ends: map[string]int{}}
		_, err := r.Invoke(ctx, input, WithCallbacks(rec.handler()))
		check(t, rec, "Lambda/N", err)
	})

	t.Run("chat template node that panics", func(t *testing.T) {
		r := build(t, func(g *Graph[map[string]any, []*schema.Message]) error {
			return g.AddChatTemplateNode("n", prompt.FromMessages(schema.Jinja2, schema.UserMessage("{{ a % b }}")), WithNodeName("N"))
		})
		rec := &c10bRecorder{starts: map[string]int{}, ends: map[string]int{}}
		_, err := r.Invoke(ctx, input, WithCallbacks(rec.handler()))
		check(t, rec, "ChatTemplate/N", err)
	})
}
