package compose

import (
	"context"
	"errors"
	"fmt"
	"sync"
	"testing"
	"time"

	"github.com/cloudwego/eino/callbacks"
)

// A Workflow with two parallel nodes. "fails" returns an error at once, "slow" is still running then.
// When Invoke returns (and the workflow's own OnError has been delivered) every node that was started
// should have been ended: the run is over.
func TestC10BaselineWorkflowReturnsWhileNodeStillRunning(t *testing.T) {
	var mu sync.Mutex
	var events []string
	add := func(timing string, info *callbacks.RunInfo) {
		mu.Lock()
		defer mu.Unlock()
		events = append(events, fmt.Sprintf("%s %s/%s", timing, info.Component, info.Name))
	}
	snapshot := func() []string {
		mu.Lock()
		defer mu.Unlock()
		return append([]string{}, events...)
	}
	handler := callbacks.NewHandlerBuilder().
		OnStartFn(func(ctx context.Context, info *callbacks.RunInfo, _ callbacks.CallbackInput) context.Context {
			add("start", info)
			return ctx
		}).
		OnEndFn(func(ctx context.Context, info *callbacks.RunInfo, _ callbacks.CallbackOutput) context.Context {
			add("end", info)
			return ctx
		}).
		OnErrorFn(func(ctx context.Context, info *callbacks.RunInfo, _ error) context.Context {
			add("error", info)
			return ctx
		}).Build()

	slowStarted := make(chan struct{})
	release := make(chan struct{})
	slowDone := make(chan struct{})

	wf := NewWorkflow[string, map[string]any]()
	wf.AddLambdaNode("fails", InvokableLambda(func(ctx context.Context, in string) (string, error) {
		<-slowStarted // both nodes are running now
		return "", errors.New("boom")
	}), WithNodeName("fails")).AddInput(START)
	wf.AddLambdaNode("slow", InvokableLambda(func(ctx context.Context, in string) (string, error) {
		defer close(slowDone)
		close(slowStarted)
		select {
		case <-release:
		case <-time.After(5 * time.Second):
		}
		return in, nil
	}), WithNodeName("slow")).AddInput(START)
	wf.End().AddInput("fails", ToField("a")).AddInput("slow", ToField("b"))

	ctx := context.Background()
	r, err := wf.Compile(ctx, WithGraphName("wf"))
	if err != nil {
		t.Fatal(err)
	}

	_, err = r.Invoke(ctx, "in", WithCallbacks(handler))
	if err == nil {
		t.Fatal("expected the error of node 'fails'")
	}

	atReturn := snapshot()
	close(release)
	<-slowDone
	time.Sleep(50 * time.Millisecond)
	afterwards := snapshot()

	count := func(list []string, s string) int {
		n := 0
		for _, e := range list {
			if e == s {
				n++
			}
		}
		return n
	}

	if count(atReturn, "start Lambda/slow") != 1 {
		t.Fatalf("node slow was not started: %v", atReturn)
	}
	if count(atReturn, "error Workflow/wf") != 1 {
		t.Fatalf("workflow error callback missing: %v", atReturn)
	}
	if count(atReturn, "end Lambda/slow")+count(atReturn, "error Lambda/slow") != 1 {
		t.Errorf("Invoke has returned and the workflow has been reported as failed, but node 'slow' has been started and not ended.\nat return:  %v\nafterwards: %v", atReturn, afterwards)
	}
}
