package router

import (
	"context"
	"fmt"
	"sort"
	"sync"
	"testing"

	"github.com/cloudwego/eino/callbacks"
	"github.com/cloudwego/eino/components/retriever"
	"github.com/cloudwego/eino/compose"
	"github.com/cloudwego/eino/schema"
)

// selfFiringRetriever fires its own callbacks, the way the component implementations outside this repository do,
// and says so through components.Checker.
type selfFiringRetriever struct{}

func (r *selfFiringRetriever) GetType() string          { return "SelfFiring" }
func (r *selfFiringRetriever) IsCallbacksEnabled() bool { return true }

func (r *selfFiringRetriever) Retrieve(ctx context.Context, query string, _ ...retriever.Option) ([]*schema.Document, error) {
	ctx = callbacks.OnStart(ctx, query)
	docs := []*schema.Document{{ID: query}}
	callbacks.OnEnd(ctx, docs)
	return docs, nil
}

type c10Rec struct {
	mu     sync.Mutex
	events []string
}

func (r *c10Rec) handler() callbacks.Handler {
	add := func(timing string, info *callbacks.RunInfo) {
		r.mu.Lock()
		defer r.mu.Unlock()
		r.events = append(r.events, fmt.Sprintf("%s %s/%s", timing, info.Component, info.Name))
	}
	return callbacks.NewHandlerBuilder().
		OnStartFn(func(ctx context.Context, info *callbacks.RunInfo, _ callbacks.CallbackInput) context.Context {
			add("start", info)
			return ctx
		}).
		OnEndFn(func(ctx context.Context, info *callbacks.RunInfo, _ callbacks.CallbackOutput) context.Context {
			add("end", info)
			return ctx
		}).Build()
}

func (r *c10Rec) count(s string) int {
	r.mu.Lock()
	defer r.mu.Unlock()
	n := 0
	for _, e := range r.events {
		if e == s {
			n++
		}
	}
	return n
}

// The same self-firing retriever once as a graph node (the graph leaves the callbacks to it: one start, one end)
// and once behind the router retriever.
func TestC10BaselineRouterFiresForSelfFiringRetriever(t *testing.T) {
	ctx := context.Background()

	// reference: directly as a graph node
	{
		rec := &c10Rec{}
		g := compose.NewGraph[string, []*schema.Document]()
		_ = g.AddRetrieverNode("r", &selfFiringRetriever{}, compose.WithNodeName("direct"))
		_ = g.AddEdge(compose.START, "r")
		_ = g.AddEdge("r", compose.END)
		run, err := g.Compile(ctx)
		if err != nil {
			t.Fatal(err)
		}
		if _, err = run.Invoke(ctx, "q", compose.WithCallbacks(rec.handler())); err != nil {
			t.Fatal(err)
		}
		if n := rec.count("start Retriever/direct"); n != 1 {
			t.Fatalf("direct node: %d starts, want 1: %v", n, rec.events)
		}
	}

	rr, err := NewRetriever(ctx, &Config{
		Retrievers: map[string]retriever.Retriever{"only": &selfFiringRetriever{}},
		Router: func(ctx context.Context, query string) ([]string, error) {
			return []string{"only"}, nil
		},
	})
	if err != nil {
		t.Fatal(err)
	}

	rec := &c10Rec{}
	g := compose.NewGraph[string, []*schema.Document]()
	_ = g.AddRetrieverNode("r", rr, compose.WithNodeName("routed"))
	_ = g.AddEdge(compose.START, "r")
	_ = g.AddEdge("r", compose.END)
	run, err := g.Compile(ctx)
	if err != nil {
		t.Fatal(err)
	}
	if _, err = run.Invoke(ctx, "q", compose.WithCallbacks(rec.handler())); err != nil {
		t.Fatal(err)
	}

	sort.Strings(rec.events)
	// one retrieval by the inner retriever: one start and one end with its run info
	if n := rec.count("start Retriever/SelfFiringRetriever"); n != 1 {
		t.Errorf("inner retriever: %d starts for one retrieval, want 1: %v", n, rec.events)
	}
	if n := rec.count("end Retriever/SelfFiringRetriever"); n != 1 {
		t.Errorf("inner retriever: %d ends for one retrieval, want 1: %v", n, rec.events)
	}
}
