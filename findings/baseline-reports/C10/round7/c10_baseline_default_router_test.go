package router

import (
	"context"
	"testing"

	"github.com/cloudwego/eino/callbacks"
	"github.com/cloudwego/eino/components/retriever"
	"github.com/cloudwego/eino/schema"
)

type c10PlainRetriever struct{}

func (r *c10PlainRetriever) Retrieve(_ context.Context, query string, _ ...retriever.Option) ([]*schema.Document, error) {
	return []*schema.Document{{ID: query}}, nil
}

// Config.Router is optional: NewRetriever builds a default router that selects every retriever. The retriever it
// returns must use it; instead the "RouterLambda" unit is started and the call panics on a nil function, so the
// unit is never ended.
func TestC10BaselineRouterDefaultRouter(t *testing.T) {
	ctx := context.Background()
	rr, err := NewRetriever(ctx, &Config{
		Retrievers: map[string]retriever.Retriever{"a": &c10PlainRetriever{}},
	})
	if err != nil {
		t.Fatal(err)
	}

	starts, ends := 0, 0
	h := callbacks.NewHandlerBuilder().
		OnStartFn(func(ctx context.Context, info *callbacks.RunInfo, _ callbacks.CallbackInput) context.Context {
			if info.Name == "RouterLambda" {
				starts++
			}
			return ctx
		}).
		OnEndFn(func(ctx context.Context, info *callbacks.RunInfo, _ callbacks.CallbackOutput) context.Context {
			if info.Name == "RouterLambda" {
				ends++
			}
			return ctx
		}).
		OnErrorFn(func(ctx context.Context, info *callbacks.RunInfo, _ error) context.Context {
			if info.Name == "RouterLambda" {
				ends++
			}
			return ctx
		}).Build()
	ctx = callbacks.InitCallbacks(ctx, &callbacks.RunInfo{}, h)

	func() {
		defer func() {
			if p := recover(); p != nil {
				t.Errorf("Retrieve with the default router panicked: %v", p)
			}
		}()
		docs, err := rr.Retrieve(ctx, "q")
		if err != nil || len(docs) != 1 {
			t.Errorf("docs=%v err=%v", docs, err)
		}
	}()
	if starts != 1 || ends != 1 {
		t.Errorf("RouterLambda unit: %d starts, %d ends; want 1 and 1", starts, ends)
	}
}
