package compose

import (
	"context"
	"testing"
)

type c07bIn struct {
	A string
	B int
}

// A static value is known, with its concrete Go type, when the workflow is compiled, and so is the type of the field
// it is declared for. Compile does not compare the two: the workflow compiles and EVERY run fails at request time with
// "field has a mismatched type. field=B, from=string, to=int".
func TestC07Baseline_StaticValueOfWrongTypeCompiles(t *testing.T) {
	ctx := context.Background()

	wf := NewWorkflow[string, string]()
	wf.AddLambdaNode("n", InvokableLambda(func(ctx context.Context, in c07bIn) (string, error) { return in.A, nil })).
		AddInput(START, ToField("A")).
		SetStaticValue(FieldPath{"B"}, "not an int") // field B is an int
	wf.End().AddInput("n")

	r, err := wf.Compile(ctx)
	if err != nil {
		return // rejected at Compile: what one expects for a mismatch between two concrete types
	}

	out, err := r.Invoke(ctx, "x")
	if err != nil {
		t.Fatalf("a string static value for an int field compiled, and the run failed on the type mismatch: %v", err)
	}
	t.Fatalf("a string static value for an int field compiled (Invoke gave %q)", out)
}
