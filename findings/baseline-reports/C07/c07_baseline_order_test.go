package compose

import (
	"context"
	"fmt"
	"testing"
)

// 5. (weaker than 1-4: no panic, but an order dependent static decision)
//
// START(string) -> P(pass-through) -> S(fmt.Stringer -> string)   and   P -> W(any -> string)
//
// A string can never be a fmt.Stringer, so the path START -> P -> S connects two concretely declared,
// incompatible types through a pass-through node and "must be rejected ... also when the types are only
// inferred through pass-through nodes". Whether it is rejected depends on the order in which the edges are
// added: the pass-through node takes the type of the first typed neighbour it is connected to.
//   - START->P first: P becomes string, P->S is string -> fmt.Stringer: rejected (correct).
//   - P->W first: P becomes `any` (W's input type), START->P is string -> any (fine), P->S is
//     any -> fmt.Stringer, i.e. "may be assignable": accepted, and EVERY run fails with
//     "runtime type check fail".
func c07bOrderGraph(order []string) (Runnable[string, string], error) {
	g := NewGraph[string, string]()
	if err := g.AddPassthroughNode("P"); err != nil {
		return nil, err
	}
	if err := g.AddLambdaNode("S", InvokableLambda(func(ctx context.Context, in fmt.Stringer) (string, error) {
		return in.String(), nil
	})); err != nil {
		return nil, err
	}
	if err := g.AddLambdaNode("W", InvokableLambda(func(ctx context.Context, in any) (string, error) {
		return fmt.Sprint(in), nil
	})); err != nil {
		return nil, err
	}
	edges := map[string][2]string{"START->P": {START, "P"}, "P->W": {"P", "W"}, "P->S": {"P", "S"}, "S->END": {"S", END}}
	for _, e := range order {
		if err := g.AddEdge(edges[e][0], edges[e][1]); err != nil {
			return nil, err
		}
	}
	return g.Compile(context.Background())
}

func TestC07Baseline_PassthroughWidenedByFirstNeighbour(t *testing.T) {
	_, errA := c07bOrderGraph([]string{"START->P", "P->W", "P->S", "S->END"})
	rB, errB := c07bOrderGraph([]string{"P->W", "START->P", "P->S", "S->END"})
	t.Logf("order A (START->P first): build error = %v", errA)
	t.Logf("order B (P->W first):     build error = %v", errB)
	if errA == nil {
		t.Fatalf("order A unexpectedly accepted")
	}
	if errB == nil {
		_, runErr := rB.Invoke(context.Background(), "x")
		t.Fatalf("string -> (pass-through) -> fmt.Stringer is rejected in order A but compiles in order B; "+
			"every run of it then fails: %.200v", runErr)
	}
}
