package compose

import (
	"context"
	"fmt"
	"strings"
	"testing"
)

// Reproducers for defects of the UNMODIFIED tree against property C07
// ("a graph that compiles cannot hit a type mismatch between concretely typed nodes; where the upstream type is
// an interface the dynamic value is checked at run time and an ordinary error is reported exactly when it is
// not assignable").

// c07bInvoke runs r.Invoke, converting a Go panic into an error whose text starts with "GO PANIC".
func c07bInvoke[I, O any](r Runnable[I, O], in I) (out O, err error) {
	defer func() {
		if p := recover(); p != nil {
			err = fmt.Errorf("GO PANIC: %v", p)
		}
	}()
	return r.Invoke(context.Background(), in)
}

func c07bIsPanic(err error) bool {
	return err != nil && (strings.Contains(err.Error(), "GO PANIC") || strings.Contains(err.Error(), "panic error"))
}

func c07bMust(t *testing.T, errs ...error) {
	t.Helper()
	for _, err := range errs {
		if err != nil {
			t.Fatal(err)
		}
	}
}

// 1. Two nodes with the IDENTICAL declared type fmt.Stringer. The producer returns a nil fmt.Stringer, which
// is a perfectly valid value of that type. The consumer's wrapper does `input.(I)` on the boxed value, which
// fails for a nil interface, and panics with "unexpected input type. expected: fmt.Stringer, got: <nil>".
func TestC07Baseline_NilInterfaceValueBetweenIdenticalTypes(t *testing.T) {
	g := NewGraph[string, string]()
	c07bMust(t,
		g.AddLambdaNode("A", InvokableLambda(func(ctx context.Context, in string) (fmt.Stringer, error) {
			return nil, nil
		})),
		g.AddLambdaNode("B", InvokableLambda(func(ctx context.Context, in fmt.Stringer) (string, error) {
			if in == nil {
				return "nil", nil
			}
			return in.String(), nil
		})),
		g.AddEdge(START, "A"), g.AddEdge("A", "B"), g.AddEdge("B", END))
	r, err := g.Compile(context.Background())
	c07bMust(t, err)

	out, err := c07bInvoke(r, "x")
	if err != nil {
		t.Fatalf("nil fmt.Stringer sent over a fmt.Stringer -> fmt.Stringer edge (panic=%v): %.200s", c07bIsPanic(err), err.Error())
	}
	if out != "nil" {
		t.Fatalf("unexpected output %q", out)
	}
}

// 2. any -> fmt.Stringer is a run-time checked edge. A nil value IS assignable to fmt.Stringer, but the checker
// `v.(T)` rejects it: "runtime type check fail, expected type: <nil>, actual type: <nil>". The error is
// reported although the value is assignable ("exactly when it is not assignable" is violated).
func TestC07Baseline_NilRejectedByRuntimeCheckToInterface(t *testing.T) {
	g := NewGraph[string, string]()
	c07bMust(t,
		g.AddLambdaNode("A", InvokableLambda(func(ctx context.Context, in string) (any, error) {
			return nil, nil
		})),
		g.AddLambdaNode("B", InvokableLambda(func(ctx context.Context, in fmt.Stringer) (string, error) {
			if in == nil {
				return "nil", nil
			}
			return in.String(), nil
		})),
		g.AddEdge(START, "A"), g.AddEdge("A", "B"), g.AddEdge("B", END))
	r, err := g.Compile(context.Background())
	c07bMust(t, err)

	out, err := c07bInvoke(r, "x")
	if err != nil {
		t.Fatalf("nil sent over a checked any -> fmt.Stringer edge was rejected (panic=%v): %.200s", c07bIsPanic(err), err.Error())
	}
	if out != "nil" {
		t.Fatalf("unexpected output %q", out)
	}
}

// 3. WithInputKey: the connection map[string]any -> map[string]any type-checks statically, the value under the
// key is an interface value that the framework has to check at run time. In Stream mode it does
// (defaultStreamMapFilter reports "[defaultStreamMapFilter]fail, key[k]'s value type[int] isn't expected
// type[string]"), in Invoke mode inputKeyedComposableRunnable hands m[key] to the node unchecked and the node
// panics with "unexpected input type. expected: string, got: int".
func TestC07Baseline_InputKeyValueUncheckedInInvoke(t *testing.T) {
	g := NewGraph[string, string]()
	c07bMust(t,
		g.AddLambdaNode("A", InvokableLambda(func(ctx context.Context, in string) (map[string]any, error) {
			return map[string]any{"k": 42}, nil
		})),
		g.AddLambdaNode("B", InvokableLambda(func(ctx context.Context, in string) (string, error) {
			return in, nil
		}), WithInputKey("k")),
		g.AddEdge(START, "A"), g.AddEdge("A", "B"), g.AddEdge("B", END))
	r, err := g.Compile(context.Background())
	c07bMust(t, err)

	// stream mode: ordinary error (this part passes)
	sr, err := r.Stream(context.Background(), "x")
	if err == nil {
		_, err = sr.Recv()
		sr.Close()
	}
	if err == nil || c07bIsPanic(err) || !strings.Contains(err.Error(), "isn't expected type") {
		t.Fatalf("stream mode: expected the ordinary type error, got %v", err)
	}

	// invoke mode: must be an ordinary error as well, but is a node panic
	_, err = c07bInvoke(r, "x")
	if err == nil {
		t.Fatal("int under input key reached a string node without error")
	}
	if c07bIsPanic(err) {
		t.Fatalf("invoke mode: the int stored under the input key reached the string node and made it panic: %.200s", err.Error())
	}
}

// 4. A state handler on a pass-through node has to be declared on `any` (AddPassthroughNode rejects everything
// else), but the pass-through node itself gets the concrete type of its neighbours (string here) and the edge
// P -> B is accepted statically as string -> string. Whatever the any-typed handler returns is forwarded
// unchecked, so an int reaches the string node B, which panics. The handler's declared (upstream) type is an
// interface, so its result should be checked at run time against the inferred type and reported as an
// ordinary error.
func TestC07Baseline_PassthroughAnyHandlerResultUnchecked(t *testing.T) {
	g := NewGraph[string, string](WithGenLocalState(func(ctx context.Context) *int { return new(int) }))
	c07bMust(t,
		g.AddLambdaNode("A", InvokableLambda(func(ctx context.Context, in string) (string, error) {
			return in, nil
		})),
		g.AddPassthroughNode("P", WithStatePostHandler(func(ctx context.Context, out any, s *int) (any, error) {
			return 42, nil
		})),
		g.AddLambdaNode("B", InvokableLambda(func(ctx context.Context, in string) (string, error) {
			return in, nil
		})),
		g.AddEdge(START, "A"), g.AddEdge("A", "P"), g.AddEdge("P", "B"), g.AddEdge("B", END))
	r, err := g.Compile(context.Background())
	c07bMust(t, err)

	_, err = c07bInvoke(r, "x")
	if err == nil {
		t.Fatal("int reached a string node without error")
	}
	if c07bIsPanic(err) {
		t.Fatalf("the int returned by the pass-through node's any-typed handler reached the string node and made it panic: %.200s", err.Error())
	}
}
