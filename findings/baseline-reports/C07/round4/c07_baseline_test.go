package compose

import (
	"context"
	"fmt"
	"strings"
	"testing"
)

// Reproducers for C07 on the UNMODIFIED tree. Each test builds a graph that compiles and then shows a run
// that panics (or fails with a recovered panic) because of the Go type of a value reaching a node.

func c07bInvoke[I, O any](ctx context.Context, r Runnable[I, O], in I) (out O, err error, panicked bool) {
	defer func() {
		if p := recover(); p != nil {
			panicked = true
			err = fmt.Errorf("PANIC escaped Invoke: %v", p)
		}
	}()
	out, err = r.Invoke(ctx, in)
	return out, err, false
}

func c07bIsPanic(err error) bool {
	return err != nil && strings.Contains(strings.ToLower(err.Error()), "panic")
}

// 1. A nil interface value is a perfectly assignable value of every interface type, yet it cannot cross an
// edge between two nodes of the SAME interface type (any -> any, assignableTypeMust, no run-time check at all):
// the consumer's input assertion input.(I) is false for a nil `any`, and the node panics with
// "unexpected input type. expected: interface {}, got: <nil>".
func TestC07Baseline_NilInterfaceValueOverAnyToAnyEdge(t *testing.T) {
	ctx := context.Background()
	g := NewGraph[string, string]()
	_ = g.AddLambdaNode("lookup", InvokableLambda(func(ctx context.Context, in string) (any, error) {
		if in == "missing" {
			return nil, nil // "no result": a valid value of type any
		}
		return in, nil
	}))
	_ = g.AddLambdaNode("render", InvokableLambda(func(ctx context.Context, in any) (string, error) {
		return fmt.Sprint(in), nil
	}))
	_ = g.AddEdge(START, "lookup")
	_ = g.AddEdge("lookup", "render")
	_ = g.AddEdge("render", END)
	r, err := g.Compile(ctx)
	if err != nil {
		t.Fatal(err)
	}

	out, err, panicked := c07bInvoke(ctx, r, "x")
	if err != nil || out != "x" {
		t.Fatalf("non-nil value: %q %v", out, err)
	}
	out, err, panicked = c07bInvoke(ctx, r, "missing")
	if panicked || c07bIsPanic(err) {
		t.Fatalf("nil value of type any over an any->any edge: %.300v", err)
	}
	if err != nil || out != "<nil>" {
		t.Fatalf("nil value of type any over an any->any edge: got %q, %v", out, err)
	}
}

// 2. Same root cause, no nil produced by user code at all: in a DAG (AllPredecessor) run a node whose only data
// predecessor was skipped by a branch, but which still has a live control predecessor, is started with the
// zero value of its input type. For an interface input type that zero value is a nil interface and the node
// panics on its own input assertion.
func TestC07Baseline_DAGZeroValueOfInterfaceInput(t *testing.T) {
	ctx := context.Background()
	g := NewGraph[string, string]()
	_ = g.AddLambdaNode("a", InvokableLambda(func(ctx context.Context, in string) (string, error) { return in, nil }))
	_ = g.AddLambdaNode("opt", InvokableLambda(func(ctx context.Context, in string) (fmt.Stringer, error) {
		return c07bName(in), nil
	}))
	_ = g.AddLambdaNode("other", InvokableLambda(func(ctx context.Context, in string) (string, error) { return in, nil }))
	_ = g.AddLambdaNode("join", InvokableLambda(func(ctx context.Context, in fmt.Stringer) (string, error) {
		if in == nil {
			return "none", nil
		}
		return in.String(), nil
	}))
	_ = g.AddEdge(START, "a")
	// a picks "other"; "opt" (the only data predecessor of "join") is skipped
	_ = g.AddBranch("a", NewGraphBranch(func(ctx context.Context, in string) (string, error) {
		return "other", nil
	}, map[string]bool{"opt": true, "other": true}))
	_ = g.AddEdge("opt", "join")
	// control-only dependency other -> join keeps "join" alive
	if err := g.addEdgeWithMappings("other", "join", false, true); err != nil {
		t.Fatal(err)
	}
	_ = g.AddEdge("join", END)
	r, err := g.Compile(ctx, WithNodeTriggerMode(AllPredecessor))
	if err != nil {
		t.Fatal(err)
	}
	out, err, panicked := c07bInvoke(ctx, r, "x")
	if panicked || c07bIsPanic(err) {
		t.Fatalf("zero value of the interface input type handed to the node by the framework itself: %.300v", err)
	}
	if err != nil || out != "none" {
		t.Fatalf("got %q, %v", out, err)
	}
}

type c07bName string

func (n c07bName) String() string { return string(n) }

// 3. WithInputKey: the connection map[string]any -> map[string]any is concrete on both sides and compiles, the
// value stored under the key is dynamic. In a Stream run a wrongly typed value under the key is an ordinary
// error (defaultStreamMapFilter), in an Invoke run it is handed to the node unchecked and the node panics.
func TestC07Baseline_InputKeyValueOfWrongTypePanicsInInvoke(t *testing.T) {
	ctx := context.Background()
	g := NewGraph[map[string]any, string]()
	_ = g.AddLambdaNode("n", InvokableLambda(func(ctx context.Context, in string) (string, error) {
		return in, nil
	}), WithInputKey("k"))
	_ = g.AddEdge(START, "n")
	_ = g.AddEdge("n", END)
	r, err := g.Compile(ctx)
	if err != nil {
		t.Fatal(err)
	}
	_, err, panicked := c07bInvoke(ctx, r, map[string]any{"k": 42})
	if err == nil {
		t.Fatal("want an error")
	}
	if panicked || c07bIsPanic(err) {
		t.Fatalf("int under input key of a string node: want an ordinary error, got %.300v", err)
	}
}

// 4. A pass-through node with WithInputKey: its declared input type is map[string]any, its output type is
// inferred from the successor only (here END, string). Nothing checks the value found under the key, the
// pass-through forwards it, and the int reaches END(string): the unchecked assertion out.(O) of the outermost
// runnable panics and the panic ESCAPES Invoke (it is not even converted into an error).
func TestC07Baseline_PassthroughWithInputKeyForwardsAnyValue(t *testing.T) {
	ctx := context.Background()
	g := NewGraph[map[string]any, string]()
	_ = g.AddPassthroughNode("p", WithInputKey("k"))
	_ = g.AddEdge(START, "p")
	_ = g.AddEdge("p", END)
	r, err := g.Compile(ctx)
	if err != nil {
		t.Fatal(err)
	}
	out, err, panicked := c07bInvoke(ctx, r, map[string]any{"k": "fine"})
	if err != nil || out != "fine" {
		t.Fatalf("string under key: %q, %v", out, err)
	}
	_, err, panicked = c07bInvoke(ctx, r, map[string]any{"k": 42})
	if panicked || c07bIsPanic(err) {
		t.Fatalf("int under input key of a pass-through in front of END(string): %.300v", err)
	}
	if err == nil {
		t.Fatal("want an (ordinary) error")
	}
}

// 5. State handlers of a pass-through node must be typed `any` (addNode enforces it). The pass-through itself
// gets a concrete inferred type (string here, from both neighbours), so the edges around it are
// concrete -> concrete and carry no run-time check; but the `any` handler may return a value of any dynamic
// type, and that value reaches the concretely typed successor unchecked.
func TestC07Baseline_PassthroughAnyStateHandlerChangesDynamicType(t *testing.T) {
	ctx := context.Background()
	g := NewGraph[string, string](WithGenLocalState(func(ctx context.Context) *int { return new(int) }))
	_ = g.AddLambdaNode("a", InvokableLambda(func(ctx context.Context, in string) (string, error) { return in, nil }))
	if err := g.AddPassthroughNode("p", WithStatePostHandler(func(ctx context.Context, out any, state *int) (any, error) {
		*state++
		return *state, nil // an int leaves a pass-through whose inferred type is string
	})); err != nil {
		t.Fatal(err)
	}
	_ = g.AddLambdaNode("b", InvokableLambda(func(ctx context.Context, in string) (string, error) { return in, nil }))
	_ = g.AddEdge(START, "a")
	_ = g.AddEdge("a", "p")
	_ = g.AddEdge("p", "b")
	_ = g.AddEdge("b", END)
	r, err := g.Compile(ctx)
	if err != nil {
		t.Fatal(err)
	}
	_, err, panicked := c07bInvoke(ctx, r, "x")
	if err == nil {
		t.Fatal("want an error")
	}
	if panicked || c07bIsPanic(err) {
		t.Fatalf("int returned by the any-typed state handler of a string pass-through reached node b(string): %.300v", err)
	}
}
