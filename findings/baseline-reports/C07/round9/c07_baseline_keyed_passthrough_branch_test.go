package compose

import (
	"context"
	"fmt"
	"testing"
)

// C07 baseline reproducer (fails on the UNMODIFIED tree).
//
//	START(string) -> x (string -> any) -> p (pass-through, WithOutputKey("k")) -> branch(cond[map[string]any]) -> {a, b} -> END
//
// p hands on whatever it receives, wrapped as map[string]any{"k": value}; the branch condition and the nodes a and b
// read that map. With the edge x -> p added before the branch the graph compiles and runs. With the branch added
// before the edge, addBranch "infers" the still unknown type of the pass-through node from the branch condition's
// input type - which is the type of p's KEYED OUTPUT, not of the value p receives - so p is typed map[string]any
// inside, a run-time check for map[string]any is put on the interface-typed edge x -> p, and the same run fails with
// "runtime type check fail, expected type: map[string]interface {}, actual type: string" for a value that is
// perfectly assignable.
func buildC07BaselineKeyed(branchFirst bool) (Runnable[string, map[string]any], error) {
	g := NewGraph[string, map[string]any]()
	if err := g.AddLambdaNode("x", InvokableLambda(func(ctx context.Context, in string) (any, error) { return in, nil })); err != nil {
		return nil, err
	}
	if err := g.AddPassthroughNode("p", WithOutputKey("k")); err != nil {
		return nil, err
	}
	echo := func(ctx context.Context, in map[string]any) (map[string]any, error) { return in, nil }
	if err := g.AddLambdaNode("a", InvokableLambda(echo)); err != nil {
		return nil, err
	}
	if err := g.AddLambdaNode("b", InvokableLambda(echo)); err != nil {
		return nil, err
	}
	branch := NewGraphBranch(func(ctx context.Context, in map[string]any) (string, error) { return "a", nil },
		map[string]bool{"a": true, "b": true})

	if err := g.AddEdge(START, "x"); err != nil {
		return nil, err
	}
	if branchFirst {
		if err := g.AddBranch("p", branch); err != nil {
			return nil, fmt.Errorf("AddBranch: %w", err)
		}
		if err := g.AddEdge("x", "p"); err != nil {
			return nil, fmt.Errorf("AddEdge: %w", err)
		}
	} else {
		if err := g.AddEdge("x", "p"); err != nil {
			return nil, fmt.Errorf("AddEdge: %w", err)
		}
		if err := g.AddBranch("p", branch); err != nil {
			return nil, fmt.Errorf("AddBranch: %w", err)
		}
	}
	if err := g.AddEdge("a", END); err != nil {
		return nil, err
	}
	if err := g.AddEdge("b", END); err != nil {
		return nil, err
	}
	return g.Compile(context.Background())
}

func TestC07Baseline_KeyedPassthroughTypedFromBranch(t *testing.T) {
	ctx := context.Background()
	for _, branchFirst := range []bool{false, true} {
		r, err := buildC07BaselineKeyed(branchFirst)
		if err != nil {
			t.Errorf("branchFirst=%v: build/compile: %v", branchFirst, err)
			continue
		}

		out, err := r.Invoke(ctx, "hello")
		if err != nil {
			t.Errorf("branchFirst=%v: Invoke failed for an assignable value: %v", branchFirst, err)
		} else if out["k"] != "hello" {
			t.Errorf("branchFirst=%v: Invoke: unexpected output %v", branchFirst, out)
		}

		sr, err := r.Stream(ctx, "hello")
		if err != nil {
			t.Errorf("branchFirst=%v: Stream failed for an assignable value: %v", branchFirst, err)
			continue
		}
		sOut, err := concatStreamReader(sr)
		if err != nil {
			t.Errorf("branchFirst=%v: Stream failed for an assignable value: %v", branchFirst, err)
		} else if sOut["k"] != "hello" {
			t.Errorf("branchFirst=%v: Stream: unexpected output %v", branchFirst, sOut)
		}
	}
}

// The same mis-inference with a concretely typed predecessor: here the valid graph is refused, but only in one of the
// two construction orders (not a violation of C07 by itself - nothing wrong runs - it shows that the inferred type is
// the wrong one).
func TestC07Baseline_KeyedPassthroughTypedFromBranch_ConcretePredecessor(t *testing.T) {
	build := func(branchFirst bool) error {
		g := NewGraph[string, map[string]any]()
		_ = g.AddPassthroughNode("p", WithOutputKey("k"))
		echo := func(ctx context.Context, in map[string]any) (map[string]any, error) { return in, nil }
		_ = g.AddLambdaNode("a", InvokableLambda(echo))
		_ = g.AddLambdaNode("b", InvokableLambda(echo))
		branch := NewGraphBranch(func(ctx context.Context, in map[string]any) (string, error) { return "a", nil },
			map[string]bool{"a": true, "b": true})
		var errs []error
		if branchFirst {
			errs = append(errs, g.AddBranch("p", branch), g.AddEdge(START, "p"))
		} else {
			errs = append(errs, g.AddEdge(START, "p"), g.AddBranch("p", branch))
		}
		errs = append(errs, g.AddEdge("a", END), g.AddEdge("b", END))
		for _, err := range errs {
			if err != nil {
				return err
			}
		}
		_, err := g.Compile(context.Background())
		return err
	}
	for _, branchFirst := range []bool{false, true} {
		if err := build(branchFirst); err != nil {
			t.Errorf("branchFirst=%v: the graph START(string) -> p(WithOutputKey) -> branch(map[string]any) is refused: %v", branchFirst, err)
		}
	}
}
