package compose

import (
	"context"
	"strings"
	"testing"
)

// a(string) -> p(pass-through) -> e(int) connects two different concrete types through a pass-through node. Next to it
// p also feeds an any-typed consumer x. Whether the graph is refused must not depend on the order of the AddEdge calls.
func c07BaselineGraph(t *testing.T, edges [][2]string) (Runnable[string, any], error) {
	g := NewGraph[string, any]()
	if err := g.AddLambdaNode("a", InvokableLambda(func(ctx context.Context, in string) (string, error) { return in, nil })); err != nil {
		t.Fatal(err)
	}
	if err := g.AddPassthroughNode("p"); err != nil {
		t.Fatal(err)
	}
	if err := g.AddLambdaNode("x", InvokableLambda(func(ctx context.Context, in any) (any, error) { return in, nil })); err != nil {
		t.Fatal(err)
	}
	if err := g.AddLambdaNode("e", InvokableLambda(func(ctx context.Context, in int) (any, error) { return in, nil })); err != nil {
		t.Fatal(err)
	}
	for _, e := range edges {
		if err := g.AddEdge(e[0], e[1]); err != nil {
			return nil, err
		}
	}
	return g.Compile(context.Background())
}

func TestC07Baseline_PassthroughTypedFromAnyTypedNeighbourHidesConcreteMismatch(t *testing.T) {
	ctx := context.Background()

	// the typed predecessor first: p is typed string, p -> e(int) is refused
	_, err := c07BaselineGraph(t, [][2]string{
		{START, "a"}, {"a", "p"}, {"p", "x"}, {"p", "e"}, {"x", END}, {"e", END},
	})
	if err == nil || !strings.Contains(err.Error(), "mismatch") {
		t.Fatalf("a(string) -> p -> e(int) must be refused, got: %v", err)
	}

	// the same edges, the any-typed neighbour first: p is typed any, nothing is refused any more
	r, err := c07BaselineGraph(t, [][2]string{
		{START, "a"}, {"p", "x"}, {"a", "p"}, {"p", "e"}, {"x", END}, {"e", END},
	})
	if err != nil {
		if !strings.Contains(err.Error(), "mismatch") {
			t.Fatalf("unexpected build error: %v", err)
		}
		return // refused in this order too: fine
	}

	_, err = r.Invoke(ctx, "hello")
	t.Fatalf("the same graph, with the edges added in another order, compiled although a(string) feeds e(int) through p; "+
		"every run fails with: %v", err)
}

// The Workflow flavour, where the caller has no say in the order: Workflow.Compile attaches the branches before the
// inputs, so a pass-through node that a branch starts from is always typed from the branch condition's input type.
func TestC07Baseline_WorkflowPassthroughTypedFromAnyTypedBranchCondition(t *testing.T) {
	ctx := context.Background()

	wf := NewWorkflow[string, map[string]any]()
	wf.AddLambdaNode("a", InvokableLambda(func(ctx context.Context, in string) (string, error) { return in, nil })).AddInput(START)
	wf.AddPassthroughNode("p").AddInput("a")
	wf.AddLambdaNode("e", InvokableLambda(func(ctx context.Context, in int) (any, error) { return in, nil })).
		AddInputWithOptions("p", nil, WithNoDirectDependency())
	wf.AddLambdaNode("x", InvokableLambda(func(ctx context.Context, in any) (any, error) { return in, nil })).
		AddInputWithOptions("p", nil, WithNoDirectDependency())
	wf.AddBranch("p", NewGraphBranch(func(ctx context.Context, in any) (string, error) {
		return "e", nil
	}, map[string]bool{"e": true, "x": true}))
	wf.End().AddInput("e", ToField("e")).AddInput("x", ToField("x"))

	r, err := wf.Compile(ctx)
	if err != nil {
		if !strings.Contains(err.Error(), "mismatch") {
			t.Fatalf("unexpected build error: %v", err)
		}
		return // refused: fine
	}
	_, err = r.Invoke(ctx, "hello")
	t.Fatalf("the workflow compiled although a(string) feeds e(int) through the pass-through node p; the run fails with: %v", err)
}
