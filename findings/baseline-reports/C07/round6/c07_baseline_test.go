package compose

import (
	"context"
	"strings"
	"testing"
)

type c07BaselineState struct{}

func c07BaselineFirstLines(s string, n int) string {
	lines := strings.SplitN(s, "\n", n+1)
	if len(lines) > n {
		lines = lines[:n]
	}
	return strings.Join(lines, "\n")
}

// what the property allows for a value of the wrong dynamic type: nothing at all across concrete connections, and an
// ordinary error (not the node blowing up on its input assertion) where an interface-typed value is narrowed
func c07BaselineNoBlowUp(t *testing.T, what string, err error) {
	t.Helper()
	if err == nil {
		return
	}
	msg := err.Error()
	if strings.Contains(msg, "panic error") || strings.Contains(msg, "unexpected input type") {
		t.Errorf("%s: a value of the wrong Go type reached the node, which blew up on it:\n%s", what, c07BaselineFirstLines(msg, 3))
	}
}

// (1) A pass-through node only accepts state handlers typed `any` ("passthrough node[..]'s post handler type isn't
// any"). The node itself is typed from its neighbours (here string), and its outgoing edge P(string) -> B(string) is
// accepted as concrete-to-concrete, so nothing is checked at run time. The `any` handler is free to return a value of
// another type, which then reaches B.
func TestC07Baseline_PassthroughAnyHandlerChangesType(t *testing.T) {
	ctx := context.Background()

	for _, tc := range []struct {
		name string
		opt  GraphAddNodeOpt
	}{
		{"post handler", WithStatePostHandler(func(ctx context.Context, out any, s *c07BaselineState) (any, error) { return 42, nil })},
		{"pre handler", WithStatePreHandler(func(ctx context.Context, in any, s *c07BaselineState) (any, error) { return 42, nil })},
	} {
		t.Run(tc.name, func(t *testing.T) {
			g := NewGraph[string, string](WithGenLocalState(func(ctx context.Context) *c07BaselineState { return &c07BaselineState{} }))
			if err := g.AddPassthroughNode("P", tc.opt); err != nil {
				t.Fatal(err)
			}
			if err := g.AddLambdaNode("B", InvokableLambda(func(ctx context.Context, in string) (string, error) { return in + "!", nil })); err != nil {
				t.Fatal(err)
			}
			for _, e := range [][2]string{{START, "P"}, {"P", "B"}, {"B", END}} {
				if err := g.AddEdge(e[0], e[1]); err != nil {
					t.Fatal(err)
				}
			}
			r, err := g.Compile(ctx)
			if err != nil {
				t.Skipf("rejected at compile time, fine: %v", err)
			}
			_, err = r.Invoke(ctx, "x")
			// the connections START(string) -> P(string) -> B(string) are all concrete: either the graph is rejected, or the
			// handler's result is checked and an ordinary error is reported; B must not be handed an int
			c07BaselineNoBlowUp(t, "P(string) -> B(string) after an `any` state handler", err)
		})
	}
}

// (2) WithInputKey: the node's declared input becomes map[string]any and the value under the key (an `any`) is
// narrowed to the node's real input type. In Stream mode that narrowing is checked (defaultStreamMapFilter reports
// "key[k]'s value type[int] isn't expected type[string]"); in Invoke mode it is not checked at all.
func TestC07Baseline_InputKeyValueNotCheckedInInvokeMode(t *testing.T) {
	ctx := context.Background()

	t.Run("keyed lambda", func(t *testing.T) {
		g := NewGraph[map[string]any, string]()
		if err := g.AddLambdaNode("B", InvokableLambda(func(ctx context.Context, in string) (string, error) { return in + "!", nil }), WithInputKey("k")); err != nil {
			t.Fatal(err)
		}
		for _, e := range [][2]string{{START, "B"}, {"B", END}} {
			if err := g.AddEdge(e[0], e[1]); err != nil {
				t.Fatal(err)
			}
		}
		r, err := g.Compile(ctx)
		if err != nil {
			t.Fatal(err)
		}
		_, err = r.Invoke(ctx, map[string]any{"k": 1})
		if err == nil {
			t.Fatal("an int under the key of a string node: an error is expected")
		}
		c07BaselineNoBlowUp(t, "invoke, map[string]any{k: int} -> keyed string node", err)
	})

	// the keyed node is a pass-through: the unchecked value even crosses the concrete edge P(string) -> B(string)
	t.Run("keyed pass-through", func(t *testing.T) {
		g := NewGraph[map[string]any, string]()
		if err := g.AddPassthroughNode("P", WithInputKey("k")); err != nil {
			t.Fatal(err)
		}
		if err := g.AddLambdaNode("B", InvokableLambda(func(ctx context.Context, in string) (string, error) { return in + "!", nil })); err != nil {
			t.Fatal(err)
		}
		for _, e := range [][2]string{{START, "P"}, {"P", "B"}, {"B", END}} {
			if err := g.AddEdge(e[0], e[1]); err != nil {
				t.Fatal(err)
			}
		}
		r, err := g.Compile(ctx)
		if err != nil {
			t.Fatal(err)
		}
		_, err = r.Invoke(ctx, map[string]any{"k": 1})
		if err == nil {
			t.Fatal("an int under the key of a string pass-through: an error is expected")
		}
		c07BaselineNoBlowUp(t, "invoke, map[string]any{k: int} -> keyed pass-through(string) -> B(string)", err)
	})
}
