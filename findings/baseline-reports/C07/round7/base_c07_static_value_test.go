package compose

import (
	"context"
	"testing"
)

type c07StaticIn struct {
	Query string
	N     int
}

// A static value is fixed when the workflow is declared: its Go type and the type of the field it is set on are both
// known (and concrete) at Compile. A value that can never be assigned to the field must be rejected by Compile; on
// the unmodified tree the workflow compiles and every single run fails with the field-mapping type mismatch error.
func TestBaselineC07StaticValueOfWrongType(t *testing.T) {
	ctx := context.Background()

	wf := NewWorkflow[string, string]()
	wf.AddLambdaNode("a", InvokableLambda(func(ctx context.Context, in c07StaticIn) (string, error) {
		return in.Query, nil
	})).
		AddInput(START, ToField("Query")).
		SetStaticValue(FieldPath{"N"}, "not an int") // N is an int
	wf.End().AddInput("a")

	r, err := wf.Compile(ctx)
	if err != nil {
		t.Logf("rejected by Compile (expected): %v", err)
		return
	}

	out, err := r.Invoke(ctx, "q")
	t.Fatalf("the workflow compiled although string can never be assigned to the int field N; running it: out=%q err=%v", out, err)
}
