package multiquery

import (
	"context"
	"sync"
	"testing"

	"github.com/cloudwego/eino/components/retriever"
	"github.com/cloudwego/eino/compose"
	"github.com/cloudwego/eino/schema"
)

// the retriever wrapped by the multi-query retriever records the TopK it is called with
type topKRecorder struct {
	mu    sync.Mutex
	calls int
	topKs []int // -1: no TopK option arrived
}

func (r *topKRecorder) Retrieve(ctx context.Context, query string, opts ...retriever.Option) ([]*schema.Document, error) {
	o := retriever.GetCommonOptions(&retriever.Options{}, opts...)
	r.mu.Lock()
	defer r.mu.Unlock()
	r.calls++
	if o.TopK == nil {
		r.topKs = append(r.topKs, -1)
	} else {
		r.topKs = append(r.topKs, *o.TopK)
	}
	return []*schema.Document{{ID: query}}, nil
}

func newRecordingMultiQuery(t *testing.T) (retriever.Retriever, *topKRecorder) {
	rec := &topKRecorder{}
	r, err := NewRetriever(context.Background(), &Config{
		RewriteHandler: func(ctx context.Context, query string) ([]string, error) {
			return []string{query + "-a", query + "-b"}, nil
		},
		OrigRetriever: rec,
	})
	if err != nil {
		t.Fatal(err)
	}
	return r, rec
}

func (r *topKRecorder) check(t *testing.T, want int) {
	t.Helper()
	r.mu.Lock()
	defer r.mu.Unlock()
	if r.calls != 2 {
		t.Fatalf("the wrapped retriever was called %d times, want 2", r.calls)
	}
	for _, k := range r.topKs {
		if k != want {
			t.Fatalf("the wrapped retriever saw TopK %v (-1: none), want %d for every query", r.topKs, want)
		}
	}
}

// direct use of the component: the options of the Retrieve call never reach the retriever that does the retrieving
func TestBaselineC16_MultiQueryDropsRetrieveOptions(t *testing.T) {
	r, rec := newRecordingMultiQuery(t)
	if _, err := r.Retrieve(context.Background(), "q", retriever.WithTopK(7)); err != nil {
		t.Fatal(err)
	}
	rec.check(t, 7)
}

// as a retriever node of a graph: neither the undesignated nor the designated retriever option has any effect
func TestBaselineC16_MultiQueryNodeDropsCallOptions(t *testing.T) {
	for name, designate := range map[string]bool{"undesignated": false, "designated": true} {
		t.Run(name, func(t *testing.T) {
			r, rec := newRecordingMultiQuery(t)
			g := compose.NewGraph[string, []*schema.Document]()
			if err := g.AddRetrieverNode("mq", r); err != nil {
				t.Fatal(err)
			}
			_ = g.AddEdge(compose.START, "mq")
			_ = g.AddEdge("mq", compose.END)
			run, err := g.Compile(context.Background())
			if err != nil {
				t.Fatal(err)
			}
			opt := compose.WithRetrieverOption(retriever.WithTopK(7))
			if designate {
				opt = opt.DesignateNode("mq")
			}
			if _, err = run.Invoke(context.Background(), "q", opt); err != nil {
				t.Fatal(err)
			}
			rec.check(t, 7)
		})
	}
}
