package compose

import (
	"context"
	"testing"

	"github.com/cloudwego/eino/callbacks"
	"github.com/cloudwego/eino/components/model"
)

// START -> l (lambda without options) -> p (passthrough) -> END
func c16BaselineGraph(t *testing.T) Runnable[string, string] {
	t.Helper()
	g := NewGraph[string, string]()
	for _, err := range []error{
		g.AddLambdaNode("l", InvokableLambda(func(_ context.Context, in string) (string, error) { return in, nil })),
		g.AddPassthroughNode("p"),
		g.AddEdge(START, "l"),
		g.AddEdge("l", "p"),
		g.AddEdge("p", END),
	} {
		if err != nil {
			t.Fatal(err)
		}
	}
	r, err := g.Compile(context.Background())
	if err != nil {
		t.Fatal(err)
	}
	return r
}

// A passthrough node is not a graph: designating a path below it must be an error, exactly as it is for
// the lambda node next to it.
func TestC16Baseline_PathBelowPassthroughIsAnError(t *testing.T) {
	ctx := context.Background()
	r := c16BaselineGraph(t)

	// control: path below the lambda node is rejected
	_, err := r.Invoke(ctx, "x", WithChatModelOption(model.WithTemperature(1)).DesignateNodeWithPath(NewNodePath("l", "inner")))
	if err == nil {
		t.Fatal("control failed: a path below a lambda node was accepted")
	}

	_, err = r.Invoke(ctx, "x", WithChatModelOption(model.WithTemperature(1)).DesignateNodeWithPath(NewNodePath("p", "inner")))
	if err == nil {
		t.Error("component option designated to the path [p inner] below passthrough node p was silently accepted, want an error")
	}

	h := callbacks.NewHandlerBuilder().Build()
	_, err = r.Invoke(ctx, "x", WithCallbacks(h).DesignateNodeWithPath(NewNodePath("p", "inner")))
	if err == nil {
		t.Error("callbacks designated to the path [p inner] below passthrough node p were silently accepted, want an error")
	}
}

// A passthrough node takes no option at all: designating a chat model option to it is an option of the wrong
// type and must be an error, exactly as it is for the lambda node next to it.
func TestC16Baseline_WrongTypeOptionDesignatedToPassthroughIsAnError(t *testing.T) {
	ctx := context.Background()
	r := c16BaselineGraph(t)

	// control: the lambda node rejects it
	_, err := r.Invoke(ctx, "x", WithChatModelOption(model.WithTemperature(1)).DesignateNode("l"))
	if err == nil {
		t.Fatal("control failed: a chat model option designated to a lambda node was accepted")
	}

	_, err = r.Invoke(ctx, "x", WithChatModelOption(model.WithTemperature(1)).DesignateNode("p"))
	if err == nil {
		t.Error("chat model option designated to passthrough node p was silently accepted, want an error")
	}
}
