package compose

import (
	"context"
	"testing"

	"github.com/cloudwego/eino/components/model"
)

// START -(branch)-> a | sub{ x } -> END. The designated path [sub nope] names a node that does not exist.
// Whether this is reported depends on the input: the nested path is only checked when the nested graph
// happens to run.
func TestC16Baseline_UnknownNestedNodeIsAnErrorWhateverTheRoute(t *testing.T) {
	ctx := context.Background()
	id := func(_ context.Context, in string) (string, error) { return in, nil }

	sub := NewGraph[string, string]()
	g := NewGraph[string, string]()
	for _, err := range []error{
		sub.AddLambdaNode("x", InvokableLambda(id)),
		sub.AddEdge(START, "x"),
		sub.AddEdge("x", END),

		g.AddLambdaNode("a", InvokableLambda(id)),
		g.AddGraphNode("sub", sub),
		g.AddBranch(START, NewGraphBranch(func(_ context.Context, in string) (string, error) { return in, nil },
			map[string]bool{"a": true, "sub": true})),
		g.AddEdge("a", END),
		g.AddEdge("sub", END),
	} {
		if err != nil {
			t.Fatal(err)
		}
	}
	r, err := g.Compile(ctx)
	if err != nil {
		t.Fatal(err)
	}

	opt := WithChatModelOption(model.WithTemperature(1)).DesignateNodeWithPath(NewNodePath("sub", "nope"))

	_, err = r.Invoke(ctx, "sub", opt)
	if err == nil {
		t.Fatal("control failed: unknown nested node accepted although the nested graph ran")
	}
	_, err = r.Invoke(ctx, "a", opt)
	if err == nil {
		t.Error("option designated to the unknown node [sub nope] was silently accepted because the route did not enter sub")
	}
}
