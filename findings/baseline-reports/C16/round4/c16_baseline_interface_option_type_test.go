package compose

import (
	"context"
	"testing"

	"github.com/stretchr/testify/assert"
	"github.com/stretchr/testify/require"
)

// The usual Go functional-option shape: the option type is an interface, the options are values of
// concrete types implementing it.
type c16bOption interface{ label() string }

type c16bConcreteOption string

func (o c16bConcreteOption) label() string { return string(o) }

func c16bGraph(t *testing.T, got *[]string) Runnable[string, string] {
	g := NewGraph[string, string]()
	require.NoError(t, g.AddLambdaNode("l", InvokableLambdaWithOption(
		func(_ context.Context, in string, opts ...c16bOption) (string, error) {
			for _, o := range opts {
				*got = append(*got, o.label())
			}
			return in, nil
		})))
	require.NoError(t, g.AddEdge(START, "l"))
	require.NoError(t, g.AddEdge("l", END))
	r, err := g.Compile(context.Background())
	require.NoError(t, err)
	return r
}

// An undesignated lambda option reaches every lambda node that takes it. Here the node's option type is the
// interface c16bOption and the option value implements it: nothing is delivered, without any error.
func TestC16BaselineUndesignatedOptionForInterfaceTypedLambda(t *testing.T) {
	var got []string
	r := c16bGraph(t, &got)
	_, err := r.Invoke(context.Background(), "in", WithLambdaOption(c16bConcreteOption("o1")))
	require.NoError(t, err)
	assert.Equal(t, []string{"o1"}, got, "the option never reached the only lambda node that accepts it")
}

// Designated to the node, the same (perfectly assignable) option is rejected as being "of the wrong type":
// a lambda whose option type is an interface can not be given any option at all.
func TestC16BaselineDesignatedOptionForInterfaceTypedLambda(t *testing.T) {
	var got []string
	r := c16bGraph(t, &got)
	_, err := r.Invoke(context.Background(), "in", WithLambdaOption(c16bConcreteOption("o1")).DesignateNode("l"))
	assert.NoError(t, err)
	assert.Equal(t, []string{"o1"}, got)
}
