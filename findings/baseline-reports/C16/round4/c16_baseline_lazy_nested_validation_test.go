package compose

import (
	"context"
	"testing"

	"github.com/stretchr/testify/assert"
	"github.com/stretchr/testify/require"

	"github.com/cloudwego/eino/callbacks"
)

// top: START -(branch)-> "sub" (a nested graph holding the lambda "x") | "l" (a lambda) -> END.
// which of the two runs depends on the input.
func c16bBranchingGraph(t *testing.T, ran *[]string) Runnable[string, string] {
	sub := NewGraph[string, string]()
	require.NoError(t, sub.AddLambdaNode("x", InvokableLambdaWithOption(
		func(_ context.Context, in string, _ ...string) (string, error) {
			*ran = append(*ran, "sub/x")
			return in, nil
		})))
	require.NoError(t, sub.AddEdge(START, "x"))
	require.NoError(t, sub.AddEdge("x", END))

	g := NewGraph[string, string]()
	require.NoError(t, g.AddGraphNode("sub", sub))
	require.NoError(t, g.AddLambdaNode("l", InvokableLambda(func(_ context.Context, in string) (string, error) {
		*ran = append(*ran, "l")
		return in, nil
	})))
	require.NoError(t, g.AddBranch(START, NewGraphBranch(func(_ context.Context, in string) (string, error) {
		if in == "take sub" {
			return "sub", nil
		}
		return "l", nil
	}, map[string]bool{"sub": true, "l": true})))
	require.NoError(t, g.AddEdge("sub", END))
	require.NoError(t, g.AddEdge("l", END))
	r, err := g.Compile(context.Background())
	require.NoError(t, err)
	return r
}

// Designating an unknown node, a path below a non-graph node or an option of the wrong type is an error. Below
// a nested graph the designation is only looked at when (and if) that nested graph happens to run in the call:
// the very same call options are an error for one input and silently accepted for another.
func TestC16BaselineInvalidNestedDesignationIsOnlyAnErrorIfTheSubGraphRuns(t *testing.T) {
	ctx := context.Background()
	cb := callbacks.NewHandlerBuilder().Build()

	cases := map[string]Option{
		"unknown nested node":          WithLambdaOption("o").DesignateNodeWithPath(NewNodePath("sub", "nope")),
		"unknown nested node callback": WithCallbacks(cb).DesignateNodeWithPath(NewNodePath("sub", "nope")),
		"path below a nested lambda":   WithLambdaOption("o").DesignateNodeWithPath(NewNodePath("sub", "x", "deeper")),
		"wrong option type":            WithLambdaOption(42).DesignateNodeWithPath(NewNodePath("sub", "x")),
	}
	for name, opt := range cases {
		t.Run(name, func(t *testing.T) {
			var ran []string
			r := c16bBranchingGraph(t, &ran)

			_, err := r.Invoke(ctx, "take sub", opt)
			require.Error(t, err, "with the nested graph running the designation is rejected")

			ran = nil
			_, err = r.Invoke(ctx, "take l", opt)
			assert.Error(t, err, "the same invalid designation is accepted when the branch does not select the nested graph")
		})
	}
}

// Because the check happens when the nested graph starts, the nodes before it have already run (with whatever side
// effects they have) when the call is finally rejected for its options; a designation that is invalid at the top level
// is rejected before anything runs.
func TestC16BaselineInvalidNestedDesignationIsRejectedAfterNodesRan(t *testing.T) {
	ctx := context.Background()

	sub := NewGraph[string, string]()
	require.NoError(t, sub.AddLambdaNode("x", InvokableLambda(func(_ context.Context, in string) (string, error) { return in, nil })))
	require.NoError(t, sub.AddEdge(START, "x"))
	require.NoError(t, sub.AddEdge("x", END))

	var ran []string
	g := NewGraph[string, string]()
	require.NoError(t, g.AddLambdaNode("first", InvokableLambda(func(_ context.Context, in string) (string, error) {
		ran = append(ran, "first")
		return in, nil
	})))
	require.NoError(t, g.AddGraphNode("sub", sub))
	require.NoError(t, g.AddEdge(START, "first"))
	require.NoError(t, g.AddEdge("first", "sub"))
	require.NoError(t, g.AddEdge("sub", END))
	r, err := g.Compile(ctx)
	require.NoError(t, err)

	_, err = r.Invoke(ctx, "in", WithLambdaOption("o").DesignateNode("nope"))
	require.Error(t, err)
	require.Empty(t, ran, "top level: rejected up front")

	_, err = r.Invoke(ctx, "in", WithLambdaOption("o").DesignateNodeWithPath(NewNodePath("sub", "nope")))
	require.Error(t, err)
	assert.Empty(t, ran, "nested: node[first] has run before the call was rejected for its options")
}
