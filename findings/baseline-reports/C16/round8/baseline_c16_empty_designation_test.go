package compose

import (
	"context"
	"sort"
	"strings"
	"sync"
	"testing"

	"github.com/cloudwego/eino/callbacks"
)

// An option that went through DesignateNode / DesignateNodeWithPath with an EMPTY list of nodes (the usual way to get
// there: the keys are computed, opt.DesignateNode(keys...), and this time none qualified) is designated to no node.
// The unmodified tree treats it as an undesignated option: the component option reaches every node of its type in the
// graph and in the nested graphs, the callbacks become callbacks of the whole run.
func TestBaselineC16_EmptyDesignationBecomesGlobal(t *testing.T) {
	ctx := context.Background()

	type lambdaOpt string
	var mu sync.Mutex
	got := map[string][]string{}
	newLambda := func(name string) *Lambda {
		return InvokableLambdaWithOption(func(ctx context.Context, in string, opts ...lambdaOpt) (string, error) {
			mu.Lock()
			for _, o := range opts {
				got[name] = append(got[name], string(o))
			}
			mu.Unlock()
			return in, nil
		})
	}

	sub := NewGraph[string, string]()
	_ = sub.AddLambdaNode("x", newLambda("sub/x"), WithNodeName("sub/x"))
	_ = sub.AddEdge(START, "x")
	_ = sub.AddEdge("x", END)

	g := NewGraph[string, string]()
	_ = g.AddLambdaNode("a", newLambda("a"), WithNodeName("a"))
	_ = g.AddGraphNode("sub", sub, WithNodeName("sub"))
	_ = g.AddLambdaNode("b", newLambda("b"), WithNodeName("b"))
	_ = g.AddEdge(START, "a")
	_ = g.AddEdge("a", "sub")
	_ = g.AddEdge("sub", "b")
	_ = g.AddEdge("b", END)

	r, err := g.Compile(ctx, WithGraphName("top"))
	if err != nil {
		t.Fatal(err)
	}

	var fired []string
	handler := callbacks.NewHandlerBuilder().
		OnStartFn(func(ctx context.Context, info *callbacks.RunInfo, input callbacks.CallbackInput) context.Context {
			mu.Lock()
			fired = append(fired, info.Name)
			mu.Unlock()
			return ctx
		}).Build()

	// the nodes this call wants to address: none this time
	var selected []string

	_, err = r.Invoke(ctx, "in",
		WithLambdaOption(lambdaOpt("only-for-selected")).DesignateNode(selected...),
		WithCallbacks(handler).DesignateNode(selected...),
	)
	// either outcome is fine: an error ("designated to nothing"), or a run in which no node is reached
	if err != nil {
		t.Logf("call refused: %v", err)
		return
	}

	var reached []string
	for name := range got {
		reached = append(reached, name)
	}
	sort.Strings(reached)
	if len(reached) != 0 {
		t.Errorf("a component option designated to no node reached %v", reached)
	}
	if len(fired) != 0 {
		t.Errorf("callbacks designated to no node fired at [%s]", strings.Join(fired, " "))
	}
}
