package multiquery

import (
	"context"
	"fmt"
	"sync"
	"testing"

	"github.com/cloudwego/eino/components/retriever"
	"github.com/cloudwego/eino/schema"
)

// c16Retriever adds a per-query option (a sub index derived from the query) to the options it was called with, then
// waits until the calls for the other queries did the same before it reads its options.
type c16Retriever struct {
	barrier *sync.WaitGroup
	mu      sync.Mutex
	got     map[string]string
}

func (r *c16Retriever) Retrieve(ctx context.Context, query string, opts ...retriever.Option) ([]*schema.Document, error) {
	opts = append(opts, retriever.WithSubIndex("sub_"+query))
	r.barrier.Done()
	r.barrier.Wait()

	o := retriever.GetCommonOptions(&retriever.Options{}, opts...)
	r.mu.Lock()
	r.got[query] = fmt.Sprintf("subIndex=%s topK=%d", *o.SubIndex, *o.TopK)
	r.mu.Unlock()
	return []*schema.Document{{ID: query}}, nil
}

// The options of the call reach the wrapped retriever once per generated query, and what one of these calls does with
// its own option list must not show up in the option list of another one.
func TestC16MultiQueryCallsDoNotShareOptionSlice(t *testing.T) {
	ctx := context.Background()
	queries := []string{"q1", "q2", "q3"}

	orig := &c16Retriever{barrier: &sync.WaitGroup{}, got: map[string]string{}}
	orig.barrier.Add(len(queries))

	mr, err := NewRetriever(ctx, &Config{
		RewriteHandler: func(ctx context.Context, query string) ([]string, error) { return queries, nil },
		OrigRetriever:  orig,
	})
	if err != nil {
		t.Fatal(err)
	}

	// an ordinary caller-side option list that happens to have spare capacity (built with append)
	var opts []retriever.Option
	opts = append(opts, retriever.WithTopK(1))
	opts = append(opts, retriever.WithTopK(2))
	opts = append(opts, retriever.WithTopK(3)) // len 3, cap 4

	if _, err = mr.Retrieve(ctx, "q", opts...); err != nil {
		t.Fatal(err)
	}
	for _, q := range queries {
		if want := fmt.Sprintf("subIndex=sub_%s topK=3", q); orig.got[q] != want {
			t.Errorf("the call for query %s ran with [%s], want [%s]", q, orig.got[q], want)
		}
	}
}
