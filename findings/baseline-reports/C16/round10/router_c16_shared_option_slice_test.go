package router

import (
	"context"
	"fmt"
	"sync"
	"testing"

	"github.com/cloudwego/eino/components/retriever"
	"github.com/cloudwego/eino/schema"
)

// c16Retriever adds an option of its own (its index) to the options it was called with - as a wrapper around a real
// retriever commonly does to set a default - then waits until every sibling did the same before it reads its options.
type c16Retriever struct {
	name    string
	barrier *sync.WaitGroup
	mu      *sync.Mutex
	got     map[string]string
}

func (r *c16Retriever) Retrieve(ctx context.Context, query string, opts ...retriever.Option) ([]*schema.Document, error) {
	opts = append(opts, retriever.WithIndex(r.name))
	r.barrier.Done()
	r.barrier.Wait()

	o := retriever.GetCommonOptions(&retriever.Options{}, opts...)
	r.mu.Lock()
	r.got[r.name] = fmt.Sprintf("index=%s topK=%d", *o.Index, *o.TopK)
	r.mu.Unlock()
	return []*schema.Document{{ID: r.name}}, nil
}

// The options of the call reach every routed retriever, and what one retriever does with its own option list must
// not show up in the option list of another one.
func TestC16RouterRetrieversDoNotShareOptionSlice(t *testing.T) {
	ctx := context.Background()
	names := []string{"r1", "r2", "r3"}

	barrier := &sync.WaitGroup{}
	barrier.Add(len(names))
	mu := &sync.Mutex{}
	got := map[string]string{}

	rs := map[string]retriever.Retriever{}
	for _, n := range names {
		rs[n] = &c16Retriever{name: n, barrier: barrier, mu: mu, got: got}
	}
	rr, err := NewRetriever(ctx, &Config{Retrievers: rs})
	if err != nil {
		t.Fatal(err)
	}

	// an ordinary caller-side option list that happens to have spare capacity (built with append)
	var opts []retriever.Option
	opts = append(opts, retriever.WithTopK(1))
	opts = append(opts, retriever.WithTopK(2))
	opts = append(opts, retriever.WithTopK(3)) // len 3, cap 4

	if _, err = rr.Retrieve(ctx, "q", opts...); err != nil {
		t.Fatal(err)
	}
	for _, n := range names {
		if want := fmt.Sprintf("index=%s topK=3", n); got[n] != want {
			t.Errorf("retriever %s ran with [%s], want [%s]", n, got[n], want)
		}
	}
}
