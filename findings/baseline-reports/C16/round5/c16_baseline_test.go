package compose

import (
	"context"
	"testing"
)

// a sub graph that loops n times over its single node before reaching END
func c16LoopGraph(t *testing.T, loops int) *Graph[int, int] {
	g := NewGraph[int, int]()
	if err := g.AddLambdaNode("inc", InvokableLambda(func(ctx context.Context, in int) (int, error) {
		return in + 1, nil
	})); err != nil {
		t.Fatal(err)
	}
	if err := g.AddEdge(START, "inc"); err != nil {
		t.Fatal(err)
	}
	if err := g.AddBranch("inc", NewGraphBranch(func(ctx context.Context, in int) (string, error) {
		if in >= loops {
			return END, nil
		}
		return "inc", nil
	}, map[string]bool{"inc": true, END: true})); err != nil {
		t.Fatal(err)
	}
	return g
}

func TestC16BaselineMaxStepsDesignatedToSubGraph(t *testing.T) {
	ctx := context.Background()
	sub := c16LoopGraph(t, 30) // needs 30 steps, default budget of the sub graph is 1+10

	top := NewGraph[int, int]()
	if err := top.AddLambdaNode("pre", InvokableLambda(func(ctx context.Context, in int) (int, error) { return in, nil })); err != nil {
		t.Fatal(err)
	}
	if err := top.AddGraphNode("sub", sub); err != nil {
		t.Fatal(err)
	}
	if err := top.AddLambdaNode("post", InvokableLambda(func(ctx context.Context, in int) (int, error) { return in, nil })); err != nil {
		t.Fatal(err)
	}
	_ = top.AddEdge(START, "pre")
	_ = top.AddEdge("pre", "sub")
	_ = top.AddEdge("sub", "post")
	_ = top.AddEdge("post", END)
	r, err := top.Compile(ctx)
	if err != nil {
		t.Fatal(err)
	}

	// 1. the option designated to "sub" must reach "sub": with a budget of 100 steps its 30 loops fit
	out, err := r.Invoke(ctx, 0, WithRuntimeMaxSteps(100).DesignateNode("sub"))
	if err != nil {
		t.Errorf("max steps designated to the sub graph did not reach it: %v", err)
	} else if out != 30 {
		t.Errorf("out=%d", out)
	}

	// 2. and it must reach only "sub": a budget of 1 step designated to "sub" must not limit the top graph
	sub1 := c16LoopGraph(t, 1)
	top2 := NewGraph[int, int]()
	_ = top2.AddLambdaNode("pre", InvokableLambda(func(ctx context.Context, in int) (int, error) { return in, nil }))
	_ = top2.AddGraphNode("sub", sub1)
	_ = top2.AddLambdaNode("post", InvokableLambda(func(ctx context.Context, in int) (int, error) { return in, nil }))
	_ = top2.AddEdge(START, "pre")
	_ = top2.AddEdge("pre", "sub")
	_ = top2.AddEdge("sub", "post")
	_ = top2.AddEdge("post", END)
	r2, err := top2.Compile(ctx)
	if err != nil {
		t.Fatal(err)
	}
	out, err = r2.Invoke(ctx, 0, WithRuntimeMaxSteps(1).DesignateNode("sub"))
	if err != nil {
		t.Errorf("max steps designated to the sub graph limited the top graph: %v", err)
	} else if out != 1 {
		t.Errorf("out=%d", out)
	}
}

func TestC16BaselineUnknownDeepPathNotRun(t *testing.T) {
	ctx := context.Background()
	sub := NewGraph[string, string]()
	_ = sub.AddLambdaNode("x", InvokableLambdaWithOption(func(ctx context.Context, in string, opts ...string) (string, error) { return in, nil }))
	_ = sub.AddEdge(START, "x")
	_ = sub.AddEdge("x", END)

	top := NewGraph[string, string]()
	_ = top.AddGraphNode("sub", sub)
	_ = top.AddLambdaNode("other", InvokableLambda(func(ctx context.Context, in string) (string, error) { return in, nil }))
	_ = top.AddBranch(START, NewGraphBranch(func(ctx context.Context, in string) (string, error) {
		return in, nil
	}, map[string]bool{"sub": true, "other": true}))
	_ = top.AddEdge("sub", END)
	_ = top.AddEdge("other", END)
	r, err := top.Compile(ctx)
	if err != nil {
		t.Fatal(err)
	}
	_, err = r.Invoke(ctx, "sub", WithLambdaOption("o").DesignateNodeWithPath(NewNodePath("sub", "nope")))
	if err == nil {
		t.Errorf("unknown deep path, sub graph runs: no error")
	}
	_, err = r.Invoke(ctx, "other", WithLambdaOption("o").DesignateNodeWithPath(NewNodePath("sub", "nope")))
	if err == nil {
		t.Errorf("unknown deep path, sub graph does not run: no error")
	}
}

func TestC16BaselineAnyTypedLambdaOption(t *testing.T) {
	ctx := context.Background()
	var got []any
	g := NewGraph[string, string]()
	_ = g.AddLambdaNode("l", InvokableLambdaWithOption(func(ctx context.Context, in string, opts ...any) (string, error) {
		got = opts
		return in, nil
	}))
	_ = g.AddEdge(START, "l")
	_ = g.AddEdge("l", END)
	r, err := g.Compile(ctx)
	if err != nil {
		t.Fatal(err)
	}
	_, err = r.Invoke(ctx, "in", WithLambdaOption("o").DesignateNode("l"))
	if err != nil {
		t.Errorf("designated: %v", err)
	} else if len(got) != 1 {
		t.Errorf("designated: got %v", got)
	}
	got = nil
	_, err = r.Invoke(ctx, "in", WithLambdaOption("o"))
	if err != nil {
		t.Errorf("global: %v", err)
	} else if len(got) != 1 {
		t.Errorf("global: got %v", got)
	}
}

// the same option designated two levels down ("mid" > "inner") is taken by "mid", the graph on the way, and never
// reaches "inner"; and designated to a pregel sub graph of a DAG top graph it is refused as if given to the DAG.
func TestC16BaselineMaxStepsDesignatedDeepAndUnderDAG(t *testing.T) {
	ctx := context.Background()

	inner := c16LoopGraph(t, 30)
	mid := NewGraph[int, int]()
	_ = mid.AddLambdaNode("a", InvokableLambda(func(ctx context.Context, in int) (int, error) { return in, nil }))
	_ = mid.AddGraphNode("inner", inner)
	_ = mid.AddEdge(START, "a")
	_ = mid.AddEdge("a", "inner")
	_ = mid.AddEdge("inner", END)
	top := NewGraph[int, int]()
	_ = top.AddGraphNode("mid", mid)
	_ = top.AddEdge(START, "mid")
	_ = top.AddEdge("mid", END)
	r, err := top.Compile(ctx)
	if err != nil {
		t.Fatal(err)
	}
	out, err := r.Invoke(ctx, 0, WithRuntimeMaxSteps(100).DesignateNodeWithPath(NewNodePath("mid", "inner")))
	if err != nil {
		t.Errorf("max steps designated to mid>inner did not reach inner: %v", err)
	} else if out != 30 {
		t.Errorf("out=%d", out)
	}
	// a budget of 1 for "inner" (which needs 1 step when it loops once) must not limit "mid" (2 steps)
	inner1 := c16LoopGraph(t, 1)
	mid1 := NewGraph[int, int]()
	_ = mid1.AddLambdaNode("a", InvokableLambda(func(ctx context.Context, in int) (int, error) { return in, nil }))
	_ = mid1.AddGraphNode("inner", inner1)
	_ = mid1.AddEdge(START, "a")
	_ = mid1.AddEdge("a", "inner")
	_ = mid1.AddEdge("inner", END)
	top1 := NewGraph[int, int]()
	_ = top1.AddGraphNode("mid", mid1)
	_ = top1.AddEdge(START, "mid")
	_ = top1.AddEdge("mid", END)
	r1, err := top1.Compile(ctx)
	if err != nil {
		t.Fatal(err)
	}
	if _, err = r1.Invoke(ctx, 0, WithRuntimeMaxSteps(1).DesignateNodeWithPath(NewNodePath("mid", "inner"))); err != nil {
		t.Errorf("max steps designated to mid>inner limited mid: %v", err)
	}

	// DAG top graph, pregel sub graph
	dag := NewGraph[int, int]()
	_ = dag.AddGraphNode("sub", c16LoopGraph(t, 30))
	_ = dag.AddEdge(START, "sub")
	_ = dag.AddEdge("sub", END)
	rd, err := dag.Compile(ctx, WithNodeTriggerMode(AllPredecessor))
	if err != nil {
		t.Fatal(err)
	}
	out, err = rd.Invoke(ctx, 0, WithRuntimeMaxSteps(100).DesignateNode("sub"))
	if err != nil {
		t.Errorf("max steps designated to the pregel sub graph of a DAG: %v", err)
	} else if out != 30 {
		t.Errorf("out=%d", out)
	}
}
