package multiquery

import (
	"context"
	"testing"

	"github.com/cloudwego/eino/components/retriever"
	"github.com/cloudwego/eino/compose"
	"github.com/cloudwego/eino/schema"
)

type c16OrigRetriever struct {
	topKs []int
}

func (c *c16OrigRetriever) Retrieve(ctx context.Context, query string, opts ...retriever.Option) ([]*schema.Document, error) {
	o := retriever.GetCommonOptions(&retriever.Options{}, opts...)
	k := -1
	if o.TopK != nil {
		k = *o.TopK
	}
	c.topKs = append(c.topKs, k)
	return []*schema.Document{{ID: query}}, nil
}

// A retriever call option addressed to the multi-query retriever node reaches the node, but the node does not hand it
// to the retriever it wraps (the router and parent retrievers of flow/retriever do).
func TestC16BaselineMultiQueryDropsRetrieverOptions(t *testing.T) {
	ctx := context.Background()
	orig := &c16OrigRetriever{}
	mq, err := NewRetriever(ctx, &Config{
		RewriteHandler: func(ctx context.Context, query string) ([]string, error) {
			return []string{query}, nil // one query: the wrapped retriever is called once, no concurrency
		},
		OrigRetriever: orig,
	})
	if err != nil {
		t.Fatal(err)
	}

	ch := compose.NewChain[string, []*schema.Document]()
	ch.AppendRetriever(mq, compose.WithNodeKey("mq"))
	r, err := ch.Compile(ctx)
	if err != nil {
		t.Fatal(err)
	}

	if _, err = r.Invoke(ctx, "q", compose.WithRetrieverOption(retriever.WithTopK(3))); err != nil {
		t.Fatal(err)
	}
	if _, err = r.Invoke(ctx, "q", compose.WithRetrieverOption(retriever.WithTopK(5)).DesignateNode("mq")); err != nil {
		t.Fatal(err)
	}
	if len(orig.topKs) != 2 || orig.topKs[0] != 3 || orig.topKs[1] != 5 {
		t.Fatalf("top-k seen by the wrapped retriever: %v, the call options said 3 then 5", orig.topKs)
	}
}
