package schema

import (
	"testing"

	"github.com/cloudwego/eino/internal"
)

// C14 says chunk concatenation is a deterministic function of the chunk sequence: "it returns a value or an error".
// When two independent parts of the chunks are unconcatenable, WHICH error comes back depends on Go's
// randomised map iteration order (concatMaps ranges over rms.MapKeys(), concatToolCalls ranges over the
// index map and returns the first failure it meets), so the same chunk sequence yields different errors.

func TestC14BaselineMapConcatErrorIsDeterministic(t *testing.T) {
	seen := map[string]int{}
	for i := 0; i < 400; i++ {
		chunks := []map[string]any{
			{"a": "x", "b": nil},
			{"a": 1, "b": nil},
		}
		_, err := internal.ConcatItems(chunks)
		if err == nil {
			t.Fatal("expected an error")
		}
		seen[err.Error()]++
	}
	if len(seen) != 1 {
		t.Errorf("the same chunk sequence failed with %d different errors: %v", len(seen), seen)
	}
}

func TestC14BaselineToolCallConcatErrorIsDeterministic(t *testing.T) {
	idx := func(i int) *int { return &i }
	seen := map[string]int{}
	for i := 0; i < 400; i++ {
		msgs := []*Message{
			{Role: Assistant, ToolCalls: []ToolCall{
				{Index: idx(0), ID: "id_a", Type: "function"},
				{Index: idx(1), ID: "id_c", Function: FunctionCall{Name: "f"}},
			}},
			{Role: Assistant, ToolCalls: []ToolCall{
				{Index: idx(0), ID: "id_b"},                                   // different id for index 0
				{Index: idx(1), ID: "id_c", Function: FunctionCall{Name: "g"}}, // different name for index 1
			}},
		}
		_, err := ConcatMessages(msgs)
		if err == nil {
			t.Fatal("expected an error")
		}
		seen[err.Error()]++
	}
	if len(seen) != 1 {
		t.Errorf("the same chunk sequence failed with %d different errors: %v", len(seen), seen)
	}
}
