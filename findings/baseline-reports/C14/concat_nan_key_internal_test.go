package internal

import (
	"math"
	"testing"
)

// Same defect at the ConcatItems level: a stream whose chunk type is map[float64]string.
func TestConcatItemsNaNKeyDoesNotPanic(t *testing.T) {
	defer func() {
		if r := recover(); r != nil {
			t.Fatalf("ConcatItems panicked: %v", r)
		}
	}()

	_, _ = ConcatItems([]map[float64]string{{math.NaN(): "a"}, {2: "b"}})
}
