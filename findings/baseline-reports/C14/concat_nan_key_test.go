package schema

import (
	"math"
	"testing"
)

// A map chunk (or a nested map inside Message.Extra) whose key type is a float and that contains a NaN key
// makes concatenation PANIC instead of returning a value or an error.
//
// internal.concatMaps walks m.MapKeys() of every chunk and reads the value back with m.MapIndex(key)
// (internal/concat.go, first loop of concatMaps). NaN != NaN, so the look-up of a NaN key yields the invalid
// reflect.Value, and reflect.Append(vals, <invalid>) panics with
// "reflect: call of reflect.Value.Set on zero Value". (The second loop has the same problem with
// rms.MapIndex(key).) It happens even when the key shows up in one chunk only.
func TestConcatExtraWithNaNKeyedMapDoesNotPanic(t *testing.T) {
	defer func() {
		if r := recover(); r != nil {
			t.Fatalf("ConcatMessages panicked: %v", r)
		}
	}()

	chunks := []*Message{
		{Role: Assistant, Content: "a", Extra: map[string]any{"hist": map[float64]string{math.NaN(): "x", 1: "y"}}},
		{Role: Assistant, Content: "b"},
	}

	// either a value or an error is acceptable; a panic is not
	_, _ = ConcatMessages(chunks)
}
