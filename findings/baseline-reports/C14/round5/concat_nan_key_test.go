package internal

import (
	"math"
	"testing"
)

// Property C14: concatenating stream chunks never panics, it returns a value or an error.
//
// A map chunk with a NaN key (map[float64]V, or map[any]V holding a float NaN key) makes
// concatMaps panic: a NaN key is listed by MapKeys but can never be looked up again, so
// m.MapIndex(key) returns the invalid reflect.Value and reflect.Append(vals, val) panics
// ("reflect: call of reflect.Value.Set on zero Value").
func TestConcatMapsWithNaNKeyDoesNotPanic(t *testing.T) {
	t.Run("map[float64]string", func(t *testing.T) {
		defer func() {
			if r := recover(); r != nil {
				t.Fatalf("ConcatItems panicked instead of returning a value or an error: %v", r)
			}
		}()

		chunks := []map[float64]string{
			{1: "a", math.NaN(): "x"},
			{1: "b"},
		}
		res, err := ConcatItems(chunks)
		t.Logf("res=%v err=%v", res, err)
	})

	t.Run("map[any]any", func(t *testing.T) {
		defer func() {
			if r := recover(); r != nil {
				t.Fatalf("ConcatItems panicked instead of returning a value or an error: %v", r)
			}
		}()

		chunks := []map[any]any{
			{"k": "a"},
			{"k": "b", math.NaN(): "x"},
		}
		res, err := ConcatItems(chunks)
		t.Logf("res=%v err=%v", res, err)
	})
}
