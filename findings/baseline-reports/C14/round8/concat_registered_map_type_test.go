package compose

import (
	"context"
	"testing"

	"github.com/cloudwego/eino/schema"
)

// Reproducer (fails on the unmodified tree): a concat function registered with RegisterStreamChunkConcatFunc
// for a custom chunk type whose kind is map is never called. ConcatItems / concatMaps look at the kind of the
// chunk type first and merge the chunks key by key with the built-in rules, so the registered function is
// silently ignored - both when the type is the chunk type of the stream and when it sits under a key of a
// map[string]any chunk.

type baselineCounters map[string]int

type baselinePart struct{ Text string }

type baselineParts map[string]baselinePart

func TestRegisteredConcatFuncForMapKindType(t *testing.T) {
	countersCalled, partsCalled := 0, 0

	RegisterStreamChunkConcatFunc(func(cs []baselineCounters) (baselineCounters, error) {
		countersCalled++
		ret := baselineCounters{}
		for _, c := range cs {
			for k, v := range c {
				ret[k] += v // the chunks carry deltas
			}
		}
		return ret, nil
	})
	RegisterStreamChunkConcatFunc(func(ps []baselineParts) (baselineParts, error) {
		partsCalled++
		ret := baselineParts{}
		for _, p := range ps {
			for k, v := range p {
				ret[k] = baselinePart{Text: ret[k].Text + v.Text}
			}
		}
		return ret, nil
	})

	ctx := context.Background()

	t.Run("as the chunk type of a stream", func(t *testing.T) {
		g := NewGraph[string, baselineCounters]()
		_ = g.AddLambdaNode("n", StreamableLambda(func(ctx context.Context, in string) (*schema.StreamReader[baselineCounters], error) {
			return schema.StreamReaderFromArray([]baselineCounters{{"tokens": 1}, {"tokens": 2}, {"tokens": 3}}), nil
		}))
		_ = g.AddEdge(START, "n")
		_ = g.AddEdge("n", END)
		r, err := g.Compile(ctx)
		if err != nil {
			t.Fatal(err)
		}

		out, err := r.Invoke(ctx, "x")
		if err != nil {
			t.Fatal(err)
		}
		if countersCalled == 0 {
			t.Errorf("the registered concat function was not called")
		}
		if out["tokens"] != 6 {
			t.Errorf("got %v, want map[tokens:6] (what the registered function returns)", out)
		}
	})

	t.Run("chunks the built-in rules cannot merge", func(t *testing.T) {
		sr := schema.StreamReaderFromArray([]baselineParts{{"a": {Text: "x"}}, {"a": {Text: "y"}}})
		out, err := concatStreamReader(sr)
		if err != nil {
			t.Fatalf("concat failed although a concat function is registered for the chunk type: %v", err)
		}
		if partsCalled == 0 || out["a"].Text != "xy" {
			t.Errorf("got %v (registered function called %d times), want map[a:{xy}]", out, partsCalled)
		}
	})

	t.Run("under a key of a map[string]any chunk", func(t *testing.T) {
		before := countersCalled
		sr := schema.StreamReaderFromArray([]map[string]any{
			{"usage": baselineCounters{"tokens": 1}},
			{"usage": baselineCounters{"tokens": 2}},
		})
		out, err := concatStreamReader(sr)
		if err != nil {
			t.Fatal(err)
		}
		if countersCalled == before {
			t.Errorf("the registered concat function was not called")
		}
		if got := out["usage"].(baselineCounters)["tokens"]; got != 3 {
			t.Errorf("got tokens=%d, want 3", got)
		}
	})
}
