package compose

import (
	"context"
	"strings"
	"testing"

	"github.com/cloudwego/eino/schema"
)

type c14Event interface{ Text() string }

type c14TextEvent struct{ S string }

func (e *c14TextEvent) Text() string { return e.S }

type c14DoneEvent struct{}

func (c14DoneEvent) Text() string { return "." }

// A node streams chunks of an interface type for which the application registered a concat function
// (compose.RegisterStreamChunkConcatFunc, as the documentation asks for custom chunk types). The graph is invoked,
// so the framework concatenates the node's stream. Whether that works must not depend on the chunks happening to
// share one dynamic type.
func TestInvokeConcatenatesInterfaceChunksWithTheRegisteredFunc(t *testing.T) {
	RegisterStreamChunkConcatFunc(func(es []c14Event) (c14Event, error) {
		var sb strings.Builder
		for _, e := range es {
			if e != nil {
				sb.WriteString(e.Text())
			}
		}
		return &c14TextEvent{S: sb.String()}, nil
	})

	run := func(chunks []c14Event) (string, error) {
		g := NewGraph[string, c14Event]()
		_ = g.AddLambdaNode("producer", StreamableLambda(func(ctx context.Context, _ string) (*schema.StreamReader[c14Event], error) {
			return schema.StreamReaderFromArray(chunks), nil
		}))
		_ = g.AddEdge(START, "producer")
		_ = g.AddEdge("producer", END)
		r, err := g.Compile(context.Background())
		if err != nil {
			return "", err
		}
		out, err := r.Invoke(context.Background(), "")
		if err != nil {
			return "", err
		}
		return out.Text(), nil
	}

	// chunks of two dynamic types: concatenated by the registered function
	got, err := run([]c14Event{&c14TextEvent{"a"}, &c14TextEvent{"b"}, c14DoneEvent{}})
	if err != nil || got != "ab." {
		t.Fatalf("mixed dynamic types: got %q, %v", got, err)
	}

	// the same stream without the closing event: all chunks share a dynamic type
	got, err = run([]c14Event{&c14TextEvent{"a"}, &c14TextEvent{"b"}})
	if err != nil {
		t.Fatalf("one dynamic type: %v", err)
	}
	if got != "ab" {
		t.Fatalf("one dynamic type: got %q, want %q", got, "ab")
	}
}
