package schema

import (
	"os"
	"os/exec"
	"strings"
	"testing"
)

// A map that (directly or through another map) contains itself is a legal Go value and a legal Message.Extra.
// Concatenation has to return a value or an error for it; instead concatMaps recurses without end and the whole
// process dies with "fatal error: stack overflow" (which no recover can catch). The concatenation runs in a child
// process so that the failure is reported as a test failure.
func TestConcatMessagesWithSelfContainingExtra(t *testing.T) {
	if os.Getenv("C14_CYCLIC_CHILD") == "1" {
		extra := map[string]any{"request_id": "r1"}
		extra["self"] = extra
		_, err := ConcatMessages([]*Message{
			{Role: Assistant, Content: "a", Extra: extra},
			{Role: Assistant, Content: "b"},
		})
		t.Logf("returned: %v", err)
		return
	}

	cmd := exec.Command(os.Args[0], "-test.run", "^TestConcatMessagesWithSelfContainingExtra$", "-test.v")
	cmd.Env = append(os.Environ(), "C14_CYCLIC_CHILD=1")
	out, err := cmd.CombinedOutput()
	if err != nil {
		s := string(out)
		if i := strings.Index(s, "\n\n"); i > 0 {
			s = s[:i]
		}
		if len(s) > 600 {
			s = s[:600]
		}
		t.Fatalf("ConcatMessages did not return: %v\n%s", err, s)
	}
}
