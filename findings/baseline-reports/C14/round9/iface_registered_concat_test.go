package internal

import (
	"strings"
	"testing"
)

type zzEvent interface{ Text() string }

type zzTextEvent struct{ S string }

func (e *zzTextEvent) Text() string { return e.S }

type zzOtherEvent struct{ S string }

func (e zzOtherEvent) Text() string { return e.S }

func zzConcatEvents(es []zzEvent) (zzEvent, error) {
	var sb strings.Builder
	for _, e := range es {
		if e != nil {
			sb.WriteString(e.Text())
		}
	}
	return &zzTextEvent{S: sb.String()}, nil
}

// A concat function registered for an interface type must be the one that concatenates a stream of that
// interface type, whatever the dynamic types of the chunks are.
func TestRegisteredInterfaceConcatFunc(t *testing.T) {
	RegisterStreamChunkConcatFunc(zzConcatEvents)

	a, b, c := zzEvent(&zzTextEvent{"a"}), zzEvent(&zzTextEvent{"b"}), zzEvent(zzOtherEvent{"c"})

	// mixed dynamic types: the registered function is used
	all, err := ConcatItems([]zzEvent{a, b, c})
	if err != nil {
		t.Fatalf("all at once: %v", err)
	}
	if all.Text() != "abc" {
		t.Fatalf("all at once: got %q", all.Text())
	}

	// prefix first: the two chunks of the prefix happen to share a dynamic type
	ab, err := ConcatItems([]zzEvent{a, b})
	if err != nil {
		t.Fatalf("prefix [a b]: %v (all at once gave %q)", err, all.Text())
	}
	res, err := ConcatItems([]zzEvent{ab, c})
	if err != nil {
		t.Fatalf("prefix result + rest: %v", err)
	}
	if res.Text() != all.Text() {
		t.Fatalf("re-chunked: got %q, all at once %q", res.Text(), all.Text())
	}
}
