package compose

import (
	"context"
	"sync"
	"testing"
	"time"
)

type c11bState struct {
	Deadline time.Time // a struct whose content is entirely in unexported fields
	N        int
	note     string // unexported field of the state itself
}

// The graph state is saved at an interrupt and restored on resume. Struct fields are walked by reflection and
// only exported fields are written, without any error: a time.Time in the state (registered as the "unknown
// type: time.Time" error of the first attempt asks for) comes back as the zero time, and an unexported field of
// the state struct comes back as its zero value.
func TestC11Baseline_StateWithOpaqueStructIsSilentlyZeroedAcrossResume(t *testing.T) {
	_ = RegisterSerializableType[c11bState]("c11b_state")
	_ = RegisterSerializableType[time.Time]("c11b_time")

	deadline := time.Date(2031, 2, 3, 4, 5, 6, 0, time.UTC)

	g := NewGraph[string, string](WithGenLocalState(func(ctx context.Context) *c11bState { return &c11bState{} }))
	if err := g.AddLambdaNode("set", InvokableLambda(func(ctx context.Context, in string) (string, error) {
		return in, ProcessState[*c11bState](ctx, func(_ context.Context, s *c11bState) error {
			s.Deadline, s.N, s.note = deadline, 7, "keep me"
			return nil
		})
	})); err != nil {
		t.Fatal(err)
	}
	var seen c11bState
	if err := g.AddLambdaNode("get", InvokableLambda(func(ctx context.Context, in string) (string, error) {
		return in, ProcessState[*c11bState](ctx, func(_ context.Context, s *c11bState) error {
			seen = *s
			return nil
		})
	})); err != nil {
		t.Fatal(err)
	}
	_ = g.AddEdge(START, "set")
	_ = g.AddEdge("set", "get")
	_ = g.AddEdge("get", END)

	ctx := context.Background()
	r, err := g.Compile(ctx, WithCheckPointStore(&c11bStore{m: map[string][]byte{}}), WithInterruptBeforeNodes([]string{"get"}))
	if err != nil {
		t.Fatal(err)
	}

	_, err = r.Invoke(ctx, "x", WithCheckPointID("cp"))
	info, ok := ExtractInterruptInfo(err)
	if !ok {
		t.Fatalf("expected an interrupt (or at least an error refusing to save the state), got %v", err)
	}
	if s := info.State.(*c11bState); !s.Deadline.Equal(deadline) || s.N != 7 || s.note != "keep me" {
		t.Fatalf("state at the interrupt: %+v", s)
	}

	if _, err = r.Invoke(ctx, "x", WithCheckPointID("cp")); err != nil {
		t.Fatalf("resume failed: %v", err)
	}
	if seen.N != 7 {
		t.Errorf("N after resume = %d, want 7", seen.N)
	}
	if !seen.Deadline.Equal(deadline) {
		t.Errorf("Deadline after resume = %v, want %v (silently reset)", seen.Deadline, deadline)
	}
	if seen.note != "keep me" {
		t.Errorf("note after resume = %q, want %q (silently dropped)", seen.note, "keep me")
	}
}

type c11bStore struct {
	mu sync.Mutex
	m  map[string][]byte
}

func (s *c11bStore) Get(ctx context.Context, id string) ([]byte, bool, error) {
	s.mu.Lock()
	defer s.mu.Unlock()
	v, ok := s.m[id]
	return v, ok, nil
}

func (s *c11bStore) Set(ctx context.Context, id string, cp []byte) error {
	s.mu.Lock()
	defer s.mu.Unlock()
	s.m[id] = cp
	return nil
}
