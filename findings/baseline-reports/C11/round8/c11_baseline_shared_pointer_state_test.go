package compose

import (
	"context"
	"fmt"
	"testing"
)

type c11bItem struct {
	Name  string
	Count int
}

// Cur points at one of the elements of All: an ordinary acyclic object graph with one shared pointer.
type c11bState struct {
	All []*c11bItem
	Cur *c11bItem
}

func init() {
	_ = RegisterSerializableType[c11bItem]("c11b_item")
	_ = RegisterSerializableType[c11bState]("c11b_state")
}

// The state holds the same *c11bItem twice (All[0] and Cur). Node "bump" increments it through Cur, node "show"
// reads it through All. Without an interrupt the increment is seen; with an interrupt + resume between "pick" and
// "bump" the restored state holds two separate copies of the item and the increment made through Cur is not seen
// through All any more: the state was not carried unchanged across interrupt and resume.
func TestC11BaselineSharedPointerInStateSurvivesResume(t *testing.T) {
	build := func(opts ...GraphCompileOption) Runnable[string, string] {
		g := NewGraph[string, string](WithGenLocalState(func(ctx context.Context) *c11bState {
			return &c11bState{All: []*c11bItem{{Name: "x"}, {Name: "y"}}}
		}))
		c11bMust(t, g.AddLambdaNode("pick", InvokableLambda(func(ctx context.Context, in string) (string, error) {
			return in, ProcessState(ctx, func(ctx context.Context, s *c11bState) error { s.Cur = s.All[0]; return nil })
		})))
		c11bMust(t, g.AddLambdaNode("bump", InvokableLambda(func(ctx context.Context, in string) (string, error) {
			return in, ProcessState(ctx, func(ctx context.Context, s *c11bState) error { s.Cur.Count++; return nil })
		})))
		c11bMust(t, g.AddLambdaNode("show", InvokableLambda(func(ctx context.Context, in string) (string, error) {
			err := ProcessState(ctx, func(ctx context.Context, s *c11bState) error {
				in = fmt.Sprintf("all[0].Count=%d cur.Count=%d same=%v", s.All[0].Count, s.Cur.Count, s.All[0] == s.Cur)
				return nil
			})
			return in, err
		})))
		c11bMust(t, g.AddEdge(START, "pick"))
		c11bMust(t, g.AddEdge("pick", "bump"))
		c11bMust(t, g.AddEdge("bump", "show"))
		c11bMust(t, g.AddEdge("show", END))
		r, err := g.Compile(context.Background(), opts...)
		c11bMust(t, err)
		return r
	}

	const want = "all[0].Count=1 cur.Count=1 same=true"

	// reference: no interrupt
	out, err := build().Invoke(context.Background(), "in")
	c11bMust(t, err)
	if out != want {
		t.Fatalf("uninterrupted run: got %q, want %q", out, want)
	}

	// same graph, interrupted before "bump" and resumed
	store := &c11bStore{m: map[string][]byte{}}
	r := build(WithCheckPointStore(store), WithInterruptBeforeNodes([]string{"bump"}))
	_, err = r.Invoke(context.Background(), "in", WithCheckPointID("cp"))
	if _, ok := ExtractInterruptInfo(err); !ok {
		t.Fatalf("expected an interrupt, got %v", err)
	}
	out, err = r.Invoke(context.Background(), "in", WithCheckPointID("cp"))
	c11bMust(t, err)
	if out != want {
		t.Errorf("interrupted + resumed run: got %q, want %q", out, want)
	}
}

func c11bMust(t *testing.T, err error) {
	t.Helper()
	if err != nil {
		t.Fatal(err)
	}
}

type c11bStore struct{ m map[string][]byte }

func (s *c11bStore) Get(_ context.Context, id string) ([]byte, bool, error) {
	v, ok := s.m[id]
	return v, ok, nil
}

func (s *c11bStore) Set(_ context.Context, id string, v []byte) error {
	s.m[id] = v
	return nil
}
