package compose

import (
	"context"
	"encoding/json"
	"sync"
	"testing"
)

type c11baseSliceState struct {
	Items []string
	KVs   map[string]string
}

type c11baseStore struct {
	mu sync.Mutex
	m  map[string][]byte
}

func (s *c11baseStore) Get(_ context.Context, id string) ([]byte, bool, error) {
	s.mu.Lock()
	defer s.mu.Unlock()
	v, ok := s.m[id]
	return v, ok, nil
}

func (s *c11baseStore) Set(_ context.Context, id string, data []byte) error {
	s.mu.Lock()
	defer s.mu.Unlock()
	s.m[id] = data
	return nil
}

// The state generator returns a state whose slice field is empty but not nil. Nothing touches the field before the
// interrupt. After the resume the state is supposed to be the one that was interrupted; instead the empty slice has
// become a nil slice (the empty map next to it stays a non-nil map), which a node can observe directly (== nil) or
// through anything that tells the two apart (encoding/json: [] versus null, reflect.DeepEqual, ...).
func TestC11Baseline_EmptySliceInStateBecomesNilAcrossResume(t *testing.T) {
	_ = RegisterSerializableType[c11baseSliceState]("c11base_slice_state")

	g := NewGraph[string, string](WithGenLocalState(func(ctx context.Context) *c11baseSliceState {
		return &c11baseSliceState{Items: []string{}, KVs: map[string]string{}}
	}))
	observe := func(ctx context.Context) (string, error) {
		var out string
		err := ProcessState[*c11baseSliceState](ctx, func(_ context.Context, s *c11baseSliceState) error {
			b, e := json.Marshal(s)
			out = string(b)
			return e
		})
		return out, err
	}
	var before, after string
	_ = g.AddLambdaNode("a", InvokableLambda(func(ctx context.Context, in string) (string, error) {
		var err error
		before, err = observe(ctx)
		return in, err
	}))
	_ = g.AddLambdaNode("b", InvokableLambda(func(ctx context.Context, in string) (string, error) {
		var err error
		after, err = observe(ctx)
		return in, err
	}))
	_ = g.AddEdge(START, "a")
	_ = g.AddEdge("a", "b")
	_ = g.AddEdge("b", END)

	ctx := context.Background()
	r, err := g.Compile(ctx, WithCheckPointStore(&c11baseStore{m: map[string][]byte{}}), WithInterruptBeforeNodes([]string{"b"}))
	if err != nil {
		t.Fatal(err)
	}
	_, err = r.Invoke(ctx, "x", WithCheckPointID("cp"))
	if _, ok := ExtractInterruptInfo(err); !ok {
		t.Fatalf("expected an interrupt, got %v", err)
	}
	if _, err = r.Invoke(ctx, "x", WithCheckPointID("cp")); err != nil {
		t.Fatal(err)
	}
	if before != after {
		t.Errorf("the state seen after the resume differs from the state that was interrupted:\n before: %s\n after:  %s", before, after)
	}
}
