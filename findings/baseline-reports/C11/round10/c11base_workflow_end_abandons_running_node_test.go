package compose

import (
	"context"
	"testing"
	"time"
)

type c11baseWfState struct {
	Done []string
}

// A Workflow (eager scheduling) with a node "audit" that has no path to END (Compile accepts that) and a state
// post-handler that records the node's completion in the state. "audit" is started together with "main"; the run
// returns as soon as END has its input, while "audit" is still running: the post-handler of "audit" is never run, the
// node's ProcessState update happens after Invoke has returned. The very same graph built with NewGraph (all tasks of
// a step are awaited) runs the post-handler before Invoke returns.
func TestC11Baseline_WorkflowReturnsAtENDWhileANodeStillRuns_PostHandlerNeverRuns(t *testing.T) {
	postRan := make(chan struct{}, 1)
	nodeDone := make(chan struct{})

	wf := NewWorkflow[string, string](WithGenLocalState(func(ctx context.Context) *c11baseWfState { return &c11baseWfState{} }))
	wf.AddLambdaNode("main", InvokableLambda(func(ctx context.Context, in string) (string, error) {
		return in + "-main", nil
	})).AddInput(START)
	wf.AddLambdaNode("audit", InvokableLambda(func(ctx context.Context, in string) (string, error) {
		defer close(nodeDone)
		time.Sleep(50 * time.Millisecond)
		return in + "-audit", nil
	}), WithStatePostHandler(func(ctx context.Context, out string, s *c11baseWfState) (string, error) {
		s.Done = append(s.Done, "audit")
		postRan <- struct{}{}
		return out, nil
	})).AddInput(START)
	wf.End().AddInput("main")

	ctx := context.Background()
	r, err := wf.Compile(ctx)
	if err != nil {
		t.Fatal(err)
	}
	out, err := r.Invoke(ctx, "x")
	if err != nil || out != "x-main" {
		t.Fatalf("out=%q err=%v", out, err)
	}
	select {
	case <-nodeDone:
	case <-time.After(2 * time.Second):
		t.Fatal("node \"audit\" was never run to its end")
	}
	select {
	case <-postRan:
	case <-time.After(500 * time.Millisecond):
		t.Errorf("node \"audit\" was started and ran to its end, but its state post-handler was never run: the run returned at END while the node was still running")
	}
}
