package compose

import (
	"context"
	"fmt"
	"testing"
)

// Reproducers for the UNMODIFIED tree: a graph state that contains (a) an array field or (b) a nil pointer of more
// than one level is written into the checkpoint without complaint at the interrupt, but the run can never be resumed:
// decoding the checkpoint panics inside Runnable.Invoke (the panic is not even converted into an error).

type c11bStore struct{ m map[string][]byte }

func (s *c11bStore) Get(_ context.Context, id string) ([]byte, bool, error) {
	v, ok := s.m[id]
	return v, ok, nil
}
func (s *c11bStore) Set(_ context.Context, id string, v []byte) error { s.m[id] = v; return nil }

type c11bArrayState struct {
	Window [3]int
}

type c11bPtrState struct {
	N    int
	Next **int // nil
}

func c11bRoundTrip[S any](t *testing.T, gen func() S, show func(S) string, want string) {
	g := NewGraph[string, string](WithGenLocalState(func(ctx context.Context) S { return gen() }))
	_ = g.AddLambdaNode("a", InvokableLambda(func(ctx context.Context, in string) (string, error) { return in, nil }))
	_ = g.AddLambdaNode("b", InvokableLambda(func(ctx context.Context, in string) (string, error) { return in, nil }),
		WithStatePreHandler(func(ctx context.Context, in string, s S) (string, error) { return show(s), nil }))
	_ = g.AddEdge(START, "a")
	_ = g.AddEdge("a", "b")
	_ = g.AddEdge("b", END)

	ctx := context.Background()
	r, err := g.Compile(ctx, WithCheckPointStore(&c11bStore{m: map[string][]byte{}}), WithInterruptBeforeNodes([]string{"b"}))
	if err != nil {
		t.Fatal(err)
	}
	_, err = r.Invoke(ctx, "in", WithCheckPointID("1"))
	if _, ok := ExtractInterruptInfo(err); !ok {
		t.Fatalf("expected an interrupt (checkpoint written), got: %v", err)
	}

	defer func() {
		if p := recover(); p != nil {
			t.Fatalf("resume panicked: %v", p)
		}
	}()
	out, err := r.Invoke(ctx, "", WithCheckPointID("1"))
	if err != nil {
		t.Fatalf("resume failed: %v", err)
	}
	if out != want {
		t.Fatalf("state changed across interrupt/resume: got %q want %q", out, want)
	}
}

func TestC11BaselineArrayFieldInState(t *testing.T) {
	_ = RegisterSerializableType[c11bArrayState]("c11b_array_state")
	c11bRoundTrip(t,
		func() *c11bArrayState { return &c11bArrayState{Window: [3]int{1, 2, 3}} },
		func(s *c11bArrayState) string { return fmt.Sprint(s.Window) },
		"[1 2 3]")
}

func TestC11BaselineNilMultiLevelPointerInState(t *testing.T) {
	_ = RegisterSerializableType[c11bPtrState]("c11b_ptr_state")
	c11bRoundTrip(t,
		func() *c11bPtrState { return &c11bPtrState{N: 7} },
		func(s *c11bPtrState) string { return fmt.Sprint(s.N, s.Next == nil) },
		"7 true")
}
