package compose

import (
	"context"
	"fmt"
	"io"
	"strings"
	"testing"

	"github.com/stretchr/testify/assert"
	"github.com/stretchr/testify/require"

	"github.com/cloudwego/eino/components/tool"
	"github.com/cloudwego/eino/schema"
)

// a streamable-only tool whose chunks are rendered lazily, while the stream is read (the way utils.NewStreamTool
// marshals its chunks); rendering the second chunk panics.
type c17bLazyPanicTool struct{}

func (c17bLazyPanicTool) Info(context.Context) (*schema.ToolInfo, error) {
	return &schema.ToolInfo{Name: "lazy"}, nil
}

func (c17bLazyPanicTool) StreamableRun(_ context.Context, args string, _ ...tool.Option) (*schema.StreamReader[string], error) {
	return schema.StreamReaderWithConvert(schema.StreamReaderFromArray([]int{1, 2, 3}), func(i int) (string, error) {
		if i == 2 {
			panic("c17b: the tool panics while rendering chunk 2")
		}
		return args, nil
	}), nil
}

func c17bDrain(sr *schema.StreamReader[[]*schema.Message]) (err error) {
	defer func() {
		if p := recover(); p != nil {
			err = fmt.Errorf("ESCAPED PANIC in the caller's Recv: %v", p)
		}
	}()
	defer sr.Close()
	for {
		_, e := sr.Recv()
		if e == io.EOF {
			return nil
		}
		if e != nil {
			return e
		}
	}
}

// With two tool calls the panic of the lazily rendered answer is delivered as the error of the node's stream
// (the forwarding goroutine recovers it). With ONE tool call the very same tool panics in the goroutine of whoever
// reads the run's output stream: the run neither fails with an error nor recovers the panic.
func TestC17Baseline_SingleCallLazyPanicEscapes(t *testing.T) {
	ctx := context.Background()
	tn, err := NewToolNode(ctx, &ToolsNodeConfig{Tools: []tool.BaseTool{c17bLazyPanicTool{}}})
	require.NoError(t, err)

	chain := NewChain[*schema.Message, []*schema.Message]()
	chain.AppendToolsNode(tn)
	r, err := chain.Compile(ctx)
	require.NoError(t, err)

	for _, n := range []int{2, 1} {
		var calls []schema.ToolCall
		for i := 0; i < n; i++ {
			calls = append(calls, schema.ToolCall{ID: fmt.Sprintf("id-%d", i), Function: schema.FunctionCall{Name: "lazy", Arguments: "a"}})
		}
		sr, err := r.Stream(ctx, schema.AssistantMessage("", calls))
		if err == nil {
			err = c17bDrain(sr)
		}
		require.Error(t, err, "%d call(s)", n)
		assert.True(t, strings.Contains(err.Error(), "c17b: the tool panics"), "%d call(s): %v", n, err)
		assert.False(t, strings.Contains(err.Error(), "ESCAPED PANIC"), "%d call(s): %v", n, err)
	}
}
