package compose

import (
	"context"
	"io"
	"testing"

	"github.com/cloudwego/eino/components/tool"
	"github.com/cloudwego/eino/schema"
)

// Reproducers for behaviour of the UNMODIFIED tree that contradicts property C17.

type c17blInvokable struct {
	name string
	run  func(args string) (string, error)
}

func (t *c17blInvokable) Info(context.Context) (*schema.ToolInfo, error) {
	return &schema.ToolInfo{Name: t.name}, nil
}

func (t *c17blInvokable) InvokableRun(_ context.Context, args string, _ ...tool.Option) (string, error) {
	return t.run(args)
}

type c17blStreamable struct {
	name   string
	chunks []string
}

func (t *c17blStreamable) Info(context.Context) (*schema.ToolInfo, error) {
	return &schema.ToolInfo{Name: t.name}, nil
}

func (t *c17blStreamable) StreamableRun(_ context.Context, _ string, _ ...tool.Option) (*schema.StreamReader[string], error) {
	sr, sw := schema.Pipe[string](len(t.chunks))
	for _, c := range t.chunks {
		sw.Send(c, nil)
	}
	sw.Close()
	return sr, nil
}

func c17blCalls(names ...string) *schema.Message {
	in := &schema.Message{Role: schema.Assistant}
	for i, n := range names {
		in.ToolCalls = append(in.ToolCalls, schema.ToolCall{
			ID:       "call-" + string(rune('a'+i)),
			Function: schema.FunctionCall{Name: n, Arguments: "{}"},
		})
	}
	return in
}

// (1) A tool that panics with a nil value ("panic(nil)") is neither reported as an error nor does it crash: the
// panic is swallowed and the call is answered with an empty tool message, whatever the position of the call.
// (eino's go.mod says "go 1.18", so GODEBUG panicnil=1 is the default for its tests and for every main module
// that declares go < 1.21: recover() returns nil for such a panic.)
func TestC17Baseline_PanicNilToolIsSwallowed(t *testing.T) {
	ctx := context.Background()
	tn, err := NewToolNode(ctx, &ToolsNodeConfig{Tools: []tool.BaseTool{
		&c17blInvokable{name: "ok", run: func(string) (string, error) { return "ok", nil }},
		&c17blInvokable{name: "bad", run: func(string) (string, error) { panic(nil) }},
	}})
	if err != nil {
		t.Fatal(err)
	}

	g := NewGraph[*schema.Message, []*schema.Message]()
	if err = g.AddToolsNode("tools", tn); err != nil {
		t.Fatal(err)
	}
	if err = g.AddEdge(START, "tools"); err != nil {
		t.Fatal(err)
	}
	if err = g.AddEdge("tools", END); err != nil {
		t.Fatal(err)
	}
	r, err := g.Compile(ctx)
	if err != nil {
		t.Fatal(err)
	}

	for _, order := range [][]string{{"ok", "bad"}, {"bad", "ok"}, {"bad"}} {
		out, err := r.Invoke(ctx, c17blCalls(order...))
		if err == nil {
			var cs []string
			for _, m := range out {
				cs = append(cs, m.Content)
			}
			t.Errorf("calls %v: the run with a panicking tool succeeded, tool messages %q", order, cs)
		}
	}
}

// (2) A streamable tool whose stream ends without a chunk: the invoked form fails ("stream reader is empty"),
// the streamed form succeeds and concatenates to a list whose entry for that call is a nil *schema.Message.
// Whatever the intended answer is, the two forms do not agree and the streamed one does not carry N tool messages.
func TestC17Baseline_EmptyToolStream(t *testing.T) {
	ctx := context.Background()
	tn, err := NewToolNode(ctx, &ToolsNodeConfig{Tools: []tool.BaseTool{
		&c17blStreamable{name: "talk", chunks: []string{"a", "b"}},
		&c17blStreamable{name: "mute", chunks: nil},
	}})
	if err != nil {
		t.Fatal(err)
	}
	in := c17blCalls("talk", "mute")

	invoked, invokeErr := tn.Invoke(ctx, in)

	sr, err := tn.Stream(ctx, in)
	if err != nil {
		if invokeErr == nil {
			t.Fatalf("Stream fails (%v) but Invoke succeeds (%v)", err, invoked)
		}
		return
	}
	defer sr.Close()
	var frames [][]*schema.Message
	var streamErr error
	for {
		f, e := sr.Recv()
		if e == io.EOF {
			break
		}
		if e != nil {
			streamErr = e
			break
		}
		frames = append(frames, f)
	}
	if (invokeErr == nil) != (streamErr == nil) {
		t.Errorf("Invoke error: %v, streamed form error: %v", invokeErr, streamErr)
	}
	if streamErr == nil {
		streamed := make([]*schema.Message, len(in.ToolCalls))
		for _, f := range frames {
			for i, m := range f {
				if m == nil {
					continue
				}
				if streamed[i] == nil {
					cp := *m
					streamed[i] = &cp
				} else {
					streamed[i].Content += m.Content
				}
			}
		}
		for i, m := range streamed {
			if m == nil {
				t.Errorf("streamed form: no tool message for call %d (%s)", i, in.ToolCalls[i].ID)
			}
		}
	}
}
