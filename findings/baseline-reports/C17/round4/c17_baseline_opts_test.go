package compose

import (
	"context"
	"sync"
	"testing"

	"github.com/cloudwego/eino/components/tool"
	"github.com/cloudwego/eino/schema"
)

// (3) The tool options of a request are handed to all concurrently running tools as ONE slice (same backing
// array). When that slice has spare capacity (e.g. three separate WithToolOption options: len 3, cap 4), a tool
// that appends a default option to its variadic opts - ordinary Go - writes into memory shared with its siblings:
// a data race, and a tool can end up running with the option appended by another tool.

type c17blOpt struct{ tag string }

func c17blWithTag(tag string) tool.Option {
	return tool.WrapImplSpecificOptFn(func(o *c17blOpt) { o.tag = tag })
}

type c17blTaggingTool struct {
	name    string
	barrier *sync.WaitGroup
}

func (t *c17blTaggingTool) Info(context.Context) (*schema.ToolInfo, error) {
	return &schema.ToolInfo{Name: t.name}, nil
}

func (t *c17blTaggingTool) InvokableRun(_ context.Context, _ string, opts ...tool.Option) (string, error) {
	// a wrapper adding its own default after the caller's options
	opts = append(opts, c17blWithTag(t.name))

	// make sure both tools have appended before either looks
	t.barrier.Done()
	t.barrier.Wait()

	o := tool.GetImplSpecificOptions(&c17blOpt{}, opts...)
	return o.tag, nil
}

func TestC17Baseline_ToolOptionsSliceSharedBetweenConcurrentTools(t *testing.T) {
	ctx := context.Background()
	barrier := &sync.WaitGroup{}
	barrier.Add(2)

	tn, err := NewToolNode(ctx, &ToolsNodeConfig{Tools: []tool.BaseTool{
		&c17blTaggingTool{name: "A", barrier: barrier},
		&c17blTaggingTool{name: "B", barrier: barrier},
	}})
	if err != nil {
		t.Fatal(err)
	}

	in := &schema.Message{Role: schema.Assistant, ToolCalls: []schema.ToolCall{
		{ID: "1", Function: schema.FunctionCall{Name: "A"}},
		{ID: "2", Function: schema.FunctionCall{Name: "B"}},
	}}

	noop := tool.WrapImplSpecificOptFn(func(*struct{}) {})
	out, err := tn.Invoke(ctx, in, WithToolOption(noop), WithToolOption(noop), WithToolOption(noop))
	if err != nil {
		t.Fatal(err)
	}
	if out[0].Content != "A" || out[1].Content != "B" {
		t.Errorf("tools ran with each other's options: call 1 (tool A) -> %q, call 2 (tool B) -> %q", out[0].Content, out[1].Content)
	}
}
