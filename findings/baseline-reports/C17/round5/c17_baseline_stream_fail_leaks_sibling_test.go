package compose

import (
	"context"
	"errors"
	"testing"
	"time"

	"github.com/cloudwego/eino/components/tool"
	"github.com/cloudwego/eino/schema"
)

type c17bProducer struct {
	done chan string // receives how the producer ended
}

func (c *c17bProducer) Info(context.Context) (*schema.ToolInfo, error) {
	return &schema.ToolInfo{Name: "producer", Desc: "streams chunks"}, nil
}

func (c *c17bProducer) StreamableRun(context.Context, string, ...tool.Option) (*schema.StreamReader[string], error) {
	sr, sw := schema.Pipe[string](0)
	go func() {
		defer sw.Close()
		for i := 0; i < 10; i++ {
			if closed := sw.Send("chunk", nil); closed {
				c.done <- "reader closed"
				return
			}
		}
		c.done <- "all chunks consumed"
	}()
	return sr, nil
}

type c17bFailing struct{ err error }

func (c *c17bFailing) Info(context.Context) (*schema.ToolInfo, error) {
	return &schema.ToolInfo{Name: "failing", Desc: "fails"}, nil
}

func (c *c17bFailing) StreamableRun(context.Context, string, ...tool.Option) (*schema.StreamReader[string], error) {
	return nil, c.err
}

// ToolsNode.Stream with two calls: the first tool hands back a live stream, the second fails at once.
// The node reports the failure (correct), but drops the first tool's stream reader without closing it:
// nobody can ever read or close it, so the tool's producer stays blocked in Send for ever.
func TestC17Baseline_StreamFailureLeavesSiblingStreamOpen(t *testing.T) {
	ctx := context.Background()
	boom := errors.New("boom")
	p := &c17bProducer{done: make(chan string, 1)}

	tn, err := NewToolNode(ctx, &ToolsNodeConfig{Tools: []tool.BaseTool{p, &c17bFailing{err: boom}}})
	if err != nil {
		t.Fatal(err)
	}

	sr, err := tn.Stream(ctx, &schema.Message{Role: schema.Assistant, ToolCalls: []schema.ToolCall{
		{ID: "1", Function: schema.FunctionCall{Name: "producer", Arguments: "{}"}},
		{ID: "2", Function: schema.FunctionCall{Name: "failing", Arguments: "{}"}},
	}})
	if sr != nil {
		sr.Close()
	}
	if !errors.Is(err, boom) {
		t.Fatalf("want the failing tool's error, got %v", err)
	}

	select {
	case how := <-p.done:
		t.Logf("producer ended: %s", how)
	case <-time.After(2 * time.Second):
		t.Fatal("the failed Stream call returned, but the sibling tool's producer is still blocked in Send: " +
			"its stream reader was neither handed to the caller nor closed")
	}
}
