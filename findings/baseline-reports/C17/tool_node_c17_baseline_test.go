package compose

import (
	"context"
	"io"
	"testing"

	"github.com/cloudwego/eino/components/tool"
	"github.com/cloudwego/eino/schema"
)

type c17bInvokable struct{ name string }

func (t *c17bInvokable) Info(context.Context) (*schema.ToolInfo, error) {
	return &schema.ToolInfo{Name: t.name}, nil
}
func (t *c17bInvokable) InvokableRun(_ context.Context, args string, _ ...tool.Option) (string, error) {
	return t.name + ":" + args, nil
}

// a streamable-only tool whose answer is empty: it closes its stream without sending a chunk
type c17bSilentStream struct{ name string }

func (t *c17bSilentStream) Info(context.Context) (*schema.ToolInfo, error) {
	return &schema.ToolInfo{Name: t.name}, nil
}
func (t *c17bSilentStream) StreamableRun(context.Context, string, ...tool.Option) (*schema.StreamReader[string], error) {
	sr, sw := schema.Pipe[string](1)
	sw.Close()
	return sr, nil
}

func TestC17Baseline_StreamToolWithEmptyAnswer(t *testing.T) {
	ctx := context.Background()
	tn, err := NewToolNode(ctx, &ToolsNodeConfig{Tools: []tool.BaseTool{&c17bInvokable{"echo"}, &c17bSilentStream{"silent"}}})
	if err != nil {
		t.Fatal(err)
	}
	in := &schema.Message{Role: schema.Assistant, ToolCalls: []schema.ToolCall{
		{ID: "1", Function: schema.FunctionCall{Name: "echo", Arguments: "x"}},
		{ID: "2", Function: schema.FunctionCall{Name: "silent", Arguments: "y"}},
	}}

	t.Run("invoke", func(t *testing.T) {
		out, err := tn.Invoke(ctx, in)
		if err != nil {
			t.Fatalf("invoke failed although no tool failed: %v", err)
		}
		if len(out) != 2 || out[1] == nil || out[1].ToolCallID != "2" {
			t.Fatalf("bad output: %v", out)
		}
	})

	t.Run("stream", func(t *testing.T) {
		sr, err := tn.Stream(ctx, in)
		if err != nil {
			t.Fatal(err)
		}
		var frames [][]*schema.Message
		for {
			f, err := sr.Recv()
			if err == io.EOF {
				break
			}
			if err != nil {
				t.Fatal(err)
			}
			frames = append(frames, f)
		}
		out, err := concatStreamReader(schema.StreamReaderFromArray(frames))
		if err != nil {
			t.Fatal(err)
		}
		if len(out) != 2 {
			t.Fatalf("expected 2 messages, got %d", len(out))
		}
		for i, m := range out {
			if m == nil {
				t.Fatalf("message %d of the concatenated stream is nil: call %q was never answered", i, in.ToolCalls[i].ID)
			}
		}
	})
}
