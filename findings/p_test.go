package exp

import (
	"fmt"
	"io"
	"testing"
	"time"

	"github.com/cloudwego/eino/schema"
)

// C08: copies of a stream see the same sequence. A convert function that panics while a COPIED converted
// stream is read used to poison the shared copy cell (sync.Once done, cell empty): the other copies read a
// phantom (zero, nil) item, then ErrRecvAfterClosed for ever; merged copies never reached EOF.
func readAll(sr *schema.StreamReader[int]) (out []string) {
	defer func() {
		if p := recover(); p != nil {
			out = append(out, fmt.Sprintf("PANIC"))
		}
	}()
	for i := 0; i < 20; i++ {
		v, err := sr.Recv()
		if err == io.EOF {
			return append(out, "EOF")
		}
		if err != nil {
			out = append(out, "err")
			continue
		}
		out = append(out, fmt.Sprint(v))
	}
	return append(out, "NO-EOF")
}

func TestCopiesOfPanickingConvertSeeTheSameSequence(t *testing.T) {
	mk := func() []*schema.StreamReader[int] {
		src := schema.StreamReaderFromArray([]int{1, 2, 3})
		conv := schema.StreamReaderWithConvert(src, func(i int) (int, error) {
			if i == 2 {
				panic("boom")
			}
			return i * 10, nil
		})
		return conv.Copy(2)
	}
	cps := mk()
	a, b := readAll(cps[0]), readAll(cps[1])
	if fmt.Sprint(a) != fmt.Sprint(b) {
		t.Fatalf("copies differ: %v vs %v", a, b)
	}
	if fmt.Sprint(a) != "[10 err 30 EOF]" {
		t.Fatalf("sequence: %v", a)
	}
	// merged copies terminate
	cps = mk()
	m := schema.MergeStreamReaders([]*schema.StreamReader[int]{cps[0], cps[1]})
	done := make(chan []string, 1)
	go func() { done <- readAll(m) }()
	select {
	case got := <-done:
		if got[len(got)-1] != "EOF" {
			t.Fatalf("merged copies: %v", got)
		}
	case <-time.After(3 * time.Second):
		t.Fatal("merged copies never end")
	}
}
