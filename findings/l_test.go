package exp

import (
	"context"
	"io"
	"testing"

	"github.com/cloudwego/eino/compose"
)

type lStore struct{ m map[string][]byte }

func (s *lStore) Get(ctx context.Context, id string) ([]byte, bool, error) {
	v, ok := s.m[id]
	return v, ok, nil
}
func (s *lStore) Set(ctx context.Context, id string, b []byte) error { s.m[id] = b; return nil }

type lJoinIn struct {
	S string
	A string
}

// C05 / C06: a Stream run is interrupted while a join node's channel still holds the value it got from
// START (its other predecessor asked for a rerun). The checkpoint must be written and the run resumable.
func TestStreamInterruptWithPendingStartValue(t *testing.T) {
	calls := 0
	a := compose.InvokableLambda(func(ctx context.Context, in string) (string, error) {
		calls++
		if calls == 1 {
			return "", compose.InterruptAndRerun
		}
		return "a(" + in + ")", nil
	})
	j := compose.InvokableLambda(func(ctx context.Context, in lJoinIn) (string, error) {
		return in.S + "+" + in.A, nil
	})
	wf := compose.NewWorkflow[string, string]()
	wf.AddLambdaNode("a", a).AddInput(compose.START)
	wf.AddLambdaNode("j", j).AddInput(compose.START, compose.ToField("S")).AddInput("a", compose.ToField("A"))
	wf.End().AddInput("j")
	store := &lStore{m: map[string][]byte{}}
	r, err := wf.Compile(context.Background(), compose.WithCheckPointStore(store))
	if err != nil {
		t.Fatal(err)
	}
	sr, err := r.Stream(context.Background(), "x", compose.WithCheckPointID("1"))
	if err == nil {
		sr.Close()
		t.Fatal("expected an interrupt")
	}
	if _, ok := compose.ExtractInterruptInfo(err); !ok {
		t.Fatalf("not an interrupt error: %v", err)
	}
	if _, ok := store.m["1"]; !ok {
		t.Fatal("no checkpoint written")
	}
	sr, err = r.Stream(context.Background(), "ignored", compose.WithCheckPointID("1"))
	if err != nil {
		t.Fatalf("resume: %v", err)
	}
	defer sr.Close()
	out := ""
	for {
		c, err := sr.Recv()
		if err == io.EOF {
			break
		}
		if err != nil {
			t.Fatalf("recv: %v", err)
		}
		out += c
	}
	if out != "x+a(x)" {
		t.Fatalf("got %q", out)
	}
}
