package exp

import (
	"context"
	"fmt"
	"testing"

	"github.com/cloudwego/eino/compose"
)

type srcQ struct{ A any }

func TestWholeInputFromNilField(t *testing.T) {
	defer func() {
		if e := recover(); e != nil {
			t.Fatalf("panic: %v", e)
		}
	}()
	w := compose.NewWorkflow[srcQ, string]()
	w.AddLambdaNode("n", compose.InvokableLambda(func(ctx context.Context, in any) (string, error) {
		return fmt.Sprintf("%v", in == nil), nil
	})).AddInput(compose.START, compose.FromField("A"))
	w.End().AddInput("n")
	r, err := w.Compile(context.Background())
	if err != nil {
		t.Fatal(err)
	}
	out, err := r.Invoke(context.Background(), srcQ{})
	fmt.Println("out:", out, "err:", err)
}
