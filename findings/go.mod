module exp

go 1.18

require github.com/cloudwego/eino v0.0.0

require (
	github.com/bytedance/sonic v1.13.2 // indirect
	github.com/bytedance/sonic/loader v0.2.4 // indirect
	github.com/cloudwego/base64x v0.1.5 // indirect
	github.com/dustin/go-humanize v1.0.1 // indirect
	github.com/getkin/kin-openapi v0.118.0 // indirect
	github.com/go-openapi/jsonpointer v0.19.5 // indirect
	github.com/go-openapi/swag v0.19.5 // indirect
	github.com/goph/emperror v0.17.2 // indirect
	github.com/invopop/yaml v0.1.0 // indirect
	github.com/josharian/intern v1.0.0 // indirect
	github.com/json-iterator/go v1.1.12 // indirect
	github.com/klauspost/cpuid/v2 v2.0.9 // indirect
	github.com/mailru/easyjson v0.7.7 // indirect
	github.com/modern-go/concurrent v0.0.0-20180306012644-bacd9c7ef1dd // indirect
	github.com/modern-go/reflect2 v1.0.2 // indirect
	github.com/mohae/deepcopy v0.0.0-20170929034955-c48cc78d4826 // indirect
	github.com/nikolalohinski/gonja v1.5.3 // indirect
	github.com/pelletier/go-toml/v2 v2.0.9 // indirect
	github.com/perimeterx/marshmallow v1.1.4 // indirect
	github.com/pkg/errors v0.9.1 // indirect
	github.com/sirupsen/logrus v1.9.3 // indirect
	github.com/slongfield/pyfmt v0.0.0-20220222012616-ea85ff4c361f // indirect
	github.com/twitchyliquid64/golang-asm v0.15.1 // indirect
	github.com/yargevad/filepathx v1.0.0 // indirect
	golang.org/x/arch v0.11.0 // indirect
	golang.org/x/exp v0.0.0-20230713183714-613f0c0eb8a1 // indirect
	golang.org/x/sys v0.26.0 // indirect
	gopkg.in/yaml.v2 v2.4.0 // indirect
	gopkg.in/yaml.v3 v3.0.1 // indirect
)

replace github.com/cloudwego/eino => /repo
