package exp

import (
	"context"
	"fmt"
	"sync"
	"testing"

	"github.com/cloudwego/eino/callbacks"
	"github.com/cloudwego/eino/compose"
)

type rec struct {
	name string
	mu   *sync.Mutex
	log  *[]string
}

func mk(name string, mu *sync.Mutex, log *[]string) callbacks.Handler {
	return callbacks.NewHandlerBuilder().OnStartFn(func(ctx context.Context, info *callbacks.RunInfo, input callbacks.CallbackInput) context.Context {
		mu.Lock()
		*log = append(*log, name+"@"+info.Name)
		mu.Unlock()
		return ctx
	}).Build()
}

// C10: handler slice aliasing between parallel nodes
func TestHandlerAlias(t *testing.T) {
	for iter := 0; iter < 200; iter++ {
		var mu sync.Mutex
		var log []string
		g := compose.NewGraph[string, map[string]any]()
		id := func(ctx context.Context, in string) (string, error) { return in, nil }
		_ = g.AddLambdaNode("A", compose.InvokableLambda(id), compose.WithNodeName("A"), compose.WithOutputKey("A"))
		_ = g.AddLambdaNode("B", compose.InvokableLambda(id), compose.WithNodeName("B"), compose.WithOutputKey("B"))
		_ = g.AddEdge(compose.START, "A")
		_ = g.AddEdge(compose.START, "B")
		_ = g.AddEdge("A", compose.END)
		_ = g.AddEdge("B", compose.END)
		r, err := g.Compile(context.Background(), compose.WithGraphName("G"))
		if err != nil {
			t.Fatal(err)
		}
		_, err = r.Invoke(context.Background(), "x",
			compose.WithCallbacks(mk("g1", &mu, &log)),
			compose.WithCallbacks(mk("g2", &mu, &log)),
			compose.WithCallbacks(mk("g3", &mu, &log)),
			compose.WithCallbacks(mk("hA", &mu, &log)).DesignateNode("A"),
			compose.WithCallbacks(mk("hB", &mu, &log)).DesignateNode("B"),
		)
		if err != nil {
			t.Fatal(err)
		}
		cnt := map[string]int{}
		for _, l := range log {
			cnt[l]++
		}
		if cnt["hA@A"] != 1 || cnt["hB@B"] != 1 || cnt["hA@B"] != 0 || cnt["hB@A"] != 0 {
			fmt.Println("iter", iter, "VIOLATION:", log)
			return
		}
	}
	fmt.Println("no violation observed")
}
