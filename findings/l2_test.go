package exp

import (
	"context"
	"io"
	"testing"

	"github.com/cloudwego/eino/compose"
)

// same situation as l_test.go without field mappings: DAG graph, START -> a -> j and START -> j.
func TestStreamInterruptWithPendingStartValuePlainGraph(t *testing.T) {
	calls := 0
	a := compose.InvokableLambda(func(ctx context.Context, in map[string]any) (map[string]any, error) {
		calls++
		if calls == 1 {
			return nil, compose.InterruptAndRerun
		}
		return map[string]any{"a": "A"}, nil
	})
	j := compose.InvokableLambda(func(ctx context.Context, in map[string]any) (string, error) {
		s, _ := in["s"].(string)
		av, _ := in["a"].(string)
		return s + "+" + av, nil
	})
	g := compose.NewGraph[map[string]any, string]()
	_ = g.AddLambdaNode("a", a)
	_ = g.AddLambdaNode("j", j)
	_ = g.AddEdge(compose.START, "a")
	_ = g.AddEdge(compose.START, "j")
	_ = g.AddEdge("a", "j")
	_ = g.AddEdge("j", compose.END)
	store := &lStore{m: map[string][]byte{}}
	r, err := g.Compile(context.Background(), compose.WithNodeTriggerMode(compose.AllPredecessor), compose.WithCheckPointStore(store))
	if err != nil {
		t.Fatal(err)
	}
	sr, err := r.Stream(context.Background(), map[string]any{"s": "S"}, compose.WithCheckPointID("1"))
	if err == nil {
		sr.Close()
		t.Fatal("expected an interrupt")
	}
	if _, ok := compose.ExtractInterruptInfo(err); !ok {
		t.Fatalf("not an interrupt error: %v", err)
	}
	if _, ok := store.m["1"]; !ok {
		t.Fatal("no checkpoint written")
	}
	sr, err = r.Stream(context.Background(), nil, compose.WithCheckPointID("1"))
	if err != nil {
		t.Fatalf("resume: %v", err)
	}
	defer sr.Close()
	out := ""
	for {
		c, err := sr.Recv()
		if err == io.EOF {
			break
		}
		if err != nil {
			t.Fatalf("recv: %v", err)
		}
		out += c
	}
	if out != "S+A" {
		t.Fatalf("got %q", out)
	}
}
