package exp

import (
	"context"
	"fmt"
	"testing"

	"github.com/cloudwego/eino/compose"
)

func TestNilOption(t *testing.T) {
	g := compose.NewGraph[string, string]()
	_ = g.AddLambdaNode("a", compose.InvokableLambdaWithOption(func(ctx context.Context, in string, opts ...int) (string, error) { return in, nil }))
	_ = g.AddEdge(compose.START, "a")
	_ = g.AddEdge("a", compose.END)
	r, err := g.Compile(context.Background())
	fmt.Println("compile:", err)
	func() {
		defer func() { fmt.Println("recovered designated:", recover()) }()
		out, err := r.Invoke(context.Background(), "x", compose.WithLambdaOption(nil).DesignateNode("a"))
		fmt.Println(out, err)
	}()
	func() {
		defer func() { fmt.Println("recovered wrongtype:", recover()) }()
		out, err := r.Invoke(context.Background(), "x", compose.WithLambdaOption("s").DesignateNode("a"))
		fmt.Println(out, err)
	}()
}

// C01: END receives a nil value
func TestNilEnd(t *testing.T) {
	g := compose.NewGraph[string, *int]()
	_ = g.AddLambdaNode("a", compose.InvokableLambda(func(ctx context.Context, in string) (*int, error) { return nil, nil }))
	_ = g.AddEdge(compose.START, "a")
	_ = g.AddEdge("a", compose.END)
	r, _ := g.Compile(context.Background())
	defer func() { fmt.Println("recovered:", recover()) }()
	out, err := r.Invoke(context.Background(), "x")
	fmt.Println("nil end:", out, err)
}
