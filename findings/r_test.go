package exp

import (
	"context"
	"errors"
	"fmt"
	"testing"

	"github.com/cloudwego/eino/compose"
)

var errAgentStep = errors.New("agent step failed")

// C13: a node that runs another compiled runnable and wraps its error with a sentinel: errors.Is on the run's
// error must find the sentinel (before the fix the inner *internalError replaced the node's error).
func TestNodeWrappingNestedRunErrorKeepsItsSentinel(t *testing.T) {
	inner := compose.NewGraph[string, string]()
	_ = inner.AddLambdaNode("in", compose.InvokableLambda(func(ctx context.Context, in string) (string, error) { return "", errors.New("inner boom") }))
	_ = inner.AddEdge(compose.START, "in")
	_ = inner.AddEdge("in", compose.END)
	ir, err := inner.Compile(context.Background())
	if err != nil {
		t.Fatal(err)
	}
	g := compose.NewGraph[string, string]()
	_ = g.AddLambdaNode("outer", compose.InvokableLambda(func(ctx context.Context, in string) (string, error) {
		_, err := ir.Invoke(ctx, in)
		return "", fmt.Errorf("%w: %w", errAgentStep, err)
	}))
	_ = g.AddEdge(compose.START, "outer")
	_ = g.AddEdge("outer", compose.END)
	r, err := g.Compile(context.Background())
	if err != nil {
		t.Fatal(err)
	}
	_, err = r.Invoke(context.Background(), "x")
	if !errors.Is(err, errAgentStep) {
		t.Fatalf("the node's sentinel is not reachable from the run error: %v", err)
	}
}
