#!/bin/bash
# usage: check.sh <property-id> [quick|thorough]
# Static check of one property against /repo's current working tree (re-loaded and re-analysed on every run).
# exit 0 = all obligations discharged (or listed known findings); 1 = VIOLATION; 2 = UNDECIDED (checker could not decide).
set -u
HERE=$(cd "$(dirname "$0")" && pwd)
PROP=${1:?property id}
TIER=${2:-${VERIF_TIER:-quick}}
REPO=${VERIF_REPO:-/repo}
export GOFLAGS=-mod=mod GOPROXY=off GOSUMDB=off GOTOOLCHAIN=local
unset GOWORK
BIN=$HERE/bin/einocheck
if [ ! -x "$BIN" ] || [ -n "$(find "$HERE/checker" -name '*.go' -newer "$BIN" -print -quit)" ]; then
  (cd "$HERE/checker" && go build -o "$BIN" .) || { echo "UNDECIDED property=$PROP reason=checker build failed"; exit 2; }
fi
if [ "$TIER" = thorough ]; then
  exec "$HERE/scripts/thorough.sh" "$PROP" "$REPO"
fi
exec "$BIN" -prop "$PROP" -tier quick -repo "$REPO" -verif "$HERE"
